# -*- coding: utf-8 -*-
"""C01 - Cell values are faithful tabulations of the survey behind the response.

Obligations: coq/Props/C01.v  (Spec/Survey.v, Model/CubeCounts.v, Model/NumArray.v, Model/DimType.v,
Proofs/CubeCountsProofs.v, Proofs/NumArrayProofs.v, Proofs/DimTypeProofs.v).

Correspondence, on random respondent-level surveys (harness/props/cube_util.py, c01_shapes.py):
  (a) Model/CubeCounts.v evaluated inside Coq on the JSON payload (dimensions + flat data)
      vs. the implementation's public outputs: _Slice/_Strand .counts, .unweighted_counts,
      .means/.sums/.stddev/.medians, _Nub.means/.unweighted_count, Cube.counts /
      unweighted_counts / means / sums / stddev / medians (valid tensor);
  (b) the respondent-level oracle (number of respondents who belong to row AND column
      element; mean / sum / stddev / median / valid count of a numeric(-array) variable over the
      respondents of the cell, computed from the answers) vs. the same public outputs;
  (c) Spec/Survey.v `tabulate` evaluated inside Coq on the survey literal vs. the payload
      the generator emitted (the two tabulators check each other);
  (d) Model/DimType.v (the dimension-type rule) evaluated inside Coq on what the response says
      vs. cube.dimension_types, and vs. the kinds of the survey's variables.
Because Props/C01.v proves model(tabulate S) = respondent-level count, (a)+(c) make every
disagreement a concrete failing input of the property; (b) is the direct search oracle.

  (e) BY ELEMENT ID: the counts of every partition keyed by the element ids the implementation
      reports for its dimensions (Cube.dimensions[..].valid_elements.element_ids) vs. the
      respondent-level counts keyed by the ids of the survey's categories / items - which count
      belongs to which category is decided by the respondents, not by position; and, for dimensions
      whose TYPE DEFINITION carries an "order" list, Model/TypedefOrder.v evaluated inside Coq on the
      catalogue + order list vs. the ids and payload offsets (element_idxs) of the implementation's
      valid elements; the counts model (a) is then fed the dimension derived from the typedef.

Case families: 'std' (cube_util.gen_case: every Cat/Mr/Arr class pair, 1-D..3-D, CA-as-0th),
'tdorder' (the same shapes with typedef orders: permuted catalogues, categories the order list leaves
out, codes the catalogue does not know, missing elements anywhere - see c01_shapes.py),
'numarr' (numeric arrays alone / by cat / by MR / by cat x cat / three grouping axes), 'nub'
(no dimension), 'typed' (dimensions that stress the type detection) -- see c01_shapes.py.

PAYLOAD NUMBER TYPES and MULTITABLE COLUMNS (after seeded changes C01-9 / C01-10, which only the generated
obligations noticed): `number_type_fails` re-reads every case with a numeric measure from a response whose
numbers are numpy scalars (np.int64 for whole numbers, np.float32 where exact, np.float64 otherwise) and
demands value-exactly the same counts and numeric measures; `multitable_fails` runs weighted (fractional)
multitables whose single-column filter cubes list fewer rows than the summary (the library augments them)
against the harness' own tabulation of the filtered survey.  Distribution keys `payload-number-types:*`,
`multitable:*`.
"""
import json
import random
from fractions import Fraction

import numpy as np

from harness import core, gen, impl
from harness.props import cube_util as cu
from harness.props import c01_shapes as sh

PID = "C01"
NUM_PUB = list(cu.NUMERIC_NAMES.values())
CUBE_NAMES = ["counts", "unweighted_counts"] + NUM_PUB
FOUR_AXES_CLASSES = ["NumArrxCatxMr", "NumArrxMrxCat", "NumArrxMrxMr"]


def family(case):
    return case.get("family", "std")


def finish_case(case):
    return sh.finish_case(case)


def impl_cube_level(case):
    cube_idx = 0 if case.get("ca_as_0th") else None

    def f():
        c = impl.cube(case["response"], cube_idx=cube_idx)
        out = {"dimension_types": [t.name for t in c.dimension_types]}
        out["dims"] = impl.guarded(lambda: [
            {"alias": d.alias, "type": d.dimension_type.name,
             "ids": [impl.tolist(x) for x in d.valid_elements.element_ids],
             "idxs": [int(x) for x in d.valid_elements.element_idxs]} for d in c.dimensions])
        for n in CUBE_NAMES:
            r = impl.get(c, n)
            out[n] = (r[0], impl.tolist(r[1])) if r[0] == "ok" else r
        return out

    return impl.guarded(f)


def impl_nub(case):
    res = impl.guarded(lambda: impl.cube(case["response"]).partitions)
    if res[0] != "ok":
        return {"error": res}
    parts = res[1]
    out = {"parts": [], "types": [type(p).__name__ for p in parts]}
    for p in parts:
        d = {}
        for n in ("means", "unweighted_count"):
            r = impl.get(p, n)
            d[n] = (r[0], impl.tolist(r[1])) if r[0] == "ok" else r
        out["parts"].append(d)
    return out


def cube_numeric_terms(case, ds):
    meas = case["response"]["result"]["measures"]
    out = []
    for m, pub in cu.NUMERIC_NAMES.items():
        if m in meas:
            out.append(("valid:" + pub, "r_valid_tensor %s %s" % (ds, cu.g_data(meas[m]["data"]))))
    return out


def build(case, with_tab):
    fam = family(case)
    ds = cu.g_dims(case["_axes"])
    pay = cu.g_payload(case["response"])
    if fam == "nub":
        io = impl_nub(case)
        terms = []
    else:
        io = cu.run_impl(case, cu.SLICE_COUNT_NAMES + NUM_PUB, cu.STRAND_COUNT_NAMES + NUM_PUB)
        terms = cu.model_terms(case)
    io["cube"] = impl_cube_level(case)
    terms.append(("valid:counts", "r_valid_tensor %s (cwm_payload %s)" % (ds, pay)))
    terms.append(("valid:unweighted_counts",
                  "r_valid_tensor %s (unweighted_counts_payload %s)" % (ds, pay)))
    if fam in ("nub", "numarr") or case["k"] % 4 == 0:
        terms.extend(cube_numeric_terms(case, ds))
    terms.append(("types", sh.types_term(case)))
    for n, a in enumerate(case["_axes"]):
        if a.get("typedef") is not None:
            terms.append(("typedef:%d" % n, "r_typedef %s" % cu.g_typedef(a["typedef"])))
    if with_tab and fam in ("std", "typed", "tdorder"):
        terms.append(("tabulate", cu.tabulate_term(case)))
    return io, terms


def has_valid_counts(case):
    m = case["response"]["result"]["measures"]
    return "valid_count_unweighted" in m or "valid_count_weighted" in m


NA_KEY = {"means": "mean", "sums": "sum", "stddev": "stddev", "medians": "median"}


def numarr_count_key(case, name):
    m = case["response"]["result"]["measures"]
    if name == "counts" and "valid_count_weighted" in m:
        return "vcw"
    return "vcu"


def nanify(x):
    if isinstance(x, list):
        return [nanify(v) for v in x]
    return "nan" if x is None else x


def compare(case, io, terms, results):
    fails = []
    fam = family(case)
    if "error" in io:
        return [{"what": "exception", "impl": io["error"][1:]}]
    parts = io["parts"]
    sv = case["_sv"]
    oracle = cu.Oracle(sv, case["_axes"]) if fam in ("std", "typed", "tdorder") else None
    na = sh.NumArrOracle(case) if fam == "numarr" else None
    nub = sh.nub_expected(case) if fam == "nub" else None
    use_oracle = not has_valid_counts(case)
    cube = io["cube"]
    if cube[0] != "ok":
        fails.append({"what": "Cube", "impl": cube[1:]})
    for (kind, _t), toks in zip(terms, results):
        if kind == "slices":
            model = cu.dec_cube_slices(toks)
            if len(model) != len(parts) or any(t != "_Slice" for t in io["types"]):
                fails.append({"what": "n_partitions", "impl": len(parts), "impl_kinds": io["types"],
                              "model": len(model), "model_kind": "_Slice"})
                continue
            for k, (mp, ip) in enumerate(zip(model, parts)):
                for name, key in (("counts", "w"), ("unweighted_counts", "u")):
                    r = ip[name]
                    if r[0] != "ok":
                        fails.append({"what": name, "part": k, "impl": r[1:]})
                        continue
                    if mp[key] is None:
                        fails.append({"what": name + ":model-undefined", "part": k})
                        continue
                    d = cu.mat_mismatch(r[1], mp[key]["counts"], name)
                    if d:
                        fails.append(dict(d, part=k, oracle="model"))
                    if oracle is not None and use_oracle:
                        weighted = (key == "w") and sv.weighted
                        exp = oracle.slice_cells(k, "in", "in", weighted)
                        d = cu.mat_mismatch(r[1], exp, name)
                        if d:
                            fails.append(dict(d, part=k, oracle="survey"))
                    if na is not None:
                        exp = nanify(na.partition(k, numarr_count_key(case, name)))
                        d = cu.mat_mismatch(r[1], exp, name)
                        if d:
                            fails.append(dict(d, part=k, oracle="survey"))
        elif kind == "strands":
            model = cu.dec_cube_strands(toks)
            if len(model) != len(parts) or any(t != "_Strand" for t in io["types"]):
                fails.append({"what": "n_partitions", "impl": len(parts), "impl_kinds": io["types"],
                              "model": len(model), "model_kind": "_Strand"})
                continue
            for k, (mp, ip) in enumerate(zip(model, parts)):
                for name, key in (("counts", "w"), ("unweighted_counts", "u")):
                    r = ip[name]
                    if r[0] != "ok":
                        fails.append({"what": name, "part": k, "impl": r[1:]})
                        continue
                    d = cu.mat_mismatch(r[1], mp[key]["counts"], name)
                    if d:
                        fails.append(dict(d, part=k, oracle="model"))
                    if oracle is not None and use_oracle:
                        weighted = (key == "w") and sv.weighted
                        exp = oracle.strand_cells(k, "in", weighted, ca0=bool(case.get("ca_as_0th")))
                        d = cu.mat_mismatch(r[1], exp, name)
                        if d:
                            fails.append(dict(d, part=k, oracle="survey"))
                    if na is not None:
                        exp = nanify(na.partition(k, numarr_count_key(case, name)))
                        d = cu.mat_mismatch(r[1], exp, name)
                        if d:
                            fails.append(dict(d, part=k, oracle="survey"))
        elif kind.startswith("num:"):
            pub = kind[4:]
            model = cu.dec_passthrough(toks)
            if len(model) != len(parts):
                continue   # reported by the 'slices' term
            for k, (mm, ip) in enumerate(zip(model, parts)):
                r = ip.get(pub, ("exc", "not a slice", ""))
                if r[0] != "ok":
                    fails.append({"what": pub, "part": k, "impl": r[1:]})
                    continue
                d = cu.mat_mismatch(r[1], mm, pub)
                if d:
                    fails.append(dict(d, part=k, oracle="model"))
                if na is not None:
                    d = cu.mat_mismatch(r[1], nanify(na.partition(k, NA_KEY[pub])), pub)
                    if d:
                        fails.append(dict(d, part=k, oracle="survey"))
        elif kind.startswith("snum:"):
            pub = kind[5:]
            d0 = core.Dec(toks)
            mv = d0.opt(d0.vec)
            r = parts[0].get(pub, ("exc", "not a strand", "")) if parts else ("exc", "no partition", "")
            if r[0] != "ok":
                fails.append({"what": pub, "impl": r[1:]})
            else:
                d = cu.mat_mismatch(r[1], mv, pub)
                if d:
                    fails.append(dict(d, oracle="model"))
                if na is not None:
                    d = cu.mat_mismatch(r[1], nanify(na.partition(0, NA_KEY[pub])), pub)
                    if d:
                        fails.append(dict(d, oracle="survey"))
        elif kind.startswith("valid:"):
            name = kind[6:]
            mv = core.Dec(toks).vec()
            if cube[0] != "ok":
                continue
            r = cube[1][name]
            if r[0] != "ok" or r[1] is None:
                fails.append({"what": "Cube." + name, "impl": r[1:]})
                continue
            flat = np.asarray(r[1], dtype=float).flatten().tolist()
            if len(flat) != len(mv) or not core.close_vec(flat, mv):
                fails.append({"what": "Cube." + name, "impl": flat, "model": mv, "oracle": "model"})
            if na is not None and all(a["role"] != "mr_sel" for a in case["_axes"]):
                key = NA_KEY.get(name) or numarr_count_key(case, name)
                exp = nanify(na.cube(key))
                if len(flat) != len(exp) or not core.close_vec(flat, exp):
                    fails.append({"what": "Cube." + name, "impl": flat, "expected": exp,
                                  "oracle": "survey"})
            if nub is not None:
                if len(flat) != 1 or not core.close(flat[0], nub[name]):
                    fails.append({"what": "Cube." + name, "impl": flat, "expected": nub[name],
                                  "oracle": "survey"})
                pname = {"means": "means", "unweighted_counts": "unweighted_count"}.get(name)
                if pname:
                    if io["types"] != ["_Nub"]:
                        fails.append({"what": "n_partitions", "impl_kinds": io["types"],
                                      "model_kind": "_Nub"})
                    else:
                        pr = parts[0][pname]
                        if pr[0] != "ok" or pr[1] is None or not core.close(float(pr[1]), mv[0]):
                            fails.append({"what": "_Nub." + pname, "impl": pr[1:], "model": mv[0],
                                          "oracle": "model"})
                        elif not core.close(float(pr[1]), nub[name]):
                            fails.append({"what": "_Nub." + pname, "impl": pr[1], "expected": nub[name],
                                          "oracle": "survey"})
        elif kind == "types":
            ts, ks = sh.dec_types(toks)
            apparent = [t for t in ts if t != "MR_CAT"]
            want = sh.expected_types(case)
            want_k = [cu.ROLE_DK[a["role"]] for a in case["_axes"]]
            if [sh.type_class(t) for t in apparent] != want or ks != want_k:
                # the rule (as modelled) does not give the generator's variables their kinds:
                # a harness / model inconsistency, the implementation is not involved
                fails.append({"what": "type rule (Coq) vs kinds of the survey's variables",
                              "model_types": ts, "model_kinds": ks, "survey": want,
                              "survey_kinds": want_k, "no_impl": True})
            if cube[0] == "ok":
                it = cube[1]["dimension_types"]
                if it != apparent:
                    fails.append({"what": "dimension_types", "impl": it, "model": apparent,
                                  "oracle": "model"})
                if [sh.type_class(t) for t in it] != want:
                    fails.append({"what": "dimension_types", "impl": it, "expected": want,
                                  "oracle": "survey"})
        elif kind.startswith("typedef:"):
            n = int(kind[8:])
            ax = case["_axes"][n]
            d0 = core.Dec(toks)
            flags = d0.list(d0.bool)
            ids = d0.list(d0.Z)
            idxs = d0.list(d0.Z)
            assert d0.done()
            if flags != [bool(m) for m in ax["missing"]]:
                # Model/TypedefOrder.v does not give the generator's payload order: harness / model
                fails.append({"what": "typedef order (Coq) vs the generator's payload order",
                              "model": flags, "generator": ax["missing"], "no_impl": True})
            idim = impl_dim_of_axis(case, io, n)
            if idim is None:
                fails.append({"what": "typedef order: dimension not found", "axis": n,
                              "impl": cube[1].get("dims") if cube[0] == "ok" else cube[1:]})
            elif idim["idxs"] != idxs or [json.dumps(x) for x in idim["ids"]] != \
                    [json.dumps(x) for x in model_ids(case, ax, ids)]:
                fails.append({"what": "typedef order: valid element ids / payload offsets", "axis": n,
                              "impl": {"ids": idim["ids"], "element_idxs": idim["idxs"]},
                              "model": {"ids": ids, "element_idxs": idxs}, "typedef": ax["typedef"],
                              "oracle": "model"})
        elif kind == "tabulate":
            mv = core.Dec(toks).vec()
            exp = cu.natural_weighted_tensor(case)
            if mv != exp:
                fails.append({"what": "tabulate(Coq Spec) vs generator payload", "coq": mv,
                              "python": exp, "no_impl": True})
    if cube[0] == "ok" and fam != "nub":
        fails.extend(keyed_checks(case, io, oracle if use_oracle else None))
    # numeric measures that the response does not carry must raise ValueError, not invent values
    meas = case["response"]["result"]["measures"]
    for m, pub in cu.NUMERIC_NAMES.items():
        if m not in meas:
            for k, ip in enumerate(parts):
                if pub in ip and ip[pub][0] == "ok" and ip[pub][1] is not None:
                    fails.append({"what": pub + ":absent-measure-has-value", "part": k})
    return fails


def apparent_axes(case):
    return [(n, a) for n, a in enumerate(case["_axes"]) if a["role"] not in ("mr_sel", "numarr")]


def impl_dims(case, io):
    """[{alias, type, ids, idxs}] of the implementation's apparent dimensions that stand for the
    axes of the response (a numeric-array dimension, which is no axis of the response's own
    dimensions, is dropped), or None"""
    cube = io["cube"]
    if cube[0] != "ok" or cube[1]["dims"][0] != "ok":
        return None
    return [d for d in cube[1]["dims"][1] if d["type"] != "NUM_ARRAY"]


def impl_dim_of_axis(case, io, n):
    dims = impl_dims(case, io)
    ap = [k for k, _a in apparent_axes(case)]
    if dims is None or len(dims) != len(ap) or n not in ap:
        return None
    return dims[ap.index(n)]


def model_ids(case, ax, ids):
    """the model's integer ids as the implementation names them (a datetime element is known by
    its value, C19)"""
    v = case["_sv"].var(ax["alias"])
    if v.kind == "datetime":
        by_id = {e["id"]: e["value"] for e in v.elements}
        return [by_id.get(i, i) for i in ids]
    return ids


def keyed_map(values, ids, prefix=()):
    """nested list + ids per axis -> {(id, ...): value}; None when shape and ids do not fit"""
    out = {}

    def rec(x, depth, key):
        if depth == len(ids):
            out[key] = x
            return True
        if not isinstance(x, list) or len(x) != len(ids[depth]):
            return False
        return all(rec(y, depth + 1, key + (json.dumps(ids[depth][i]),)) for i, y in enumerate(x))

    return out if rec(values, 0, tuple(prefix)) else None


def keyed_checks(case, io, oracle):
    """(e) of the module docstring: element ids of every apparent dimension, and the counts of
    every partition keyed by them, vs the survey"""
    fails = []
    sv = case["_sv"]
    dims = impl_dims(case, io)
    ap = [a for _n, a in apparent_axes(case)]
    if dims is None:
        return [{"what": "Cube.dimensions[..].valid_elements.element_ids", "impl": io["cube"][1]["dims"][1:],
                 "no_impl": True}]
    if len(dims) != len(ap):
        if family(case) == "typed":
            return []          # dimension-type look-alikes: the number of dimensions is (d)'s matter
        return [{"what": "number of apparent dimensions", "impl": [d["type"] for d in dims],
                 "survey_axes": [a["role"] for a in ap], "oracle": "survey"}]
    exp_ids = [cu.axis_expected_ids(sv, a) for a in ap]
    impl_ids = [d["ids"] for d in dims]
    if oracle is None or family(case) == "numarr":
        # no respondent-level counts to key (valid-count measures / numeric arrays, whose positional
        # oracle is the statistic's): the ids themselves must be the survey's, in payload order
        for a, e, i in zip(ap, exp_ids, impl_ids):
            if [json.dumps(x) for x in e] != [json.dumps(x) for x in i]:
                fails.append({"what": "element ids of dimension " + a["alias"], "impl": i, "expected": e,
                              "oracle": "survey"})
        return fails
    parts = io["parts"]
    ca0 = bool(case.get("ca_as_0th"))
    slices = len(ap) >= 2 and not ca0
    for name, weighted in (("counts", sv.weighted), ("unweighted_counts", False)):
        mi, me = {}, {}
        ok = True
        for k, ip in enumerate(parts):
            r = ip.get(name)
            if r is None or r[0] != "ok" or r[1] is None:
                ok = False
                break
            if slices:
                n_t = len(ap) - 2
                exp = oracle.slice_cells(k, "in", "in", weighted)
            else:
                n_t = len(ap) - 1 if ca0 else 0
                exp = oracle.strand_cells(k, "in", weighted, ca0=ca0)
            if n_t and (k >= len(impl_ids[0]) or k >= len(exp_ids[0])):
                ok = False
                break
            a = keyed_map(r[1], impl_ids[n_t:], [json.dumps(impl_ids[0][k])] if n_t else [])
            b = keyed_map(exp, exp_ids[n_t:], [json.dumps(exp_ids[0][k])] if n_t else [])
            if a is None or b is None:
                ok = False          # a shape problem: reported by the positional comparison
                break
            mi.update(a)
            me.update(b)
        if not ok:
            continue
        if set(mi) != set(me):
            fails.append({"what": name + " by element id: elements shown",
                          "only_impl": sorted(set(mi) - set(me))[:6], "only_survey": sorted(set(me) - set(mi))[:6],
                          "oracle": "survey"})
            continue
        bad = [(key, mi[key], me[key]) for key in sorted(me) if not core.close(float(mi[key]), me[key])]
        if bad:
            fails.append({"what": name + " by element id", "cell_ids": list(bad[0][0]), "impl": bad[0][1],
                          "respondents": bad[0][2], "n_cells_wrong": len(bad), "oracle": "survey"})
    return fails


def nontrivial(case):
    sv = case["_sv"]
    return len(sv.resp) > 0


def case_class(case):
    fam = family(case)
    if fam == "numarr":
        return sh.numarr_class(case)
    if fam == "nub":
        return "Nub"
    return cu.class_pair(case)


def describe(rep, case):
    fam = family(case)
    rep.dist("family=" + fam)
    rep.dist("class=" + case_class(case))
    sv = case["_sv"]
    rep.dist("weighted" if sv.weighted else "unweighted")
    if case.get("near_flat_weights"):
        rep.dist("near-flat-weights (1 +- j * 2^-20)")
    ap = [a for a in case["_axes"] if a["role"] != "mr_sel"]
    rep.dist("ndim=%d" % len(ap))
    mid = any(any(m and not all(a["missing"][n:]) for n, m in enumerate(a["missing"]))
              for a in ap)
    rep.dist("missing_before_valid" if mid else "missing_last_or_none")
    if case["perm"] is not None:
        rep.dist("permuted_axes")
    if has_valid_counts(case):
        rep.dist("valid_counts")
    if "valid_count_weighted" in case["response"]["result"]["measures"]:
        rep.dist("valid_counts_weighted")
    if case["numvar"]:
        rep.dist("numeric_measures")
    if any(w["w"] != "1" and "/" in w["w"] for w in case["survey"]["resp"]):
        rep.dist("fractional_weights")
    if any(w["w"] == "0" for w in case["survey"]["resp"]):
        rep.dist("zero_weights")
    if fam == "numarr":
        rep.dist(case["shape_class"])
        g = [a for a in ap if a["role"] != "numarr"]
        n = len(case["items"])
        if g:
            if all(len(cu.valid_positions(a["missing"])) == n for a in g):
                rep.dist("numarr:square_valid")
            if all(len(a["missing"]) == n for a in g):
                rep.dist("numarr:square_payload")
            if not any(any(a["missing"]) for a in case["_axes"]):
                rep.dist("numarr:no_missing_element_anywhere")
            else:
                rep.dist("numarr:missing_grouping_elements")
        for m in case["measures"]:
            rep.dist("numarr:" + m)
        cells = case["response"]["result"]["measures"][case["measures"][0]]["data"]
        if any(isinstance(x, dict) for x in cells):
            rep.dist("numarr:unavailable_cells")
    if fam == "typed":
        for m in case.get("modes", []):
            rep.dist("typed:" + m)
    tds = [(a, sv.var(a["alias"])) for a in ap if a.get("typedef") is not None]
    for a, v in tds:
        td = a["typedef"]
        kind = "ca_cats" if v.kind == "ca" else v.kind
        rep.dist("typedef_order:dim=" + kind)
        rep.dist("typedef_order:ndim=%d" % len(ap))
        known = [i for i, _m in td["defs"]]
        pay = [c for c in td["order"] if c in known]
        rep.dist("typedef_order:" + ("identity" if pay == known else "catalogue_permuted"))
        if len(pay) < len(known):
            rep.dist("typedef_order:categories_not_listed")
        if len(pay) < len(td["order"]):
            rep.dist("typedef_order:unknown_codes_in_list")
        fl = a["missing"]
        if any(m and not all(fl[n:]) for n, m in enumerate(fl)):
            rep.dist("typedef_order:missing_before_valid_in_payload")
        cat_fl = [m for _i, m in td["defs"]]
        if any(m and not all(cat_fl[n:]) for n, m in enumerate(cat_fl)):
            rep.dist("typedef_order:missing_before_valid_in_catalogue")
        pos = [k for k, x in enumerate(ap) if x is a][0]
        role = ("rows" if pos == len(ap) - 1 else "table") if len(ap) == 1 or case.get("ca_as_0th") else \
            ("columns" if pos == len(ap) - 1 else "rows" if pos == len(ap) - 2 else "table")
        rep.dist("typedef_order:on_" + role)
    if len(tds) > 1:
        rep.dist("typedef_order:several_dimensions")


# ------------------------------------------------------------------------------------
# PASS-THROUGH MEASURES WITH INSERTIONS: means / medians / stddev (NaN subtotals), sums (sums of the
# addends, NaN for a difference in either direction), unweighted counts (sums; NaN differences iff
# the response carries valid counts) - Model/Subtotals.v nan_blocks / sum_blocks, Model/Proportions.v
# count_blocks (the definitions C01_gen_Means / _Sums / _UnweightedCounts tie to matrix/measure.py and
# stripe/measure.py) on the BASE block the implementation reports.
# ------------------------------------------------------------------------------------

INS_IMPORTS = """From Coq Require Import QArith ZArith List Bool.
From CC Require Import Base.XQ Base.Render Base.ListX Model.Subtotals Model.Proportions Model.BaseBlocks.
Import ListNotations."""
INS_KIND = {"means": 0, "medians": 0, "stddev": 0, "sums": 1, "unweighted_counts": 2}
INS_PAIRS = [("cat", "cat"), ("cat", "cat"), ("cat", "cat_date"), ("cat_date", "cat"), ("cat", "mr"), ("mr", "cat")]


def gen_ins_case(rng, k):
    from harness.props import common_cases as cc
    meas = ("count",) + tuple(rng.sample(["mean", "sum", "stddev", "median"], rng.randint(1, 4)))
    case = cc.gen_slice_case(rng, k, p_strand=0.25, p_insert=0.95, measures=meas, numvar="x",
                             valid_counts_p=0.25, kinds2d=INS_PAIRS, kinds1d=["cat", "cat", "cat_date"],
                             n_resp=(3, 30))
    case["pass_insertions"] = True
    return case


def g_subpairs(ss):
    return core.g_list(["(%s, %s)" % (core.g_list([core.g_nat(i) for i in a]),
                                       core.g_list([core.g_nat(i) for i in b])) for a, b in ss])


def _subs(dim):
    return [(list(map(int, x.addend_idxs)), list(map(int, x.subtrahend_idxs))) for x in dim.subtotals]


def ins_jobs(case):
    res = impl.guarded(lambda: impl.partition(case["response"], case["transforms"]))
    if res[0] != "ok":
        return [{"what": "exception", "impl": res[1:]}], []
    p = res[1]
    meas = case["response"]["result"]["measures"]
    names = [pub for m, pub in cu.NUMERIC_NAMES.items() if m in meas] + ["unweighted_counts"]
    dn = "valid_count_unweighted" in meas
    fails, jobs = [], []
    tn = type(p).__name__
    if tn == "_Strand":
        info = impl.guarded(lambda: (impl.dims_info(p), _subs(p._rows_dimension), list(p.row_order())))
        if info[0] != "ok":
            return [{"what": "subtotal-introspection", "impl": info[1:], "no_impl": True}], []
        (n, ns), subs, ro = info[1]
        if ns == 0:
            return [], []
        for pub in names:
            r = impl.get(p, pub)
            if r[0] != "ok":
                fails.append({"what": pub, "impl": r[1:]})
                continue
            b = impl.guarded(lambda: impl.blocks1d(r[1], ro, n, ns))
            if b[0] != "ok":
                fails.append({"what": pub + ":blocks", "impl": b[1:], "no_impl": True})
                continue
            kind = INS_KIND[pub]
            if kind == 2 and dn:
                continue          # strand counts of a valid-count response: C04's ground (open finding there)
            jobs.append(("r_pass_strand %s %s %s" % (core.g_nat(kind), core.g_vec(b[1][0]), g_subpairs(subs)),
                         {"strand": True, "what": pub, "impl": b[1][1], "subs": subs}))
        return fails, jobs
    if tn != "_Slice":
        return [], []
    info = impl.guarded(lambda: (impl.dims_info(p), _subs(p._dimensions[0]), _subs(p._dimensions[1]),
                                 list(p.row_order()), list(p.column_order())))
    if info[0] != "ok":
        return [{"what": "subtotal-introspection", "impl": info[1:], "no_impl": True}], []
    (nr, nrs, nc, ncs), rsubs, csubs, ro, co = info[1]
    if nrs + ncs == 0:
        return [], []
    for pub in names:
        r = impl.get(p, pub)
        if r[0] != "ok":
            fails.append({"what": pub, "impl": r[1:]})
            continue
        b = impl.guarded(lambda: impl.blocks2d(r[1], ro, co, nr, nc, nrs, ncs))
        if b[0] != "ok":
            fails.append({"what": pub + ":blocks", "impl": b[1:], "no_impl": True})
            continue
        jobs.append(("r_pass_blocks %s %s %s %s %s %s %s" % (
            core.g_nat(INS_KIND[pub]), core.g_bool(dn), core.g_nat(nr), core.g_nat(nc),
            g_subpairs(rsubs), g_subpairs(csubs), core.g_mat(b[1][0][0])),
            {"strand": False, "what": pub, "blocks": b[1], "rsubs": rsubs, "csubs": csubs}))
    return fails, jobs


def ins_compare(toks, exp):
    d = core.Dec(toks)
    fails = []
    if exp["strand"]:
        model = d.vec()
        assert d.done()
        if not core.close_vec(exp["impl"], model):
            fails.append({"what": exp["what"] + ":subtotal-values", "impl": exp["impl"], "model": model,
                          "subtotals": exp["subs"], "oracle": "model"})
        return fails
    mcols, mrows, minter = d.mat(), d.mat(), d.mat()
    assert d.done()
    blk = exp["blocks"]
    for what, got, model in (("subtotal-columns", blk[0][1], mcols), ("subtotal-rows", blk[1][0], mrows),
                             ("intersections", blk[1][1], minter)):
        if not core.close_mat(got, model):
            if sum(len(r) for r in got) == 0 and sum(len(r) for r in model) == 0:
                continue
            fails.append({"what": "%s:block:%s" % (exp["what"], what), "impl": got, "model": model,
                          "row_subtotals": exp["rsubs"], "column_subtotals": exp["csubs"], "oracle": "model"})
    return fails


def run_ins_cases(cases, tag="ins"):
    out, all_jobs = [], []
    for case in cases:
        fails, jobs = ins_jobs(case)
        out.append((case, fails))
        all_jobs.append(jobs)
    flat = [t for jobs in all_jobs for (t, _e) in jobs]
    results, coq_s = core.run_coq_cases(PID, INS_IMPORTS, flat, shard=60, tag=tag) if flat else ([], 0.0)
    pos = 0
    for (case, fails), jobs in zip(out, all_jobs):
        for (_t, exp), toks in zip(jobs, results[pos:pos + len(jobs)]):
            fails.extend(ins_compare(toks, exp))
        pos += len(jobs)
    return out, len(flat), coq_s


def ins_replayable(case):
    from harness.props import common_cases as cc
    return dict(cc.replayable(case), pass_insertions=True)


# ------------------------------------------------------------------------------------
# READ-ORDER leg (common_cases.late_reads): counts and the numeric measures read after every other
# public property of a second partition are the ones of a fresh partition.
# ------------------------------------------------------------------------------------

def smoothable(case):
    """last dimension a categorical date with >= 2 valid waves, and a numeric measure in the response"""
    try:
        res = case["response"]["result"]
        last = res["dimensions"][-1]["type"].get("categories") or []
        return (sum(1 for c in last if c.get("date") and not c.get("missing")) >= 2
                and any(m in res["measures"] for m in cu.NUMERIC_NAMES))
    except Exception:
        return False


def late_read_fails(case, max_parts=2):
    import copy
    from harness.props import common_cases as cc
    if case.get("ca_as_0th"):
        return [], 0
    res = impl.guarded(lambda: impl.cube(case["response"]).partitions)
    if res[0] != "ok":
        return [], 0
    meas = case["response"]["result"]["measures"]
    names = ["counts", "unweighted_counts"] + [pub for m, pub in cu.NUMERIC_NAMES.items() if m in meas]
    fails, n = [], 0
    for pidx, p in enumerate(res[1][:max_parts]):
        if type(p).__name__ not in ("_Slice", "_Strand"):
            continue
        fresh = {}
        for nm in names:
            r = impl.get(p, nm)
            fresh[nm] = (r[0], copy.deepcopy(r[1])) if r[0] == "ok" else r
        # when the last dimension is a categorical date the second partition is built WITH a valid
        # smoothing transform (it changes no unsmoothed output): the smoothed reads then really smooth,
        # and must not write into the arrays the unsmoothed outputs are cut from (seeded change C01-7: a
        # strand's smoothed_means overwrote the cube's cached means)
        tr = None
        last = case["response"]["result"]["dimensions"][-1]["type"].get("categories") or []
        n_waves = sum(1 for c in last if c.get("date") and not c.get("missing"))
        if n_waves >= 2:
            key = "rows_dimension" if type(p).__name__ == "_Strand" else "columns_dimension"
            tr = {key: {"smoother": {"function": "one_sided_moving_avg", "window": 2}}}
        population, late = cc.late_reads({"response": case["response"], "transforms": tr,
                                          "k": 1000 * int(case.get("k", 0)) + pidx},
                                         names, fresh, transforms=tr, k=pidx)
        n += 1
        for nm, a, b, culprits in late[:1]:
            fails.append({"what": "%s depends on what was read before" % nm, "part": pidx, "fresh": a,
                          "after_other_reads": b, "population": population,
                          "single_earlier_reads_that_change_it": culprits, "oracle": "order_independent"})
    return fails, n


def _np_number(x, mode):
    """the same number as a numpy scalar (a response handed over as a dict built in memory from numpy
    aggregations): np.float64 always; np.int64 for whole numbers; np.float32 when float32 holds it exactly"""
    import numpy as np
    if isinstance(x, bool) or not isinstance(x, (int, float)):
        return x
    if mode == "int64" and float(x).is_integer() and abs(x) < 2 ** 53:
        return np.int64(int(x))
    if mode == "float32" and float(np.float32(x)) == float(x):
        return np.float32(x)
    return np.float64(x)


def number_type_fails(case, max_parts=2):
    """PAYLOAD NUMBER TYPES (after seeded change C01-9: one shared `{'?': code} -> NaN` helper kept a value only
    when isinstance(x, (int, float)), so np.int64 / np.float32 values of a response built in memory became NaN).
    The property: a numeric measure reports exactly the value the response carries, unavailable -> NaN; HOW the
    number is spelled in the dict (int, float, numpy scalar of any width) is not an input.  Relational: the
    response with every number of every measure's data (and of `counts`) as numpy scalar gives value-exactly
    the outputs of the plain one."""
    import copy
    from harness.props import common_cases as cc
    meas = case["response"]["result"]["measures"]
    names = ["counts", "unweighted_counts"] + [pub for m, pub in cu.NUMERIC_NAMES.items() if m in meas]
    base = impl.guarded(lambda: impl.cube(case["response"]).partitions)
    if base[0] != "ok":
        return [], 0
    fails, n = [], 0
    for mode in ("int64", "float32"):
        r2 = copy.deepcopy(case["response"])
        for m in r2["result"]["measures"].values():
            m["data"] = [_np_number(x, mode) for x in m["data"]]
        r2["result"]["counts"] = [_np_number(x, "int64") for x in r2["result"]["counts"]]
        other = impl.guarded(lambda: impl.Cube(r2).partitions)
        if other[0] != "ok":
            fails.append({"what": "numpy numbers in the payload: partitions raise", "mode": mode, "got": other[1:],
                          "oracle": "number_types"})
            continue
        for pidx, (p, q) in enumerate(list(zip(base[1], other[1]))[:max_parts]):
            n += 1
            for nm in names:
                a, b = cc._canon_read(impl.get(p, nm)), cc._canon_read(impl.get(q, nm))
                if a != b:
                    fails.append({"what": "%s differs when the payload numbers are numpy scalars" % nm,
                                  "mode": mode, "part": pidx, "plain": a, "numpy": b, "oracle": "number_types"})
                    break
    return fails[:2], n


def gen_multitable_case(rng, k):
    """a multitable: summary cube of a text / enum variable + 1-2 single-column filter cubes that list only the
    rows somebody in the filter answered (so that the library augments them), ALWAYS weighted with fractional
    weights (c06.gen_augment is weighted 30% of the time)"""
    from harness.props import c06
    t = gen.make_enum(rng, "v0", "text", n_valid=rng.randint(2, 6), with_missing=rng.random() < 0.7)
    f = gen.make_cat(rng, "f", n_valid=2, n_missing=0)
    sv = gen.Survey([t, f], rng.choice([3, 5, 9, 14]), rng, weighted=True, zero_weights=False)
    for r in sv.resp:
        r["w"] = Fraction(rng.randint(1, 40), rng.choice([4, 8, 10, 16]))
    return c06.survey_case("augment", k, sv, n_filters=rng.randint(1, 2),
                           meas={"measures": ["count"], "numvar": None, "valid_counts": False})


def multitable_fails(case):
    """MULTITABLE COLUMNS (after seeded change C01-10: augment_response scattered the weighted counts into an
    int array, 12.7 -> 12).  The partition of an augmented single-column filter cube is a partition like any
    other: its weighted / unweighted counts are the (weighted) numbers of respondents of the filter in each row
    element of the summary - the harness' own tabulation of the filtered survey (c06_util.response), 0 for the
    rows the filter cube does not list."""
    from harness.props import c06
    summary, fulls, filts = c06.augment_responses(case)
    res = impl.guarded(lambda: c06.cube_set([summary] + filts, 0, None).partition_sets)
    if res[0] != "ok":
        return [{"what": "CubeSet.partition_sets raises", "got": res[1:], "oracle": "survey"}], False
    psets = res[1]
    fails, augmented = [], False
    for j, full in enumerate([summary] + fulls):
        els = full["result"]["dimensions"][0]["type"]["elements"]
        valid = [i for i, e in enumerate(els) if not e.get("missing")]
        exp_w = [full["result"]["measures"]["count"]["data"][i] for i in valid]
        exp_u = [full["result"]["counts"][i] for i in valid]
        if j and len(filts[j - 1]["result"]["counts"]) != len(summary["result"]["counts"]):
            augmented = True
        part = psets[0][j]
        for nm, exp in (("counts", exp_w), ("unweighted_counts", exp_u)):
            r = impl.get(part, nm)
            got = impl.tolist(r[1]) if r[0] == "ok" else None
            if got is None or len(got) != len(exp) or any(abs(float(a) - float(b)) > 1e-9 * max(1, abs(float(b)))
                                                          for a, b in zip(got, exp)):
                fails.append({"what": "multitable column %d: %s is not the tabulation of the filtered survey"
                              % (j, nm), "got": got if got is not None else list(r[1:]),
                              "expected": [float(x) for x in exp], "oracle": "survey"})
    return fails[:2], augmented


def gen_cases(tier, seed):
    """the std cases come first and from their own stream, so that they are the cases the check
    always ran; the new families draw from streams of their own"""
    n_std, n_na, n_nub, n_typed = (260, 150, 24, 130) if tier == "quick" else (4000, 2400, 200, 2000)
    n_td = 170 if tier == "quick" else 2600
    rng = random.Random(seed)
    cases = [cu.gen_case(rng, k) for k in range(n_std)]
    rng_na = random.Random(seed * 7 + 1)
    forced = ["alone", "cat", "mr", "catcat", "four", "ca"]
    cases += [sh.gen_numarr_case(rng_na, n_std + k, shape=forced[k] if k < len(forced) else None)
              for k in range(n_na)]
    rng_nub = random.Random(seed * 7 + 2)
    cases += [sh.gen_nub_case(rng_nub, n_std + n_na + k) for k in range(n_nub)]
    rng_t = random.Random(seed * 7 + 3)
    cases += [sh.gen_typed_case(rng_t, n_std + n_na + n_nub + k) for k in range(n_typed)]
    rng_td = random.Random(seed * 7 + 4)
    forced_td = ["1d", "2d", "3d", "ca", "ca3"]
    cases += [sh.gen_tdorder_case(rng_td, n_std + n_na + n_nub + n_typed + k,
                                  shape_class=forced_td[k] if k < len(forced_td) else None)
              for k in range(n_td)]
    # NEARLY FLAT WEIGHTS (cube_util.near_flat_variant, after seeded change C01-11): the first std cases with
    # at least three respondents, re-weighted to 1 +- j * 2^-20
    rng_nf = random.Random(seed * 7 + 6)
    n_nf = 40 if tier == "quick" else 600
    src = [c for c in cases[:n_std] if len(c["_sv"].resp) >= 3 and not c.get("ca_as_0th")][:n_nf]
    cases += [cu.near_flat_variant(c, rng_nf, 10 ** 6 + i) for i, c in enumerate(src)]
    return cases


def run(tier, seed):
    rep = core.Report(PID, tier, seed)
    ob = core.obligations_gate(rep, PID)
    cases, ios, allterms, flat = gen_cases(tier, seed), [], [], []
    for case in cases:
        k = case["k"]
        with_tab = case["perm"] is None and (k % 3 == 0) and len(case["_sv"].resp) <= 25
        io, terms = build(case, with_tab)
        ios.append(io)
        allterms.append(terms)
        flat.extend(t for (_k, t) in terms)
    results, coq_s = core.run_coq_cases(PID, sh.IMPORTS, flat, shard=60) if flat else ([], 0.0)
    pos = 0
    for case, io, terms in zip(cases, ios, allterms):
        res = results[pos:pos + len(terms)]
        pos += len(terms)
        rep.count_case(cu.replayable(case), nontrivial(case))
        describe(rep, case)
        for (kind, _t), toks in zip(terms, res):
            if kind == "types":
                for t in sh.dec_types(toks)[0]:
                    rep.dist("type=" + t)
        if nontrivial(case):
            rep.sample({"class": case_class(case), "aliases": case["aliases"],
                        "perm": case["perm"], "n_resp": len(case["_sv"].resp),
                        "measures": case["measures"]})
        for f in compare(case, io, terms, res):
            ctx = {"what": f.get("what"), "class": case_class(case)}
            rep.violation("impl-vs-model" if f.get("oracle") != "survey" else "impl-vs-survey",
                          cu.replayable(case), f, ctx, failing_input=not f.get("no_impl"))
    # ---- pass-through measures WITH insertions (own stream) ----
    n_ins = 110 if tier == "quick" else 1600
    rng_i = random.Random(seed * 7 + 5)
    ins_cases = [gen_ins_case(rng_i, 900000 + k) for k in range(n_ins)]
    ins_res, n_ins_terms, coq_i = run_ins_cases(ins_cases)
    for case, fails in ins_res:
        rep.count_case(ins_replayable(case), True)
        rep.dist("pass-insertions:" + ("strand" if case["strand"] else "x".join(str(x) for x in case["kinds"])))
        if case["valid_counts"]:
            rep.dist("pass-insertions:valid_counts")
        for f in fails:
            ctx = {"what": f.get("what"), "class": "pass-insertions"}
            rep.violation("impl-vs-model", ins_replayable(case), f, ctx, failing_input=not f.get("no_impl"))
    rep.cov["pass_insertion_terms_evaluated"] = n_ins_terms
    coq_s += coq_i
    # ---- read order: every third std / typed / tdorder case, up to two partitions ----
    n_late = 0
    for case in cases:
        if family(case) in ("numarr", "nub") or not nontrivial(case):
            continue
        if case["k"] % 3 and not smoothable(case):
            continue      # (every third case, and EVERY case a smoothing transform applies to)
        if smoothable(case):
            rep.dist("late-reads:with-smoothing-transform")
        fails, n = late_read_fails(case)
        n_late += n
        for f in fails:
            ctx = {"what": f.get("what"), "class": case_class(case), "leg": "late-reads"}
            rep.violation("impl-vs-property", dict(cu.replayable(case), late_reads=True), f, ctx)
    # ---- a stream of its own: categorical-date strands / slices with mean (+ sum) measures, read late
    # under a smoothing transform, twice with different read orders ----
    from harness.props import common_cases as cc
    rng_sm = random.Random(seed + 41)
    n_sm = 24 if tier == "quick" else 300
    for k in range(n_sm):
        scase = cc.gen_slice_case(rng_sm, 100000 + k, p_strand=0.5, p_insert=0.0, measures=("count", "mean", "sum"),
                                  numvar="x", valid_counts_p=0.3, kinds1d=["cat_date"],
                                  kinds2d=[("cat", "cat_date"), ("mr", "cat_date"), ("cat_date", "cat_date")],
                                  n_resp=(6, 30))
        scase = cc.replayable(scase)
        for extra in (0, 500000):
            fails, n = late_read_fails(dict(scase, k=scase["k"] + extra))
            n_late += n
            for f in fails:
                rep.violation("impl-vs-property",
                              dict(scase, k=scase["k"] + extra, late_reads=True, smoothing_stream=True), f,
                              {"what": f.get("what"), "leg": "late-reads", "class": "smoothing-stream"})
        rep.count_case(dict(scase, smoothing_stream=True), True)
        rep.dist("late-reads:smoothing-stream")
    rep.cov["late_read_partitions"] = n_late
    # ---- payload number types: every non-trivial std / numarr / nub case with a numeric measure ----
    n_types = 0
    for case in cases:
        meas = case["response"]["result"]["measures"]
        if not nontrivial(case) or case.get("ca_as_0th") or not any(m in meas for m in cu.NUMERIC_NAMES):
            continue
        if tier != "quick" and case["k"] % 4:
            continue
        fails, n = number_type_fails(case)
        n_types += n
        if n:
            rep.dist("payload-number-types:" + family(case))
        for f in fails:
            rep.violation("impl-vs-property", dict(cu.replayable(case), number_types=True), f,
                          {"what": f.get("what"), "class": case_class(case), "leg": "number-types"})
    rep.cov["number_type_partitions"] = n_types
    # ---- multitable columns: weighted augmented single-column filter cubes ----
    rng_mt = random.Random(seed + 73)
    n_aug = 0
    for k in range(30 if tier == "quick" else 500):
        mcase = gen_multitable_case(rng_mt, 700000 + k)
        fails, augmented = multitable_fails(mcase)
        n_aug += bool(augmented)
        rep.count_case(dict(mcase, multitable=True), True)
        rep.dist("multitable:" + ("augmented" if augmented else "all-rows-listed"))
        for f in fails:
            rep.violation("impl-vs-survey", dict(mcase, multitable=True), f,
                          {"what": f.get("what"), "class": "multitable", "leg": "multitable"})
    rep.cov["multitable_cases_with_an_augmented_cube"] = n_aug
    rep.cov["rule"] = (
        "cases from random.Random(seed): surveys of 0..30 respondents (dyadic weights incl. 0, or "
        "unweighted) over 1-3 variables of kind cat / cat_date / mr (per-item sel|other|missing) / "
        "ca / datetime / text / binned enum; missing categories anywhere in the payload; response "
        "dimensions in natural or permuted order (reaching the Cat/Mr/Arr class pairs), 1-D strands, "
        "CA-as-0th strands, 2-D and 3-D; optional mean/sum/stddev/median with unavailable cells and "
        "valid-count measures.  PLUS numeric arrays of 1-4 numeric items (value or none per respondent): "
        "alone (1-D), by a categorical / cat-date / datetime / text / binned variable or an MR (2-D), by "
        "two categorical-like variables or a categorical array (3-D), by three grouping axes (known finding), 75% square (as many "
        "valid grouping elements as items), grouping variables with and without missing elements, "
        "mean/sum/stddev/median + valid_count_unweighted (+ weighted); the 0-D nub (numeric measure over "
        "everybody, with / without count and valid-count measures); and 'typed' cubes: arrays and "
        "categoricals with ids 1,0,-1 (no selected flag / selected:false / flagged = LOGICAL), a flag on "
        "other ids or orders, 'date' on some categories, MR selection dimensions spelled differently.  "
        "non-trivial = at least one respondent; distinct by content hash")
    rep.cov["coq_eval_seconds"] = round(coq_s, 2)
    rep.cov["model_terms_evaluated"] = len(flat)
    rep.assumptions = [
        "the survey-level theorems cover categorical (incl. enum) and MR dimensions; class pairs with a "
        "categorical-array dimension are covered by model-vs-implementation and the survey oracle only",
        "numeric arrays: the response always carries valid_count_unweighted (as every response of the "
        "server does; without it the library cannot build a numeric-array partition at all) and has the "
        "array item as last axis of every measure; theorems are about the layout (any per-cell statistic), "
        "the respondent-level value of the statistic is the Python oracle's",
        "numeric arrays by three grouping axes were the genuine defect C01-numarr-four-axes (repaired in /repo; the shape is forced in every run and must agree with the survey oracle); formerly reported as "
        "KNOWN-FINDING",
        "float64 vs exact rationals: relative tolerance 1e-9",
    ]
    from harness.props import dimtype_legs   # trusted base of harness/translate/x_dimtype.py
    return rep.finish("proof", ob, trusted_base=core.TRUSTED_BASE_COMMON + [
        "Model/CubeCounts.v is hand-written; tied to cube.py by this correspondence run only; its extractors "
        "(counts of the nine class pairs through the factory dict, type strings, _slice_idx_expr, factory "
        "arguments, pass-through measure classes, stripe counts + stripe factory) are ALSO tied to the text of "
        "matrix/cubemeasure.py and stripe/cubemeasure.py by the C01_gen_* obligations (Proofs/GenAgreeCounts.v)",
        "Model/DimType.v (dimension-type rule) and the numeric-array part of Model/CubeCounts.v "
        "(dimension_order, raw_shape, take_valid_ord; named in Model/NumArray.v) are hand-written and tied to "
        "dimension.py / cube.py by this correspondence run only (cube.dimension_types; every public value)",
        core.TRUSTED_BASE_TRANSLATOR,
        "Spec/Survey.v tabulate is validated against harness.gen.tabulate on every third natural-order case",
        dimtype_legs.trusted_base()])


def replay(path):
    d = json.load(open(path))
    if d["violation"].get("kind") in core.OBLIGATION_KINDS:  # a broken obligation, no input to re-run
        return core.replay_obligations(PID, d)
    case = d["violation"]["case"]
    if case.get("pass_insertions"):
        res, _n, _s = run_ins_cases([case], tag="replay")
        fails = [f for _c, fs in res for f in fs]
        for f in fails:
            print("REPLAY still fails:", json.dumps(core.jsonable(f))[:600])
        if not fails:
            print("REPLAY: no longer fails")
        return 1 if fails else 0
    if case.get("multitable"):
        fails, _a = multitable_fails(case)
        for f in fails:
            print("REPLAY still fails:", json.dumps(core.jsonable(f))[:600])
        if not fails:
            print("REPLAY: no longer fails")
        return 1 if fails else 0
    if case.get("smoothing_stream"):
        fails, _n = late_read_fails(case)
        for f in fails:
            print("REPLAY still fails:", json.dumps(core.jsonable(f))[:600])
        if not fails:
            print("REPLAY: no longer fails")
        return 1 if fails else 0
    finish_case(case)
    if case.get("number_types"):
        fails, _n = number_type_fails(case)
        for f in fails:
            print("REPLAY still fails:", json.dumps(core.jsonable(f))[:600])
        if not fails:
            print("REPLAY: no longer fails")
        return 1 if fails else 0
    if case.get("late_reads"):
        fails, _n = late_read_fails(case)
        for f in fails:
            print("REPLAY still fails:", json.dumps(core.jsonable(f))[:600])
        if not fails:
            print("REPLAY: no longer fails")
        return 1 if fails else 0
    io, terms = build(case, case["perm"] is None)
    results, _ = core.run_coq_cases(PID, sh.IMPORTS, [t for (_k, t) in terms], tag="replay")
    fails = compare(case, io, terms, results)
    for f in fails:
        print("REPLAY still fails:", json.dumps(core.jsonable(f))[:600])
    if not fails:
        print("REPLAY: no longer fails")
    return 1 if fails else 0
