# -*- coding: utf-8 -*-
"""C10 - Transposing the response transposes the result.

Obligations: coq/Props/C10.v (Model/Transpose.v over the existing models CubeCounts, Subtotals,
Proportions, Variance, Share, Scale, Zscore, Population; proofs in Proofs/Transpose*.v).

(a) Relational oracle on the implementation alone (the core of this check).  A respondent-level
    survey is tabulated into the response A x B; the response B x A is obtained from it by
    exchanging the dimensions and transposing every data array (an MR dimension keeps its selection
    axis right after it; numeric measures and valid counts are transposed as well) and is
    cross-checked against the independent tabulation of the survey in the order B, A.  Insertions
    (view and transform, incl. differences), hides, prunes, explicit orders and the sort-by-value
    kinds that exist for both directions are mirrored onto the exchanged dimensions (a sort measure
    `row_*` becomes `col_*`).  EVERY public member of `_Slice` is enumerated by introspection and
    paired by name (`row_*` <-> `column_*`, `rows_*` <-> `columns_*`, `*_row_idxs` <->
    `*_column_idxs`; a member without a direction word is its own twin); 2-D values are compared
    with the transpose of the twin, 0-D / 1-D values, label / index lists with the twin itself.
    Members without a twin are listed in OUTSIDE with the reason and recorded in the evidence.
(b) Correspondence leg for Model/Transpose.v: the model's extractors for the exchanged class pair
    are run in Coq on the TRANSPOSED TENSOR of the A x B payload (`slice_counts_T`) and compared
    with the implementation's counts / bases / margins on the B x A response (small sample).

The models of the measures themselves are tied to the code by the checks that own them
(C01 C02 C03 C11 C12 C14 C15 C17); a change that moves a row measure and its column twin together
is theirs to report, not C10's.

Array pairings (added after the seeded change C10-6, which made `_BaseCubeCounts.factory` hand the
("ARR", "ARR") pairing to `_ArrXCatCubeCounts`: no generated slice had two non-MR array dimensions,
and the only array slices were those of ONE categorical array, ARR x CAT / CAT x ARR).  A second
stream of cases (`arr-stream`, its own generator seeded with seed+10 so that the first stream is
unchanged) crosses a BARE SUBVARIABLES dimension - kind `sv`: the items of an array variable without
a categories dimension of the same variable, which the library types CA_SUBVAR (items by fused
variables / a scorecard) - with another one, with an MR, or with a CAT / CAT_DATE variable, in both
orders: the class pairs ARR x ARR, ARR x MR, MR x ARR, ARR x CAT, CAT x ARR of
matrix/cubemeasure.py.  A cell of an `sv` dimension counts the respondents for whom the item
applies (the survey holds it as a multiple-response variable; the response keeps the "selected"
layer only and drops the selection dimension); items may be missing.  Everything else is as in the
first stream: weights, numeric measures, mirrored hides / prunes / explicit orders / sorts,
population, min-base masks, the independent tabulation in the order B, A, every paired public
member compared with its twin (an exception on one side only is a difference), and leg (b) on a
sample of them.

Sorts by value with several subtotals on both dimensions (added after the seeded change C10-8, which
made `_SortColumnsByInsertedRowHelper` take the sort keys of the COLUMN subtotals from the block
"inserted columns x base rows" instead of the intersections: the first stream seldom has an
`opposing_insertion` sort whose sorted dimension shows two subtotals AND whose opposing dimension has
the insertion asked for, so the order of the subtotals among themselves was not exercised).  A third
stream (`sort-stream`, own generator seeded with seed+20, the other streams are unchanged): CAT /
CAT_DATE x CAT / CAT_DATE (never two CAT_DATEs) with 3-5 valid categories, 12-60 respondents, 2-3
subtotals (20% differences) with the ids 1..n on BOTH dimensions (as view insertions or as transform
insertions), and ONE dimension - the rows or the columns of A x B, hence the columns or the rows of
B x A - sorted by `opposing_insertion` (an insertion id that exists), `opposing_element` or `label`,
any measure, either direction, sometimes with fixed elements, hides and prune.  The oracle is the one
of leg (a): "transforms mirrored on the exchanged dimensions" - the rows of A x B sorted by an
inserted column and the columns of B x A sorted by the same inserted row must come out in the same
order, base vectors and subtotals alike, so every paired member agrees.  (A marginal sort exists for
rows only and stays outside the relation.)
"""
import copy
import inspect
import json
import random
from fractions import Fraction

import numpy as np

from harness import core, gen, impl
from harness.props import cube_util as cu

PID = "C10"
IMPORTS = """From Coq Require Import QArith ZArith List Bool.
From CC Require Import Base.XQ Base.Render Base.ListX Spec.Survey Model.CubeCounts Model.CubeCountsRender Model.Transpose.
Import ListNotations."""

# ------------------------------------------------------------------------------------
# pairing of the public members of _Slice
# ------------------------------------------------------------------------------------

SWAP = {"row": "column", "rows": "columns", "column": "row", "columns": "rows"}

# members with no counterpart in the other direction (outside the relation by definition)
OUTSIDE = {
    "column_index": "column-direction only (baseline = univariate rows distribution); no row_index",
    "smoothed_column_index": "smoothing runs along the columns only",
    "smoothed_column_percentages": "smoothing runs along the columns only",
    "smoothed_column_proportions": "smoothing runs along the columns only",
    "smoothed_columns_scale_mean": "smoothing runs along the columns only",
    "smoothed_means": "smoothing runs along the columns only",
    "columns_scale_mean_pairwise_indices": "pairwise column tests: column-only",
    "columns_scale_mean_pairwise_indices_alt": "pairwise column tests: column-only",
    "columns_squared_base": "pairwise column tests: column-only (None without squared weights)",
    "pairwise_indices": "pairwise column tests: column-only",
    "pairwise_indices_alt": "pairwise column tests: column-only",
    "pairwise_means_indices": "pairwise column tests: column-only",
    "pairwise_means_indices_alt": "pairwise column tests: column-only",
    "pairwise_significance_means_p_vals": "pairwise column tests: column-only",
    "pairwise_significance_means_t_stats": "pairwise column tests: column-only",
    "pairwise_significance_p_vals": "pairwise column tests: column-only",
    "pairwise_significance_t_stats": "pairwise column tests: column-only",
    "pairwise_significance_tests": "pairwise column tests: column-only",
    "summary_pairwise_indices": "pairwise column tests: column-only",
    "rows_dimension_alias": "no columns_dimension_alias",
    "rows_dimension_fills": "no columns_dimension_fills",
    "description": "defined as the rows dimension's description",
    "name": "defined as the rows dimension's name",
    "variable_name": "defined from the LAST dimension's name",
    "payload_order": "rows only",
    "tab_alias": "defined from the FIRST dimension of the cube (CA-subvariable tabs)",
    "tab_label": "defined from the FIRST dimension of the cube (CA-subvariable tabs)",
    "has_scale_means": "defined from columns_scale_mean only",
    "factory": "constructor",
}
# members without a direction word whose value lists the two dimensions in order
REVERSED = ("dimension_types", "shape")
ORDER_METHODS = ("row_order", "column_order")


def twin_name(name):
    toks = name.split("_")
    if not any(t in SWAP for t in toks):
        return None
    return "_".join(SWAP.get(t, t) for t in toks)


def classify_members():
    """-> (pairs [(name, twin)], self_twins [name], outside {name: reason}, unclassified [name])"""
    from cr.cube.cubepart import _Slice

    names = sorted(n for n in dir(_Slice) if not n.startswith("_"))
    pairs, selfs, outside = [], [], {}
    for n in names:
        if n in OUTSIDE:
            outside[n] = OUTSIDE[n]
            continue
        t = twin_name(n)
        if t is None:
            selfs.append(n)
        elif t in names and t not in OUTSIDE:
            if n < t:
                pairs.append((n, t))
        else:
            outside[n] = "no member named %s" % t
    return pairs, selfs, outside


# ------------------------------------------------------------------------------------
# cases
# ------------------------------------------------------------------------------------

KIND_PAIRS = [(a, b) for a in ("cat", "cat_date", "mr") for b in ("cat", "cat_date", "mr")]
ENUMS = ("datetime", "text", "binned")
# array pairings: `sv` = a bare subvariables dimension (CA_SUBVAR without its categories dimension)
ARR_PAIRS = ([("sv", "sv")] * 6 + [("sv", "mr"), ("mr", "sv")] * 2 +
             [("sv", "cat"), ("cat", "sv"), ("sv", "cat_date"), ("cat_date", "sv")])
SORT_MEASURES = ["col_percent", "row_percent", "table_percent", "count_weighted", "count_unweighted",
                 "col_base_weighted", "row_base_weighted", "col_base_unweighted",
                 "row_base_unweighted", "table_base_weighted", "table_base_unweighted",
                 "col_std_err", "row_std_err", "table_std_err", "col_std_dev", "row_std_dev",
                 "table_std_dev", "col_percent_moe", "row_percent_moe", "table_percent_moe",
                 "z_score", "p_value", "population", "population_moe"]
SORT_MEASURES_NUM = ["sum", "mean", "stddev", "col_share_sum", "row_share_sum", "total_share_sum"]


def mirror_measure(m):
    if isinstance(m, str):
        if m.startswith("col_"):
            return "row_" + m[4:]
        if m.startswith("row_"):
            return "col_" + m[4:]
    return m


def mirror_dim_transform(d):
    d = copy.deepcopy(d)
    o = d.get("order")
    if isinstance(o, dict) and "measure" in o:
        o["measure"] = mirror_measure(o["measure"])
    return d


def mirror_transforms(t):
    if not t:
        return t
    out = {}
    for k, v in t.items():
        if k == "rows_dimension":
            out["columns_dimension"] = mirror_dim_transform(v)
        elif k == "columns_dimension":
            out["rows_dimension"] = mirror_dim_transform(v)
        else:
            out[k] = copy.deepcopy(v)
    return out


def make_var(rng, kind, alias):
    if kind == "cat":
        return gen.make_cat(rng, alias, n_valid=rng.randint(1, 4), numeric=rng.choice(
            [None, "all", "all", "partial", "partial"]) or "none")
    if kind == "cat_date":
        return gen.make_cat(rng, alias, date=True, n_valid=rng.randint(1, 4),
                            numeric=rng.choice(["none", "all", "partial"]))
    if kind == "mr":
        return gen.make_mr(rng, alias, n_items=rng.randint(1, 3))
    if kind == "sv":
        # held by the survey as a multiple-response variable ("the item applies" = selected); the
        # response keeps the selected layer only (drop_selection)
        v = gen.make_mr(rng, alias, n_items=rng.randint(1, 4))
        if len(v.items) >= 2 and rng.random() < 0.25:
            rng.choice(v.items)["missing"] = True
        return v
    if kind == "ca":
        return gen.make_ca(rng, alias, n_items=rng.randint(1, 3), n_valid=rng.randint(1, 4))
    return gen.make_enum(rng, alias, kind, n_valid=rng.randint(1, 3))


def dim_ids(v, which=None):
    """element ids of the displayed dimension a variable contributes (CA: which = items|cats)"""
    if v.kind in ("cat", "cat_date") or (v.kind == "ca" and which == "cats"):
        return [c["id"] for c in v.cats if not c["missing"]]
    if v.kind in ("mr", "ca"):
        return [it["id"] for it in v.items if not it.get("missing")]
    return [e["id"] for e in v.elements if not e["missing"]]


def gen_filter_stats(rng):
    r = rng.random()
    if r < 0.35:
        return {}
    if r < 0.6:
        return {"filtered": {"unweighted_n": 5, "weighted_n": rng.randint(0, 40)},
                "unfiltered": {"unweighted_n": 9, "weighted_n": rng.choice([0, 40, 50, 64])}}
    w = {"selected": rng.randint(0, 30), "other": rng.randint(0, 30), "missing": 1}
    return {"filter_stats": {"filtered_complete": {"weighted": w, "unweighted": dict(w)},
                             "is_cat_date": rng.random() < 0.3}}


def random_dim_transform(rng, v, which, opp_v, opp_which, numeric, has_opp_insertions, mutual_ok):
    """transform dict of one dimension; only kinds that exist for rows AND columns"""
    d = {}
    ids = dim_ids(v, which)
    categorical = v.kind in ("cat", "cat_date") or (v.kind == "ca" and which == "cats")
    if categorical and rng.random() < 0.3:
        d["insertions"] = gen.random_insertions(rng, v, differences=True)
    if rng.random() < 0.3:
        els = {}
        for i in ids:
            if rng.random() < 0.3:
                els[str(i) if rng.random() < 0.6 else i] = {"hide": True}
        if els:
            d["elements"] = els
    if rng.random() < 0.3:
        d["prune"] = True
    r = rng.random()
    if r < 0.2 and ids:
        o = list(ids)
        rng.shuffle(o)
        d["order"] = {"type": "explicit", "element_ids": o[: rng.randint(0, len(o))]}
    elif r < 0.45 and mutual_ok:
        opp_ids = dim_ids(opp_v, opp_which)
        opp_array = opp_v.kind == "mr" or (opp_v.kind == "ca" and opp_which == "items")
        kinds = ["label", "opposing_element", "opposing_element"]
        if not opp_array and has_opp_insertions:
            kinds.append("opposing_insertion")
        kind = rng.choice(kinds)
        o = {"type": kind, "direction": rng.choice(["ascending", "descending"])}
        if kind != "label":
            o["measure"] = rng.choice(SORT_MEASURES + (SORT_MEASURES_NUM if numeric else []))
        if kind == "opposing_element":
            if not opp_ids:
                return d
            o["element_id"] = rng.choice(opp_ids)
        if kind == "opposing_insertion":
            o["insertion_id"] = rng.choice([1, 2, 3])
        if rng.random() < 0.3 and ids:
            o["fixed"] = {rng.choice(["top", "bottom"]): [rng.choice(ids)]}
        d["order"] = o
    return d


def gen_case(rng, k, arr=False):
    r = rng.random()
    if arr:
        kinds = rng.choice(ARR_PAIRS)
    elif r < 0.12:
        kinds = ("ca", None)
    else:
        kinds = rng.choice(KIND_PAIRS)
        if rng.random() < 0.1:
            # an enumerated one-axis dimension in place of a plain categorical one
            kinds = tuple(rng.choice(ENUMS) if (kd == "cat" and rng.random() < 0.5) else kd
                          for kd in kinds)
    if kinds[1] is None:
        vs = [make_var(rng, "ca", "va")]
        roles = [(vs[0], "items"), (vs[0], "cats")]
    else:
        vs = [make_var(rng, kinds[0], "va"), make_var(rng, kinds[1], "vb")]
        roles = [(vs[0], None), (vs[1], None)]
    for v in vs:
        if v.kind in ("cat", "cat_date", "ca") and rng.random() < 0.55:
            ins = gen.random_insertions(rng, v, differences=True)
            # ids make `opposing_insertion` resolvable
            for n, d in enumerate(ins):
                if rng.random() < 0.7:
                    d["id"] = n + 1
            v.view_insertions = ins
    numeric = rng.random() < 0.4
    n_resp = rng.choice([0, 1, 4, 10, 20, 30, 40]) if rng.random() < 0.9 else rng.randint(0, 6)
    sv = gen.Survey(vs, n_resp, rng, numvars=["x"] if numeric else [])
    aliases = [v.alias for v in vs]
    measures = ["count"]
    valid_counts = False
    unavailable = []
    if numeric:
        measures += rng.sample(["mean", "sum", "stddev", "median"], rng.randint(1, 4))
        if "sum" not in measures and rng.random() < 0.6:
            measures.append("sum")
        valid_counts = rng.choice([False, False, True, "unweighted_only"])
        shape, _ = gen.tabulate(sv, aliases, weight=False)
        size = int(np.prod(shape)) if shape else 1
        unavailable = sorted(rng.sample(range(size), min(size, rng.choice([0, 0, 1, 2]))))
    transforms = {}
    if rng.random() < 0.6:
        # at most one of the two dimensions is sorted by a value of the other (a mutual sort has
        # no defined order in either direction)
        sorter = rng.choice([0, 1])
        for n, key in enumerate(("rows_dimension", "columns_dimension")):
            v, which = roles[n]
            ov, owhich = roles[1 - n]
            opp_ins = bool(getattr(ov, "view_insertions", None)) and (
                ov.kind in ("cat", "cat_date") or owhich == "cats")
            d = random_dim_transform(rng, v, which, ov, owhich, numeric, opp_ins, sorter == n)
            if d:
                transforms[key] = d
    case = {"k": k, "kinds": list(kinds), "survey": cu.survey_to_json(sv), "aliases": aliases,
            "measures": measures, "numvar": "x" if numeric else None, "valid_counts": valid_counts,
            "unavailable": unavailable, "transforms": transforms or None,
            "population": rng.choice([None, 1000, 1000, 7500.5]),
            "filter_stats": gen_filter_stats(rng),
            "mask_size": rng.choice([0, 0, 2, 5, 10, 30])}
    return finish_case(case)


SORT_PAIRS = [("cat", "cat")] * 4 + [("cat", "cat_date"), ("cat_date", "cat")]


def sort_stream_insertions(rng, v, n):
    """n subtotals (some of them differences) with the ids 1..n on the categorical variable v"""
    valid = gen.valid_cat_ids(v)
    out = []
    for k in range(n):
        pos = rng.sample(valid, rng.randint(1, min(3, len(valid))))
        neg = []
        if rng.random() < 0.2:
            rest = [p for p in valid if p not in pos] or valid
            neg = rng.sample(rest, rng.randint(1, min(2, len(rest))))
        r = rng.random()
        anchor = "top" if r < 0.25 else "bottom" if r < 0.5 else rng.choice(valid)
        d = {"function": "subtotal", "name": "%s_ins%d" % (v.alias, k), "anchor": anchor, "id": k + 1}
        if neg:
            d["kwargs"] = {"positive": pos, "negative": neg}
        elif rng.random() < 0.5:
            d["args"] = pos
        else:
            d["kwargs"] = {"positive": pos}
        out.append(d)
    return out


def gen_sort_case(rng, k):
    """sort-stream: CAT / CAT_DATE x CAT / CAT_DATE (never two CAT_DATEs) with 2-3 subtotals with ids
    on BOTH dimensions and ONE dimension - rows or columns of A x B, hence columns or rows of B x A -
    sorted by a value of the other: by an opposing insertion, an opposing element or the labels."""
    kinds = rng.choice(SORT_PAIRS)
    vs = [make_var_wide(rng, kinds[0], "va"), make_var_wide(rng, kinds[1], "vb")]
    n_ins = [rng.choice([2, 2, 3]), rng.choice([2, 2, 3])]
    ins = [sort_stream_insertions(rng, v, n) for v, n in zip(vs, n_ins)]
    as_transform = [rng.random() < 0.5, rng.random() < 0.5]
    for v, i, tr in zip(vs, ins, as_transform):
        if not tr:
            v.view_insertions = i
    numeric = rng.random() < 0.3
    n_resp = rng.choice([12, 20, 30, 45, 60])
    sv = gen.Survey(vs, n_resp, rng, numvars=["x"] if numeric else [])
    aliases = [v.alias for v in vs]
    measures = ["count"]
    if numeric:
        measures += rng.sample(["mean", "sum", "stddev"], rng.randint(1, 3))
        if "sum" not in measures:
            measures.append("sum")
    transforms = {}
    sorter = rng.choice([0, 1])
    for n, key in enumerate(("rows_dimension", "columns_dimension")):
        d = {}
        if as_transform[n]:
            d["insertions"] = ins[n]
        ids = dim_ids(vs[n])
        if rng.random() < 0.15:
            d["elements"] = {str(rng.choice(ids)): {"hide": True}}
        if rng.random() < 0.15:
            d["prune"] = True
        if n == sorter:
            kind = rng.choice(["opposing_insertion"] * 5 + ["opposing_element"] * 3 + ["label"])
            o = {"type": kind, "direction": rng.choice(["ascending", "descending"])}
            if kind != "label":
                o["measure"] = rng.choice(SORT_MEASURES + (SORT_MEASURES_NUM if numeric else []))
            if kind == "opposing_element":
                o["element_id"] = rng.choice(dim_ids(vs[1 - n]))
            if kind == "opposing_insertion":
                o["insertion_id"] = rng.randint(1, n_ins[1 - n])
            if rng.random() < 0.2:
                o["fixed"] = {rng.choice(["top", "bottom"]): [rng.choice(ids)]}
            d["order"] = o
        if d:
            transforms[key] = d
    case = {"k": k, "stream": "sort", "kinds": list(kinds), "survey": cu.survey_to_json(sv),
            "aliases": aliases, "measures": measures, "numvar": "x" if numeric else None,
            "valid_counts": False, "unavailable": [], "transforms": transforms,
            "population": rng.choice([None, 1000, 7500.5]),
            "filter_stats": gen_filter_stats(rng) if rng.random() < 0.3 else {},
            "mask_size": rng.choice([0, 0, 0, 5])}
    return finish_case(case)


def make_var_wide(rng, kind, alias):
    """a categorical variable with 3-5 valid categories (room for 2-3 distinct subtotals)"""
    return gen.make_cat(rng, alias, date=(kind == "cat_date"), n_valid=rng.randint(3, 5),
                        numeric=rng.choice(["none", "all", "partial"]))


def swap_perm(sv, aliases):
    blocks = cu.axis_blocks(sv, aliases)
    assert len(blocks) == 2, blocks
    return blocks[1] + blocks[0]


def sv_aliases(case):
    return [a for a, kd in zip(case["aliases"], case["kinds"]) if kd == "sv"]


def drop_selection(sv, aliases, svs, kw):
    """the response over `aliases` (natural order) in which every variable of `svs` contributes a
    bare subvariables dimension: the "selected" layer of its selection axis, selection dimension
    removed  -> (response, axes, shape)"""
    resp = cu.build_response(sv, aliases, None, **kw)
    axes = cu.response_axes(sv, aliases, None)
    shape, _ = gen.tabulate(sv, aliases, weight=False)
    drop = [n for n, a in enumerate(axes) if a["role"] == "mr_sel" and a["alias"] in svs]
    index = tuple(gen.SEL if n in drop else slice(None) for n in range(len(shape)))

    def layer(data):
        arr = np.empty(len(data), dtype=object)
        for k, x in enumerate(data):
            arr[k] = x
        return list(arr.reshape(shape)[index].flatten())

    res = resp["result"]
    res["counts"] = layer(res["counts"])
    for m in res["measures"].values():
        m["data"] = layer(m["data"])
    res["dimensions"] = [d for n, d in enumerate(res["dimensions"]) if n not in drop]
    out_axes = []
    for n, a in enumerate(axes):
        if n in drop:
            continue
        a = dict(a)
        if a["alias"] in svs:
            a["role"] = "ca_items"
        out_axes.append(a)
    return resp, out_axes, tuple(s for n, s in enumerate(shape) if n not in drop)


def finish_arr_case(case):
    """a case of the arr-stream: at least one `sv` dimension"""
    sv = cu.survey_from_json(case["survey"])
    case["_sv"] = sv
    svs = sv_aliases(case)
    kw = dict(measures=tuple(case["measures"]), numvar=case["numvar"],
              valid_counts=case["valid_counts"], unavailable=set(case["unavailable"]))
    ab, axes, shape = drop_selection(sv, case["aliases"], svs, kw)
    n0 = len([a for a in axes if a["alias"] == case["aliases"][0]])
    perm = list(range(n0, len(axes))) + list(range(n0))
    ba = copy.deepcopy(ab)
    res = ba["result"]
    res["dimensions"] = [res["dimensions"][p] for p in perm]
    res["counts"] = cu.permute_flat(res["counts"], shape, perm)
    for m in res["measures"].values():
        m["data"] = cu.permute_flat(m["data"], shape, perm)
    for r in (ab, ba):
        r["result"].update(copy.deepcopy(case["filter_stats"] or {}))
    case["_ab"], case["_ba"], case["_perm"] = ab, ba, perm
    case["_axes"] = axes
    case["_tab_mismatch"] = None
    if not case["unavailable"]:
        ind, _, _ = drop_selection(sv, case["aliases"][::-1], svs, dict(kw, unavailable=set()))
        if ind["result"]["counts"] != ba["result"]["counts"]:
            case["_tab_mismatch"] = "counts"
        for m, md in ind["result"]["measures"].items():
            if md["data"] != ba["result"]["measures"][m]["data"]:
                case["_tab_mismatch"] = m
        if ([d["references"]["alias"] for d in ind["result"]["dimensions"]] !=
                [d["references"]["alias"] for d in ba["result"]["dimensions"]]):
            case["_tab_mismatch"] = "dimensions"
    case["_t_ab"] = case["transforms"]
    case["_t_ba"] = mirror_transforms(case["transforms"])
    return case


def finish_case(case):
    if "sv" in case["kinds"]:
        return finish_arr_case(case)
    sv = cu.survey_from_json(case["survey"])
    case["_sv"] = sv
    kw = dict(measures=tuple(case["measures"]), numvar=case["numvar"],
              valid_counts=case["valid_counts"], unavailable=set(case["unavailable"]))
    ab = cu.build_response(sv, case["aliases"], None, **kw)
    perm = swap_perm(sv, case["aliases"])
    ba = cu.build_response(sv, case["aliases"], perm, **kw)
    for r in (ab, ba):
        r["result"].update(copy.deepcopy(case["filter_stats"] or {}))
    case["_ab"], case["_ba"], case["_perm"] = ab, ba, perm
    case["_axes"] = cu.response_axes(sv, case["aliases"], None)
    case["_tab_mismatch"] = None
    if len(case["aliases"]) == 2:
        # the permuted payload must be what the survey tabulates to in the order B, A
        ind = cu.build_response(sv, case["aliases"][::-1], None, **dict(kw, unavailable=set()))
        if not case["unavailable"]:
            for key in ["counts"]:
                if ind["result"][key] != ba["result"][key]:
                    case["_tab_mismatch"] = key
            for m, md in ind["result"]["measures"].items():
                if md["data"] != ba["result"]["measures"][m]["data"]:
                    case["_tab_mismatch"] = m
    case["_t_ab"] = case["transforms"]
    case["_t_ba"] = mirror_transforms(case["transforms"])
    return case


def replayable(case):
    return {k: v for k, v in case.items() if not k.startswith("_")}


# ------------------------------------------------------------------------------------
# reading the implementation
# ------------------------------------------------------------------------------------


def read_member(part, name):
    from cr.cube.enums import ORDER_FORMAT

    if name in ORDER_METHODS:
        out = {}
        for fmt in (ORDER_FORMAT.SIGNED_INDEXES, ORDER_FORMAT.BOGUS_IDS):
            out[fmt.name] = impl.get(part, name, fmt)
        return ("multi", out)
    if name == "min_base_size_mask":
        r = impl.get(part, name)
        if r[0] != "ok":
            return r
        m = r[1]
        return ("multi", {"row_mask": impl.guarded(lambda: m.row_mask),
                          "column_mask": impl.guarded(lambda: m.column_mask),
                          "table_mask": impl.guarded(lambda: m.table_mask)})
    v = inspect.getattr_static(type(part), name, None)
    if inspect.isfunction(v) or isinstance(v, (classmethod, staticmethod)):
        return ("skip",)      # methods taking arguments (pairwise ...): listed in OUTSIDE
    return impl.get(part, name)


def canon(x):
    """public value -> comparable python structure"""
    import enum

    if isinstance(x, np.ndarray):
        if x.dtype.kind in "fiub":
            return ("num", x.astype(float))
        return ("list", [canon(v) for v in x.tolist()])
    if isinstance(x, (np.floating, float)):
        return ("num", np.asarray(float(x)))
    if isinstance(x, (np.integer, int)) and not isinstance(x, bool):
        return ("num", np.asarray(float(x)))
    if isinstance(x, enum.Enum):
        return ("atom", x.name)
    if isinstance(x, (tuple, list)):
        return ("list", [canon(v) for v in x])
    if x is None or isinstance(x, (str, bool, np.bool_)):
        return ("atom", None if x is None else (bool(x) if isinstance(x, (bool, np.bool_)) else x))
    return ("atom", repr(x))


def num_close(a, b):
    """element-wise: NaN = NaN, infinities equal with sign, finite within 1e-9 relative"""
    if a.shape != b.shape:
        return False
    an, bn = np.isnan(a), np.isnan(b)
    if (an != bn).any():
        return False
    ai, bi = np.isinf(a), np.isinf(b)
    if (ai != bi).any() or (a[ai] != b[bi]).any():
        return False
    f = ~(an | ai)
    x, y = a[f], b[f]
    return bool(np.all(np.abs(x - y) <= 1e-9 * np.maximum(1.0, np.abs(y))))


def same(a, b, transposed=True, reverse=False):
    """a, b canonical values of twin members.  2-D (and stacked 3-D) numeric values are compared
    with the transpose of the twin."""
    if a[0] != b[0]:
        return False
    if a[0] == "num":
        y = b[1]
        if transposed and y.ndim == 2:
            y = y.T
        elif transposed and y.ndim == 3:
            y = y.transpose(0, 2, 1)
        return num_close(a[1], y)
    if a[0] == "list":
        y = b[1][::-1] if reverse else b[1]
        return len(a[1]) == len(y) and all(same(p, q, transposed) for p, q in zip(a[1], y))
    return a[1] == b[1]


def show(v):
    if v[0] == "num":
        return core.jsonable(v[1].tolist())
    if v[0] == "list":
        return [show(x) for x in v[1]]
    return core.jsonable(v[1])


def compare_results(ra, rb, reverse=False):
    """guarded results of a member on A x B and of its twin on B x A -> None | detail"""
    if ra[0] == "skip" or rb[0] == "skip":
        return None
    if ra[0] == "multi" and rb[0] == "multi":
        for key in ra[1]:
            tk = twin_name(key) if twin_name(key) in rb[1] else key
            d = compare_results(ra[1][key], rb[1][tk])
            if d is not None:
                return dict(d, part="%s/%s" % (key, tk))
        return None
    if ra[0] == "exc" or rb[0] == "exc":
        if ra[0] == rb[0] and ra[1] == rb[1]:
            return None
        return {"a": list(ra)[:3] if ra[0] == "exc" else "value", "b": list(rb)[:3] if rb[0] == "exc" else "value"}
    if ra[0] != rb[0]:
        return {"a": ra[0], "b": rb[0]}
    ca, cb = canon(ra[1]), canon(rb[1])
    if same(ca, cb, True, reverse):
        return None
    return {"a": show(ca), "b_twin": show(cb)}


def has_value_sort(t):
    for key in ("rows_dimension", "columns_dimension"):
        o = ((t or {}).get(key) or {}).get("order") or {}
        if o.get("type") in ("label", "opposing_element", "opposing_insertion"):
            return True
    return False


def run_relational(case, members):
    """-> (fails [(name, twin, detail)], n_compared, info)"""
    pairs, selfs, _ = members
    pa = impl.guarded(lambda: impl.partition(case["_ab"], case["_t_ab"], population=case["population"],
                                             mask_size=case["mask_size"]))
    pb = impl.guarded(lambda: impl.partition(case["_ba"], case["_t_ba"], population=case["population"],
                                             mask_size=case["mask_size"]))
    info = {}
    if pa[0] != "ok" or pb[0] != "ok":
        if pa[0] == pb[0] and pa[1] == pb[1]:
            return [], 0, {"both_raise": pa[1]}
        return [("partition", "partition", {"a": list(pa)[:3] if pa[0] != "ok" else "ok",
                                            "b": list(pb)[:3] if pb[0] != "ok" else "ok"})], 0, info
    A, B = pa[1], pb[1]
    if type(A).__name__ != "_Slice" or type(B).__name__ != "_Slice":
        return [("partition-type", "partition-type", {"a": type(A).__name__, "b": type(B).__name__})], 0, info
    fails, n = [], 0
    todo = [(x, y) for x, y in pairs] + [(y, x) for x, y in pairs] + [(s, s) for s in selfs]
    for name, twin in todo:
        ra = read_member(A, name)
        rb = read_member(B, twin)
        d = compare_results(ra, rb, reverse=(name in REVERSED))
        n += 1
        if d is not None:
            fails.append((name, twin, d))
    shp = impl.get(A, "shape")
    info["shape"] = impl.tolist(shp[1]) if shp[0] == "ok" else None
    nins = [impl.get(A, m) for m in ("inserted_row_idxs", "inserted_column_idxs")]
    info["n_inserted"] = [len(r[1]) if r[0] == "ok" else None for r in nins]
    dts = impl.get(A, "dimension_types")
    info["types"] = [getattr(t, "name", str(t)) for t in dts[1]] if dts[0] == "ok" else None
    if shp[0] != "ok":
        # neither order may be unreadable on one side only: that is a failure of the relation
        shb = impl.get(B, "shape")
        if shb[0] == "ok":
            fails.append(("shape", "shape", {"a": list(shp)[:3], "b": "value"}))
    return fails, n, info


# ------------------------------------------------------------------------------------
# (b) correspondence leg: Model/Transpose.v on the A x B payload vs implementation on B x A
# ------------------------------------------------------------------------------------

NAMES_B = ["counts", "unweighted_counts", "row_weighted_bases", "row_unweighted_bases",
           "column_weighted_bases", "column_unweighted_bases", "table_weighted_bases",
           "table_unweighted_bases", "rows_margin", "rows_base", "columns_margin", "columns_base",
           "table_margin", "table_base"]


def model_term(case):
    ds = cu.g_dims(case["_axes"])
    p = cu.g_payload(case["_ab"])
    return ("r_opt (r_slice_out (Fin 0)) (slice_counts_T %s (weighted_counts_payload %s)) ++ "
            "r_opt (r_slice_out (Fin 0)) (slice_counts_T %s (unweighted_counts_payload %s))"
            % (ds, p, ds, p))


def dec_model(toks):
    d = core.Dec(toks)
    w = d.opt(lambda: cu.dec_slice_out(d))
    u = d.opt(lambda: cu.dec_slice_out(d))
    assert d.done()
    return w, u


def public_from_model(so, which):
    """the public margins with their 2-D fall-backs (cubepart.py), from a decoded slice_out"""
    if which == "rows":
        return so["rows_base"] if so["rows_base"] is not None else so["row_bases"]
    if which == "columns":
        return so["columns_base"] if so["columns_base"] is not None else so["column_bases"]
    if so["table_base"] is not None:
        return so["table_base"]
    if so["columns_table_base"] is not None:
        return so["columns_table_base"]
    if so["rows_table_base"] is not None:
        return so["rows_table_base"]
    return so["table_bases"]


def nested_shape(x):
    out = []
    while isinstance(x, (list, tuple)):
        out.append(len(x))
        x = x[0] if len(x) else None
    return out


def compare_model(case, toks):
    """model (transposed extractors on the A x B payload) vs implementation on B x A, no transforms
    and no view insertions' rows: base blocks are read through the signed orders"""
    w, u = dec_model(toks)
    if w is None or u is None:
        return [("model-none", {})]
    resp = copy.deepcopy(case["_ba"])
    for d in resp["result"]["dimensions"]:
        d["references"].pop("view", None)
    rb = impl.guarded(lambda: impl.partition(resp, None))
    if rb[0] != "ok":
        return [("partition", {"impl": list(rb)[:3]})]
    B = rb[1]
    fails = []
    exp = {"counts": w["counts"], "unweighted_counts": u["counts"],
           "row_weighted_bases": w["row_bases"], "row_unweighted_bases": u["row_bases"],
           "column_weighted_bases": w["column_bases"], "column_unweighted_bases": u["column_bases"],
           "table_weighted_bases": w["table_bases"], "table_unweighted_bases": u["table_bases"],
           "rows_margin": public_from_model(w, "rows"), "rows_base": public_from_model(u, "rows"),
           "columns_margin": public_from_model(w, "columns"),
           "columns_base": public_from_model(u, "columns"),
           "table_margin": public_from_model(w, "table"), "table_base": public_from_model(u, "table")}
    for name in NAMES_B:
        r = impl.get(B, name)
        if r[0] != "ok":
            fails.append((name, {"impl": list(r)[:3]}))
            continue
        try:
            mm = cu.mat_mismatch(impl.tolist(r[1]), exp[name], name)
        except (TypeError, ValueError, IndexError):
            # a value of another rank than the model's (e.g. a 1-D margin where the model has the
            # 2-D fall-back) is a mismatch, not a harness error
            mm = {"what": name, "impl_shape": nested_shape(impl.tolist(r[1])),
                  "expected_shape": nested_shape(exp[name])}
        if mm is not None:
            fails.append((name, mm))
    return fails


# ------------------------------------------------------------------------------------
# driver
# ------------------------------------------------------------------------------------


def kinds_key(case):
    return "x".join(str(kd) for kd in case["kinds"])


def ctx_for(case, name, twin, detail):
    t = case["transforms"] or {}
    sort_measures = [((t.get(key) or {}).get("order") or {}).get("measure")
                     for key in ("rows_dimension", "columns_dimension")]
    return {"measure": name, "twin": twin, "kinds": kinds_key(case),
            "both_cat_date": case["kinds"] == ["cat_date", "cat_date"],
            "population_dependent": bool(name.startswith("population") or any(
                m in ("population", "population_moe") for m in sort_measures)),
            "transformed": bool(t)}


def is_arr(case):
    return "sv" in case["kinds"]


def evaluate(cases, rep, members, n_model, tag="cases", n_model_arr=0):
    terms, mcases = [], []
    quota = {False: n_model, True: n_model_arr}
    n_cmp = 0
    for case in cases:
        rep.dist("kinds:" + kinds_key(case))
        if is_arr(case):
            rep.dist("arr-stream")
            rep.dist("arr-stream:class=" + cu.class_pair(case))
            if any(it.get("missing") for v in case["_sv"].vars if v.kind == "mr" for it in v.items):
                rep.dist("arr-stream:missing-item")
        rep.dist("weighted" if case["_sv"].weighted else "unweighted")
        t = case["transforms"] or {}
        for key in ("rows_dimension", "columns_dimension"):
            for f in ("insertions", "elements", "prune", "order"):
                if f in (t.get(key) or {}):
                    rep.dist("transform:%s" % (f if f != "order" else "order-" + str(t[key]["order"].get("type"))))
        for m in case["measures"]:
            rep.dist("measure:" + m)
        if case["population"] is not None:
            rep.dist("population")
        if case["filter_stats"]:
            rep.dist("filter_stats")
        if case["mask_size"]:
            rep.dist("min_base")
        if case["_tab_mismatch"]:
            rep.violation("harness-transpose-vs-tabulation", replayable(case),
                          {"array": case["_tab_mismatch"]}, {"what": "harness"}, failing_input=False)
        fails, n, info = run_relational(case, members)
        n_cmp += n
        shp = info.get("shape") or [0, 0]
        nontrivial = bool(n) and len(shp) == 2 and shp[0] >= 1 and shp[1] >= 1
        rep.count_case(replayable(case), nontrivial)
        if nontrivial:
            rep.sample({"kinds": case["kinds"], "shape": shp, "transforms": case["transforms"],
                        "measures": case["measures"]})
        if is_arr(case) and info.get("types"):
            # the pairing as the LIBRARY types it (both non-MR array = CA_SUBVARxCA_SUBVAR)
            rep.dist("arr-stream:types=" + "x".join(info["types"]) + ("" if nontrivial else "(trivial)"))
        if info.get("both_raise"):
            rep.dist("both-orders-raise:" + str(info["both_raise"]))
        if case.get("stream") == "sort":
            rep.dist("sort-stream")
            for key, opp in (("rows_dimension", 1), ("columns_dimension", 0)):
                o = (t.get(key) or {}).get("order")
                if not o:
                    continue
                rep.dist("sort-stream:%s-on-%s" % (o["type"], key.split("_")[0]))
                nin = info.get("n_inserted") or [None, None]
                if nontrivial and (nin[1 - opp] or 0) >= 2 and (nin[opp] or 0) >= 1:
                    # the sorted dimension shows >= 2 subtotals (ordered among themselves by the key
                    # vector) and the opposing one shows an insertion
                    rep.dist("sort-stream:%s-with->=2-sorted-subtotals" % o["type"])
        sorted_by_value = has_value_sort(case["transforms"])
        if fails and sorted_by_value and order_near_tie(case):
            rep.cov["skipped_near_threshold"] += 1
            fails = []
        for name, twin, detail in fails[:4]:
            rep.violation("transpose-relation", replayable(case),
                          {"member": name, "twin_on_transposed": twin, "diff": detail,
                           "failing_members": [f[0] for f in fails][:30]},
                          ctx_for(case, name, twin, detail))
        if quota[is_arr(case)] > 0 and nontrivial:
            quota[is_arr(case)] -= 1
            mcases.append(case)
            terms.append(model_term(case))
    coq_s = 0.0
    if terms:
        results, coq_s = core.run_coq_cases(PID, IMPORTS, terms, tag=tag)
        for case, toks in zip(mcases, results):
            for name, detail in compare_model(case, toks):
                rep.violation("model-transposed-vs-impl", replayable(case),
                              {"member": name, "diff": detail},
                              {"measure": name, "kinds": kinds_key(case), "leg": "model"})
    return n_cmp, len(terms), coq_s


def order_near_tie(case):
    """True when some sort key vector of the A x B run has two keys closer than 1e-9 (relative):
    the display order is then a discrete decision at its threshold."""
    try:
        A = impl.partition(case["_ab"], impl.strip_display(case["_t_ab"]), population=case["population"])
        t = case["_t_ab"] or {}
        for key, axis in (("rows_dimension", 0), ("columns_dimension", 1)):
            o = (t.get(key) or {}).get("order") or {}
            if o.get("type") not in ("opposing_element", "opposing_insertion"):
                continue
            # any public numeric matrix may be the key: look for near-ties in all of them
            for name in ("counts", "row_proportions", "column_proportions", "table_proportions",
                         "zscores", "pvals", "row_std_err", "column_std_err", "table_std_err"):
                r = impl.get(A, name)
                if r[0] != "ok":
                    continue
                m = np.asarray(r[1], dtype=float)
                vecs = m.T if axis == 0 else m
                for v in vecs:
                    v = np.sort(v[~np.isnan(v)])
                    d = np.diff(v)
                    if np.any((d > 0) & (d <= 1e-9 * np.maximum(1.0, np.abs(v[1:])))):
                        return True
    except Exception:
        return False
    return False


def run(tier, seed):
    rep = core.Report(PID, tier, seed)
    ob = core.obligations_gate(rep, PID)
    members = classify_members()
    n_cases = 800 if tier == "quick" else 6000
    n_model = 60 if tier == "quick" else 600
    rng = random.Random(seed)
    cases = [gen_case(rng, k) for k in range(n_cases)]
    # second stream, own generator (the first stream is what it was): array pairings
    n_arr = 240 if tier == "quick" else 2400
    n_model_arr = 30 if tier == "quick" else 300
    rng_arr = random.Random(seed + 10)
    cases += [gen_case(rng_arr, n_cases + k, arr=True) for k in range(n_arr)]
    # third stream, own generator: sorts by value with several subtotals on both dimensions
    n_sort = 200 if tier == "quick" else 2000
    rng_sort = random.Random(seed + 20)
    cases += [gen_sort_case(rng_sort, n_cases + n_arr + k) for k in range(n_sort)]
    n_cmp, n_terms, coq_s = evaluate(cases, rep, members, n_model, n_model_arr=n_model_arr)
    pairs, selfs, outside = members
    rep.cov["rule"] = (
        "random.Random(seed): respondent-level surveys over two variables of kinds CAT, CAT_DATE, MR "
        "(all nine pairings; 10% with DATETIME/TEXT/BINNED enumerations) or one CA variable "
        "(CA_SUBVAR x CA_CAT vs CA_CAT x CA_SUBVAR), 0-40 respondents, dyadic weights (60%) or "
        "unweighted, missing categories / item answers, numeric values on categories; 40% with numeric "
        "measures (sum, mean, stddev, median; valid counts; unavailable cells); view insertions incl. "
        "differences; 60% with mirrored transforms (insertions, hides, prune, explicit order, "
        "label / opposing_element / opposing_insertion sorts with the measure's direction mirrored); "
        "population, filter statistics, min-base masks.  arr-stream (random.Random(seed+10), 240 / 2400 "
        "cases): a bare subvariables dimension `sv` (CA_SUBVAR without a categories dimension: 1-4 items, "
        "25% with a missing item) crossed with sv (half of the stream: ARR x ARR), mr (ARR x MR, MR x ARR), "
        "cat / cat_date (ARR x CAT, CAT x ARR), otherwise generated and mirrored like the first stream.  "
        "sort-stream (random.Random(seed+20), 200 / 2000 cases): cat / cat_date x cat / cat_date (not both "
        "cat_date) with 3-5 valid categories, 12-60 respondents, 2-3 subtotals (20% differences) with ids on "
        "BOTH dimensions (view or transform insertions) and one dimension sorted by opposing_insertion (5/9), "
        "opposing_element (3/9) or label (1/9), any measure; 15% hides / prune.  "
        "The B x A response is the A x B response with "
        "its dimensions exchanged and every array transposed (checked against the independent "
        "tabulation in the order B, A).  non-trivial = both orders give a slice with >= 1 row and >= 1 "
        "column; distinct by content hash")
    rep.cov["paired_members"] = ["%s<->%s" % p for p in pairs]
    rep.cov["self_twin_members"] = selfs
    rep.cov["outside_the_relation"] = dict(outside, **{
        "NUM_ARRAY dimensions": "the library always makes a numeric array the rows dimension: only one order exists",
        "sort kinds": "marginal and derived-column (opposing_insertion on an array dimension) sorts exist for rows only: not generated",
        "col_index as sort measure": "no row twin: not generated"})
    rep.cov["member_comparisons"] = n_cmp
    rep.cov["model_terms_evaluated"] = n_terms
    rep.cov["coq_eval_seconds"] = round(coq_s, 2)
    rep.cov["depends_on_checks"] = ["C01", "C02", "C03", "C11", "C12", "C14", "C15", "C17"]
    rep.assumptions = [
        "the models of the individual measures are tied to the code by the checks that own them "
        "(C01 C02 C03 C11 C12 C14 C15 C17); C10 ties Model/Transpose.v (tensor transposition + exchanged "
        "extractors) on counts, bases and margins only",
        "a display order that differs under a sort-by-value transform whose keys contain a near-tie "
        "(1e-9) is skipped and counted",
    ]
    return rep.finish("proof", ob, trusted_base=core.TRUSTED_BASE_COMMON + [
        "Model/Transpose.v is hand-written; tied to the code by leg (b) of this run on a small sample; "
        "the relational oracle needs no model"])


def replay(path):
    d = json.load(open(path))
    case = finish_case(d["violation"]["case"])
    rep = core.Report(PID, "quick", d.get("seed", 0))
    evaluate([case], rep, classify_members(), 1, tag="replay", n_model_arr=1)
    for v in rep.violations:
        print("REPLAY still fails:", json.dumps(v["detail"])[:700])
    if not rep.violations and not rep.known:
        print("REPLAY: no longer fails")
    return 1 if (rep.violations or rep.known) else 0
