# -*- coding: utf-8 -*-
"""C17 - Population estimates scale the right proportion by population and filter share.

Obligations: coq/Props/C17.v (model: coq/Model/Population.v).

Correspondence.  (absolute) The filter-statistics part of the generated response is parsed into
the model's `fshape` (Absent / Null / Val per key) and `pop_fraction` is compared with
`population_fraction` (value, NaN or an escaping exception).  (local) The implementation's own
reported row / column / table proportions and standard errors (strand: table proportions and
their std-errs), the population and the model's fraction are fed to `pop_counts` / `pop_moe`
(`strand_pop_counts` / `strand_pop_moe`), with the categorical-date position known from the
generator and the difference positions from diff_row_idxs / diff_column_idxs; the result is
compared cell by cell with population_counts / population_counts_moe.

Property oracle (no model): the fraction the property text prescribes, computed in Python from
the JSON (null = not present); relational oracle: counts and MoE are linear in the population.

Dimension-type class (round 3, seeded change C17-6: the categorical-date test of the matrix
`_PopulationProportions` widened to `in (CAT_DATE, DATETIME)`, its std-err twin left alone).  The
property reserves the within-each-date projection for a CATEGORICAL-date dimension; every other
kind of dimension - in particular the other "dates", a DATETIME enum variable, and the text /
binned-numeric enums, MR, CA - divides the population by the table proportion.  `gen_type_case`
crosses every dimension kind with CAT / CAT_DATE / MR on rows and on columns (CAT x DATETIME,
DATETIME x CAT, DATETIME x CAT_DATE, MR x DATETIME, text / binned x CAT_DATE ...), 3-D cubes with an
enum or categorical-date table / rows / columns dimension (a slice other than the first too) and
enum strands; these go through the same model correspondence (which dimension is categorical-date
comes from the generator, never from the library's `dimension_type`).  On every case (old classes
too) a property-text leg `*.property-choice` is added: population_proportions / population_std_err
(strand: population_proportion_stderrs) must BE the reported proportion / std-err the text selects
(table; row- or column-wise for a categorical-date dimension; 1 / 0 on a categorical-date strand;
NaN at differences) and counts / MoE must be that selection x population x reported fraction
(x 1.959964), so proportion and std-err can not be selected by different tests.
"""
import copy
import json
import random
from fractions import Fraction

from harness import core, gen, impl
from harness.core import g_bool, g_list, g_mat, g_q, g_vec, g_xq

PID = "C17"
IMPORTS = """From Coq Require Import QArith ZArith List Bool.
From CC Require Import Base.XQ Base.Render Base.ListX Model.Population.
Import ListNotations."""

ABSENT = "__absent__"


# ------------------------------------------------------------------------------------
# filter statistics: random JSON, its model shape, the property's value
# ------------------------------------------------------------------------------------


def _num(rng):
    r = rng.random()
    if r < 0.2:
        return 0
    if r < 0.3:
        return 0.0
    if r < 0.7:
        return rng.randint(1, 60)
    return float(Fraction(rng.randint(1, 400), rng.choice([2, 4, 8])))


def _maybe(rng, value, p_absent, p_null):
    r = rng.random()
    if r < p_absent:
        return ABSENT
    if r < p_absent + p_null:
        return None
    return value


def _put(d, key, v):
    if v != ABSENT:
        d[key] = v


def gen_filter_stats(rng):
    """dict merged into response['result'] + a label of the intended shape"""
    style = rng.choice(["absent", "old", "old", "old", "new", "new", "new", "new+old", "new+old",
                        "cat_date", "null", "null", "messy", "messy"])
    out = {}
    if style == "absent":
        return out, style

    def old():
        for key in ("filtered", "unfiltered"):
            d = {"unweighted_n": rng.randint(0, 50)}
            _put(d, "weighted_n", _maybe(rng, _num(rng), 0.06 if style != "messy" else 0.25,
                                          0.06 if style != "messy" else 0.25))
            _put(out, key, _maybe(rng, d, 0.03 if style != "messy" else 0.2,
                                  0.0 if style not in ("messy", "null") else 0.25))

    def new(cat_date=None):
        w = {}
        p = 0.0 if style != "messy" else 0.2
        _put(w, "selected", _maybe(rng, _num(rng), p, p / 2))
        _put(w, "other", _maybe(rng, _num(rng), p, p / 2))
        if w and rng.random() < 0.7:
            w["missing"] = rng.randint(0, 9)
        if style == "messy" and rng.random() < 0.2:
            w = {}
        fc = {"unweighted": {"selected": rng.randint(0, 9), "other": rng.randint(0, 9), "missing": 0}}
        _put(fc, "weighted", _maybe(rng, w, p, p))
        fs = {"filtered": {"weighted": {"selected": 1, "other": 2, "missing": 0}}}
        pn = 0.0
        if style == "null":
            pn = 0.5
        elif style == "messy":
            pn = 0.15
        _put(fs, "filtered_complete", _maybe(rng, fc, p, pn))
        if cat_date is None:
            cat_date = rng.choice([ABSENT, False, False, True]) if style != "messy" else rng.choice(
                [ABSENT, False, True, None, 0, 1])
        _put(fs, "is_cat_date", cat_date)
        out["filter_stats"] = fs
        if style == "null" and rng.random() < 0.5:
            out["filter_stats"] = None

    if style == "old":
        old()
    elif style == "new":
        new()
    elif style == "new+old":
        new()
        old()
    elif style == "cat_date":
        new(True)
        if rng.random() < 0.5:
            old()
    elif style == "null":
        if rng.random() < 0.7:
            new()
            if rng.random() < 0.5:
                old()
        else:
            old()
    else:
        if rng.random() < 0.8:
            new()
        if rng.random() < 0.8:
            old()
    return out, style


def _field(d, key):
    """('absent',) | ('null',) | ('val', v)"""
    if not isinstance(d, dict) or key not in d:
        return ("absent",)
    if d[key] is None:
        return ("null",)
    return ("val", d[key])


def parse_shape(extra):
    """JSON -> nested tuples mirroring Model/Population.v::fshape.
    Returns None when the JSON is outside the modelled shapes."""
    def numfield(f):
        if f[0] != "val":
            return f
        if isinstance(f[1], bool) or not isinstance(f[1], (int, float)):
            raise ValueError("not a number")
        return ("val", Fraction(f[1]))

    def wn(f):
        if f[0] != "val":
            return f
        if not isinstance(f[1], dict):
            raise ValueError("not a dict")
        return ("val", numfield(_field(f[1], "weighted_n")))

    fs = _field(extra, "filter_stats")
    if fs[0] == "val":
        d = fs[1]
        fc = _field(d, "filtered_complete")
        if fc[0] == "val":
            w = _field(fc[1], "weighted")
            if w[0] == "val":
                w = ("val", (numfield(_field(w[1], "selected")), numfield(_field(w[1], "other"))))
            fc = ("val", w)
        fs = ("val", (fc, bool(d.get("is_cat_date"))))
    return (fs, wn(_field(extra, "filtered")), wn(_field(extra, "unfiltered")))


def g_field(f, g):
    return {"absent": "Absent", "null": "Null"}.get(f[0]) or "(Val %s)" % g(f[1])


def g_shape(shape):
    fs, fil, unf = shape

    def g_w(w):
        return "{| w_selected := %s; w_other := %s |}" % (g_field(w[0], g_q), g_field(w[1], g_q))

    def g_fs(v):
        fc, cd = v
        return "{| fs_complete := %s; fs_is_cat_date := %s |}" % (
            g_field(fc, lambda w: g_field(w, g_w)), g_bool(cd))

    def g_wn(v):
        return g_field(v, g_q)

    return "{| r_filter_stats := %s; r_filtered := %s; r_unfiltered := %s |}" % (
        g_field(fs, g_fs), g_field(fil, g_wn), g_field(unf, g_wn))


def spec_fraction(extra):
    """The property text, directly on the JSON.  Returns (value, flags): value is a Fraction,
    'nan' or None (shape the text does not cover); flags: has a null where a dict is expected."""
    def dict_or_none(d, key):
        v = d.get(key) if isinstance(d, dict) else None
        return v if isinstance(v, dict) else None

    null_dict = any(k in extra and extra[k] is None for k in ("filter_stats", "filtered", "unfiltered"))
    fs = dict_or_none(extra, "filter_stats")
    if fs is not None and "filtered_complete" in fs and fs["filtered_complete"] is None:
        null_dict = True
    fc = dict_or_none(fs, "filtered_complete")
    w = dict_or_none(fc, "weighted")
    flags = {"null_dict": null_dict}

    def ratio(n, d):
        return "nan" if d == 0 else Fraction(n) / Fraction(d)

    if w:
        if "selected" in w or "other" in w:
            if fs.get("is_cat_date"):
                return Fraction(1), flags
            s, o = w.get("selected"), w.get("other")
            if s is None or o is None:
                return None, flags           # half-given complete-case numbers: not covered
            return ratio(s, Fraction(s) + Fraction(o)), flags
    f = dict_or_none(extra, "filtered")
    u = dict_or_none(extra, "unfiltered")
    n = f.get("weighted_n") if f else None
    d = u.get("weighted_n") if u else None
    if n is None or d is None:
        return Fraction(1), flags
    return ratio(n, d), flags


# ------------------------------------------------------------------------------------
# cases
# ------------------------------------------------------------------------------------


def _dim(rng, alias, allow_mr=True):
    r = rng.random()
    if allow_mr and r < 0.12:
        return gen.make_mr(rng, alias)
    date = r < 0.5
    v = gen.make_cat(rng, alias, date=date, numeric=None)
    return _decorate(rng, v, alias)


def _decorate(rng, v, alias):
    """view subtotals (incl. differences) on a categorical variable"""
    if rng.random() < 0.5:
        v.view_insertions = gen.random_insertions(rng, v)
        if rng.random() < 0.3:
            ids = gen.valid_cat_ids(v)
            for k in range(rng.randint(1, 2)):
                v.view_insertions.append({"function": "subtotal", "name": "%s_diff%d" % (alias, k),
                                          "anchor": rng.choice(["top", "bottom", rng.choice(ids)]),
                                          "kwargs": {"positive": [rng.choice(ids)],
                                                     "negative": [rng.choice(ids)]}})
    return v


def gen_case(rng, k):
    strand = rng.random() < 0.3
    if strand:
        variables = [_dim(rng, "rowv")]
    else:
        variables = [_dim(rng, "rowv"), _dim(rng, "colv")]
    sv = gen.Survey(variables, rng.choice([0, 1, 3, 8, 15, 30]), rng)
    extra, style = gen_filter_stats(rng)
    resp = gen.cube_response(sv, [v.alias for v in variables], filter_stats=extra)
    pop = rng.choice([0, 1, 7, 1000, 1000, 12345.5, 250000, 3.25, -40, 10 ** 9])
    return {"k": k, "strand": strand, "response": resp, "population": pop, "style": style,
            "filter_json": extra, "cat_date": [v.kind == "cat_date" for v in variables],
            "kinds": [v.kind for v in variables], "factor": rng.choice([2, 3, 0.5, 10])}


# every kind of dimension against the categorical-date rule: only "cat_date" is a categorical date.
# (table,) rows, columns; one entry = one strand; "ca" contributes two dimensions
TYPE_LAYOUTS = [
    ("cat", "datetime"), ("datetime", "cat"), ("datetime", "cat_date"), ("cat_date", "datetime"),
    ("mr", "datetime"), ("datetime", "mr"), ("datetime", "datetime"), ("datetime", "text"),
    ("cat", "text"), ("text", "cat"), ("cat", "binned"), ("binned", "cat"),
    ("text", "cat_date"), ("cat_date", "binned"), ("binned", "mr"), ("mr", "text"),
    ("ca",), ("ca", "datetime"), ("datetime", "ca"),
    ("datetime", "cat", "cat"), ("datetime", "cat_date", "cat"), ("datetime", "cat", "cat_date"),
    ("cat", "datetime", "cat"), ("cat", "cat", "datetime"), ("cat_date", "datetime", "cat"),
    ("cat_date", "cat", "datetime"), ("cat", "datetime", "cat_date"), ("cat", "cat_date", "datetime"),
    ("cat", "mr", "datetime"), ("text", "cat", "binned"), ("cat_date", "cat", "cat"),
    ("datetime",), ("text",), ("binned",),
]
ENUM_KINDS = ("datetime", "text", "binned")


def _typed_var(rng, kind, alias):
    if kind in ENUM_KINDS:
        return gen.make_enum(rng, alias, kind, n_valid=rng.randint(1, 4))
    if kind == "mr":
        return gen.make_mr(rng, alias)
    if kind == "ca":
        return gen.make_ca(rng, alias)
    return _decorate(rng, gen.make_cat(rng, alias, date=kind == "cat_date", numeric=None), alias)


def _n_valid(v):
    if v.kind in ("cat", "cat_date"):
        return len(gen.valid_cat_ids(v))
    if v.kind in ("mr", "ca"):
        return len(v.items)
    return len([e for e in v.elements if not e["missing"]])


def gen_type_case(rng, k):
    """A slice / strand whose dimensions run over EVERY kind (the layouts in turn, then at random)."""
    layout = TYPE_LAYOUTS[k] if k < len(TYPE_LAYOUTS) else rng.choice(TYPE_LAYOUTS)
    variables = [_typed_var(rng, kind, "v%d" % i) for i, kind in enumerate(layout)]
    sv = gen.Survey(variables, rng.choice([1, 3, 8, 15, 15, 30]), rng)
    if rng.random() < 0.5:
        extra, style = gen_filter_stats(rng)
    else:
        # a plain filter share, so that the choice of proportion is not drowned in NaN fractions
        extra = rng.choice([{}, {"filtered": {"weighted_n": rng.randint(1, 9)},
                                 "unfiltered": {"weighted_n": rng.randint(9, 30)}}])
        style = "old" if extra else "absent"
    resp = gen.cube_response(sv, [v.alias for v in variables], filter_stats=extra)
    # the dimensions of the response ("ca" gives two), the last two are displayed
    dim_kinds = []
    for v in variables:
        dim_kinds.extend(["ca_subvar", "ca_cat"] if v.kind == "ca" else [v.kind])
    strand = len(dim_kinds) == 1
    shown = dim_kinds[-1:] if strand else dim_kinds[-2:]
    n_slices = _n_valid(variables[0]) if len(dim_kinds) == 3 else 1
    pop = rng.choice([1, 7, 1000, 1000, 12345.5, 250000, 3.25, -40, 10 ** 9, 0])
    return {"k": "type%s" % k, "strand": strand, "response": resp, "population": pop, "style": style,
            "filter_json": extra, "cat_date": [x == "cat_date" for x in shown], "kinds": dim_kinds,
            "factor": rng.choice([2, 3, 0.5, 10]), "slice": rng.randrange(max(n_slices, 1)),
            "type_layout": "_x_".join(layout)}


# ------------------------------------------------------------------------------------
# cube sets: the population / min-base arguments travel through CubeSet -> Cube ->
# (Cube.augment_response | Cube.inflate -> a NEW Cube) -> partitions
# ------------------------------------------------------------------------------------


def drop_zero_elements(resp):
    """what the backend sends for a single-column filter cube: the elements nobody answered
    under the filter are absent and the ids of the remaining ones are renumbered"""
    r = copy.deepcopy(resp)
    res = r["result"]
    els = res["dimensions"][0]["type"]["elements"]
    keep = [i for i, e in enumerate(els) if e["missing"] or res["counts"][i] != 0]
    new = []
    for n, i in enumerate(keep):
        e = copy.deepcopy(els[i])
        e["id"] = -1 if e["missing"] else n
        new.append(e)
    res["dimensions"][0]["type"]["elements"] = new
    res["counts"] = [res["counts"][i] for i in keep]
    for m in res["measures"].values():
        m["data"] = [m["data"][i] for i in keep]
    return r


def _sub_survey(rng, variables, resp, weighted, numvars=()):
    sv = gen.Survey(variables, 0, rng, weighted=weighted, numvars=numvars)
    sv.resp = list(resp)
    return sv


def _row_hide(rng, ids):
    if rng.random() < 0.3 and len(ids) >= 2:
        return {"rows_dimension": {"elements": {str(rng.choice(ids)): {"hide": True}}}}
    return {}


def gen_set(rng, k):
    """One CubeSet: list of member dicts (one per cube) + the constructor arguments.
      augment  tabbook over a text / datetime rows variable: the summary cube and 1-2 single-column
               filter cubes whose empty answers were dropped by the backend (fewer rows than the
               summary: Cube.augment_response rebuilds the Cube), or none dropped
      tabbook  a rows cube and rows x columns cubes (CAT / CAT_DATE / MR)
      numeric  numeric-measure set: a 0-D mean cube and 1-D cubes, all rebuilt by Cube.inflate"""
    mode = rng.choice(["augment", "augment", "numeric", "numeric", "tabbook"])
    pop = rng.choice([1, 7, 1000, 1000, 12345.5, 250000, 250000, 3.25, -40, 10 ** 9, 0])
    members, responses, transforms = [], [], []

    def add(resp, tr, strand, extra, style, cat_date, kinds, lone, augmented=False):
        responses.append(resp)
        transforms.append(tr)
        members.append({"strand": strand, "filter_json": extra, "style": style, "cat_date": cat_date,
                        "kinds": kinds, "lone": lone, "augmented": augmented})

    if mode == "augment":
        kind = rng.choice(["text", "text", "datetime"])
        t = gen.make_enum(rng, "rowv", kind, n_valid=rng.randint(3, 6))
        f = gen.make_cat(rng, "f", n_valid=rng.randint(1, 2), n_missing=0, numeric=None)
        sv = gen.Survey([t, f], rng.choice([6, 10, 15, 30]), rng)
        valid_t = [i for i, e in enumerate(t.elements) if not e["missing"]]
        ids = [t.elements[i]["id"] for i in valid_t]
        extra, style = gen_filter_stats(rng)
        add(gen.cube_response(sv, ["rowv"], filter_stats=extra), _row_hide(rng, ids), True, extra, style,
            [False], [kind], "self")
        for fi in range(len(f.cats)):
            sub = [copy.deepcopy(r) for r in sv.resp if r["ans"]["f"] == fi]
            if rng.random() < 0.8 and len(valid_t) >= 2:
                # the filter leaves some answers out
                allowed = rng.sample(valid_t, rng.randint(1, len(valid_t) - 1))
                for r in sub:
                    if r["ans"]["rowv"] in valid_t and r["ans"]["rowv"] not in allowed:
                        r["ans"]["rowv"] = rng.choice(allowed)
            svf = _sub_survey(rng, [t, f], sub, sv.weighted)
            extra, style = gen_filter_stats(rng)
            full = gen.cube_response(svf, ["rowv"], filter_stats=extra)
            full["result"]["is_single_col_cube"] = True
            filt = drop_zero_elements(full)
            add(filt, _row_hide(rng, ids), True, extra, style, [False], [kind + "-filter"], full,
                augmented=len(filt["result"]["counts"]) != len(responses[0]["result"]["counts"]))
    elif mode == "tabbook":
        rowv = _dim(rng, "rowv")
        cols = [_dim(rng, "col%d" % j) for j in range(rng.randint(1, 2))]
        sv = gen.Survey([rowv] + cols, rng.choice([3, 8, 15, 30]), rng)
        extra, style = gen_filter_stats(rng)
        add(gen.cube_response(sv, ["rowv"], filter_stats=extra), {}, True, extra, style,
            [rowv.kind == "cat_date"], [rowv.kind], "self")
        for c in cols:
            extra, style = gen_filter_stats(rng)
            add(gen.cube_response(sv, ["rowv", c.alias], filter_stats=extra), {}, False, extra, style,
                [rowv.kind == "cat_date", c.kind == "cat_date"], [rowv.kind, c.kind], "self")
    else:
        cols = [_dim(rng, "col%d" % j, allow_mr=False) for j in range(rng.randint(1, 2))]
        sv = gen.Survey(cols, rng.choice([3, 8, 15, 30]), rng, numvars=["x"])
        meas = rng.choice([("count", "mean"), ("count", "sum"), ("count", "mean", "stddev")])
        extra, style = gen_filter_stats(rng)
        add(gen.cube_response(sv, [], measures=meas, numvar="x", filter_stats=extra), {}, True, extra, style,
            [False], ["numeric-0D-inflated"], None)
        for c in cols:
            extra, style = gen_filter_stats(rng)
            add(gen.cube_response(sv, [c.alias], measures=meas, numvar="x", filter_stats=extra), {}, False,
                extra, style, [False, c.kind == "cat_date"], ["numeric-inflated", c.kind], None)
    min_base = rng.choice([0, 0, 5, 30])
    factor = rng.choice([2, 3, 0.5, 10])
    cases = []
    for j, m in enumerate(members):
        cases.append({"k": "set%s#%d" % (k, j), "strand": m["strand"], "response": responses[j],
                      "population": pop, "style": m["style"], "filter_json": m["filter_json"],
                      "cat_date": m["cat_date"], "kinds": m["kinds"], "factor": factor,
                      "set": {"mode": mode, "idx": j, "responses": responses, "transforms": transforms,
                              "min_base": min_base, "augmented": m["augmented"],
                              "lone": responses[j] if m["lone"] == "self" else m["lone"]}})
    return cases


def set_partition(case, population):
    st = case["set"]
    cs = impl.CubeSet(copy.deepcopy(st["responses"]), copy.deepcopy(st["transforms"]), population,
                      st["min_base"])
    return cs, cs.partition_sets[0][st["idx"]]


def impl_run(case):
    if "set" in case:
        st = case["set"]
        g = impl.guarded(lambda: (set_partition(case, case["population"]),
                                  set_partition(case, case["population"] * case["factor"])))
        if g[0] != "ok":
            return {"error": g}
        (cs, P), (_cs2, P2) = g[1]
    else:
        sl = case.get("slice", 0)
        g = impl.guarded(lambda: (
            impl.partition(case["response"], None, sl, population=case["population"]),
            impl.partition(case["response"], None, sl, population=case["population"] * case["factor"])))
        if g[0] != "ok":
            return {"error": g}
        P, P2 = g[1]
    if case["strand"]:
        names = ("table_proportions", "table_proportion_stderrs", "diff_row_idxs")
        sel_names = ("population_proportions", "population_proportion_stderrs", "dimension_types")
    else:
        names = ("row_proportions", "column_proportions", "table_proportions", "row_std_err",
                 "column_std_err", "table_std_err", "diff_row_idxs", "diff_column_idxs")
        sel_names = ("population_proportions", "population_std_err", "dimension_types")
    out = {"in": {n: impl.get(P, n) for n in names},
           "sel": {n: impl.get(P, n) for n in sel_names},
           "out": {n: impl.get(P, n) for n in ("population_fraction", "population_counts",
                                               "population_counts_moe")},
           "out2": {n: impl.get(P2, n) for n in ("population_counts", "population_counts_moe")},
           "cube_fraction": impl.get(impl.cube(case["response"], population=case["population"]),
                                     "population_fraction")}
    if "set" in case:
        st = case["set"]
        # the set's own fraction is that of its first cube; the member's is checked on its partition
        out["cube_fraction"] = impl.get(cs, "population_fraction") if st["idx"] == 0 \
            else out["out"]["population_fraction"]
        if st.get("lone") is not None:
            # the same cube stand-alone (augmented filter cube: the full-shape response the backend
            # would have sent without dropping), same transforms / population / cube index
            gl = impl.guarded(lambda: impl.partition(st["lone"], st["transforms"][st["idx"]],
                                                     population=case["population"], mask_size=st["min_base"],
                                                     cube_idx=st["idx"]))
            if gl[0] == "ok":
                out["lone"] = {n: impl.get(gl[1], n) for n in ("population_counts", "population_counts_moe")}
            else:
                out["lone"] = {"population_counts": gl, "population_counts_moe": gl}
    return out


def _ok(r):
    return r[0] == "ok"


def build_term(case, io):
    try:
        shape = parse_shape(case["filter_json"])
    except ValueError:
        return None, "unmodelled-shape"
    if any(not _ok(v) for v in io["in"].values()):
        return None, "input-read-raises"
    I = {n: v[1] for n, v in io["in"].items()}
    N = g_xq(case["population"])
    head = ("let s := %s in let o := pop_fraction s in "
            "(match o with Value x => 1 :: r_xq x | Raises => [0] end) ++ r_xq (pop_fraction_spec s) ++ "
            "r_bool (no_null_dicts s) ++ r_bool (wf_shape s) ++ "
            "match o with Raises => [] | Value f => " % g_shape(shape))
    if case["strand"]:
        n = len(I["table_proportions"])
        dr = g_list([g_bool(i in set(I["diff_row_idxs"])) for i in range(n)])
        cd = g_bool(case["cat_date"][0])
        body = ("r_opt r_vec (strand_pop_counts %s %s %s f %s) ++ r_vec (strand_pop_moe %s %s %s f)"
                % (cd, g_vec(I["table_proportions"]), N, dr, cd, g_vec(I["table_proportion_stderrs"]), N))
    else:
        nr, nc = I["table_proportions"].shape
        dr = g_list([g_bool(i in set(I["diff_row_idxs"])) for i in range(nr)])
        dc = g_list([g_bool(j in set(I["diff_column_idxs"])) for j in range(nc)])
        rcd, ccd = (g_bool(x) for x in case["cat_date"])
        body = ("r_mat (pop_counts %s %s %s %s %s %s f %s %s) ++ r_mat (pop_moe %s %s %s %s %s %s f)"
                % (rcd, ccd, g_mat(I["row_proportions"].tolist()), g_mat(I["column_proportions"].tolist()),
                   g_mat(I["table_proportions"].tolist()), N, dr, dc,
                   rcd, ccd, g_mat(I["row_std_err"].tolist()), g_mat(I["column_std_err"].tolist()),
                   g_mat(I["table_std_err"].tolist()), N))
    return "(" + head + body + " end)", None


Z_975 = 1.959964


def property_choice(case, io, fail):
    """The property text on the selection of the proportion, without the model: "the table
    proportion, or for a CATEGORICAL-date dimension the proportion within each date" and "the
    matching standard error".  Which dimension is a categorical date is the generator's knowledge;
    the proportions / std-errs / fraction are the implementation's own reported values (C03 / C11 /
    the fraction leg own them).  Returns a label for the evidence distribution."""
    import numpy as np
    I, S = io["in"], io.get("sel")
    if S is None or any(not _ok(v) for v in I.values()):
        return "not-evaluated"
    cd = [bool(x) for x in case["cat_date"]]
    if not case["strand"] and all(cd):
        return "not-evaluated (categorical date on both: the text does not say which wins)"
    if case["strand"]:
        tp = np.asarray(I["table_proportions"][1], dtype=float)
        ts = np.asarray(I["table_proportion_stderrs"][1], dtype=float)
        exp_p = np.ones(tp.shape) if cd[0] else tp.copy()
        exp_s = np.zeros(ts.shape) if cd[0] else ts
        diffs = list(I["diff_row_idxs"][1])
        if diffs:
            exp_p[diffs] = np.nan
        chosen = "all-ones" if cd[0] else "table"
        se_name = "population_proportion_stderrs"
    else:
        chosen = "row" if cd[0] else ("column" if cd[1] else "table")
        exp_p = np.array(I[chosen + "_proportions"][1], dtype=float)
        exp_s = np.asarray(I[chosen + "_std_err"][1], dtype=float)
        dr, dc = list(I["diff_row_idxs"][1]), list(I["diff_column_idxs"][1])
        if dr:
            exp_p[dr, :] = np.nan
        if dc:
            exp_p[:, dc] = np.nan
        se_name = "population_std_err"
    ctx = {"sig": "population-proportion-choice", "chosen": chosen, "strand": case["strand"]}
    expected = [("population_proportions", S["population_proportions"], exp_p),
                (se_name, S[se_name], exp_s)]
    f = io["out"]["population_fraction"]
    if _ok(f) and f[1] is not None:
        scale = float(case["population"]) * float(f[1])
        expected.append(("population_counts", io["out"]["population_counts"], exp_p * scale))
        expected.append(("population_counts_moe", io["out"]["population_counts_moe"],
                         Z_975 * scale * exp_s))
    for name, r, exp in expected:
        if not _ok(r):
            fail(name + ".property-choice", {"impl": r, "property": chosen + " proportion / std-err"},
                 exception=r[1], **ctx)
            continue
        got = np.asarray(r[1], dtype=float)
        with np.errstate(all="ignore"):
            same = got.shape == exp.shape and bool(
                np.allclose(got, exp, rtol=1e-9, atol=1e-300, equal_nan=True))
        if not same:
            where = None
            if got.shape == exp.shape:
                bad = ~np.isclose(got, exp, rtol=1e-9, atol=1e-300, equal_nan=True)
                where = [int(x) for x in np.argwhere(bad)[0]]
            fail(name + ".property-choice",
                 {"property": "%s: the %s selection%s" % (name, chosen,
                                                       "" if name.startswith("population_p") or
                                                       name == se_name else " x population x fraction"),
                  "kinds": case["kinds"], "cat_date": case["cat_date"], "first_diff_at": where,
                  "impl": got if where is None else got[tuple(where)],
                  "expected": exp if where is None else exp[tuple(where)],
                  "population": case["population"], "fraction": f[1] if _ok(f) else f,
                  "dimension_types": [str(getattr(t, "name", t)) for t in S["dimension_types"][1]]
                  if _ok(S["dimension_types"]) else S["dimension_types"]},
                 exception=None, **ctx)
    return "evaluated: " + chosen


def compare(case, io, toks):
    fails = []

    def fail(what, detail, **ctx):
        fails.append((what, detail, ctx))

    case["_choice"] = property_choice(case, io, fail)
    d = core.Dec(toks)
    tag = d.Z()
    m_frac = d.xq() if tag == 1 else "raises"
    m_spec = d.xq()
    no_null = d.bool()
    wf = d.bool()
    spec, flags = spec_fraction(case["filter_json"])
    # harness self-check: Coq spec == Python spec on covered shapes
    if spec is not None and wf and not core.close(None if spec == "nan" else float(spec), m_spec):
        fail("harness.spec-mismatch", {"python": spec, "coq": m_spec})
    pf = io["out"]["population_fraction"]
    cf = io["cube_fraction"]
    ctx = {"null_dict": flags["null_dict"], "style": case["style"]}
    for name, r in (("population_fraction", pf), ("cube.population_fraction", cf)):
        if _ok(r):
            if m_frac == "raises" or not core.close(r[1], m_frac):
                fail(name, {"impl": r[1], "model": m_frac, "filter": case["filter_json"]})
        else:
            if m_frac != "raises":
                fail(name, {"impl": r, "model": m_frac, "filter": case["filter_json"]})
        # against the property text
        if spec is not None:
            if not _ok(r):
                fail(name + ".property", {"impl": r, "property": spec, "filter": case["filter_json"]},
                     sig="fraction-vs-property", exception=r[1], **ctx)
            elif not core.close(r[1], "nan" if spec == "nan" else spec):
                fail(name + ".property", {"impl": r[1], "property": spec, "filter": case["filter_json"]},
                     sig="fraction-vs-property", exception=None, **ctx)
    counts, moe = io["out"]["population_counts"], io["out"]["population_counts_moe"]
    n_diff = len(io["in"]["diff_row_idxs"][1]) if case["strand"] else 0
    sctx = {"sig": "strand-population-differences", "n_diff": min(n_diff, 2),
            "cat_date": bool(case["cat_date"][0])}
    if m_frac == "raises":
        for name, r in (("population_counts", counts), ("population_counts_moe", moe)):
            if _ok(r):
                fail(name, {"impl": "value", "model": "raises"})
            elif spec is not None:
                if case["strand"] and n_diff and r[1] in ("IndexError", "ValueError"):
                    fail(name + ".property", {"impl": r, "property": "NaN at differences"},
                         exception=r[1], **sctx)
                else:
                    fail(name + ".property", {"impl": r, "property_fraction": spec},
                         sig="fraction-vs-property", exception=r[1], **ctx)
        return fails
    if case["strand"]:
        mc, mm = d.opt(d.vec), d.vec()
        cmp_ = core.close_vec
        if mc is None:
            # the faithful model says reading population_counts raises: the property says NaN at
            # the differences
            if _ok(counts):
                fail("population_counts", {"impl": "value", "model": "raises"})
            else:
                fail("population_counts.property", {"impl": counts, "property": "NaN at differences",
                                                    "diff_row_idxs": io["in"]["diff_row_idxs"][1]},
                     exception=counts[1], **sctx)
            counts = None
    else:
        mc, mm = d.mat(), d.mat()
        cmp_ = core.close_mat
    for name, r, m in (("population_counts", counts, mc), ("population_counts_moe", moe, mm)):
        if r is None:
            continue
        if not _ok(r):
            fail(name, {"impl": r, "model": "value"})
            continue
        iv = r[1].tolist()
        if not cmp_(iv, m):
            if case["strand"]:
                diff = [(i, core.jsonable(a), core.jsonable(b)) for i, (a, b) in enumerate(zip(iv, m))
                        if not core.close(a, b)][:3]
            else:
                diff = core.first_diff_mat(iv, m)
            fail(name, {"first_diff": diff, "population": case["population"], "fraction": m_frac,
                        "cat_date": case["cat_date"]})
        # through a CubeSet == the stand-alone cube with the same arguments
        if "lone" in io:
            rl = io["lone"][name]
            import numpy as np
            same = _ok(rl) and np.asarray(rl[1]).shape == np.asarray(r[1]).shape and bool(
                np.allclose(np.asarray(rl[1], dtype=float), np.asarray(r[1], dtype=float),
                            rtol=1e-9, atol=0.0, equal_nan=True))
            if not same:
                fail(name + ".set-vs-lone", {"through_cube_set": r[1], "stand_alone": rl[1] if _ok(rl) else rl,
                                             "population": case["population"], "set": case["set"]["mode"],
                                             "cube": case["set"]["idx"]})
        # linear in the population
        r2 = io["out2"][name]
        if _ok(r2):
            a = Fraction(case["factor"])
            import numpy as np
            x, y = np.asarray(r[1], dtype=float).ravel(), np.asarray(r2[1], dtype=float).ravel()
            for u, v in zip(x, y):
                e = core.to_exact(u)
                exp = e if isinstance(e, str) else e * a
                if isinstance(exp, str) and exp in ("inf", "-inf") and a < 0:
                    continue
                if not core.close(v, exp):
                    fail(name + ".linear", {"N": case["population"], "factor": case["factor"],
                                            "value_N": u, "value_aN": v})
                    break
        else:
            fail(name + ".linear", {"impl": r2})
    return fails


def nontrivial(case):
    return bool(case["filter_json"]) or any(case["cat_date"]) or ("set" in case and case["population"] != 0) \
        or "type_layout" in case


def _replayable(case):
    d = {k: case[k] for k in ("k", "strand", "response", "population", "style", "filter_json",
                              "cat_date", "kinds", "factor")}
    if "set" in case:
        d["set"] = case["set"]
    for key in ("slice", "type_layout"):
        if key in case:
            d[key] = case[key]
    return d


def check_case(case, rep, io, toks):
    live = []
    for what, detail, ctx in compare(case, io, toks):
        c = {"what": what}
        c.update(ctx)
        kind = "impl-vs-property" if (".property" in what or ".linear" in what or ".set-vs-lone" in what) \
            else "impl-vs-model"
        if rep.violation(kind, _replayable(case), dict(detail, what=what), c) != "known":
            live.append((what, detail, ctx))
    return live


def fixed_cases():
    """every shape named in the property / DESIGN probe list, on one small slice and one strand"""
    shapes = [
        {},
        {"filtered": {"weighted_n": 5}, "unfiltered": {"weighted_n": 10}},
        {"filtered": {"weighted_n": 0}, "unfiltered": {"weighted_n": 0}},
        {"filtered": {"weighted_n": 5}, "unfiltered": {"weighted_n": 0}},
        {"filtered": {"weighted_n": None}, "unfiltered": {"weighted_n": 10}},
        {"filtered": {"weighted_n": 5}, "unfiltered": {"weighted_n": None}},
        {"filtered": {}, "unfiltered": {"weighted_n": 10}},
        {"filter_stats": {"filtered_complete": {"weighted": {"selected": 3, "other": 1, "missing": 2}}}},
        {"filter_stats": {"filtered_complete": {"weighted": {"selected": 0, "other": 0}}}},
        {"filter_stats": {"filtered_complete": {"weighted": {"selected": 3, "other": 1}}, "is_cat_date": True}},
        {"filter_stats": {"filtered_complete": {"weighted": {"selected": 3, "other": 1}}, "is_cat_date": False},
         "filtered": {"weighted_n": 5}, "unfiltered": {"weighted_n": 10}},
        {"filter_stats": {"filtered_complete": {"weighted": {}}},
         "filtered": {"weighted_n": 5}, "unfiltered": {"weighted_n": 10}},
        {"filter_stats": {"filtered_complete": {"weighted": None}},
         "filtered": {"weighted_n": 5}, "unfiltered": {"weighted_n": 10}},
        {"filter_stats": {"filtered_complete": {}}, "filtered": {"weighted_n": 5}, "unfiltered": {"weighted_n": 10}},
        {"filter_stats": {}, "filtered": {"weighted_n": 5}, "unfiltered": {"weighted_n": 10}},
        {"filter_stats": None},
        {"filter_stats": None, "filtered": {"weighted_n": 5}, "unfiltered": {"weighted_n": 10}},
        {"filter_stats": {"filtered_complete": None}},
        {"filtered": None, "unfiltered": {"weighted_n": 10}},
        {"filtered": {"weighted_n": 5}, "unfiltered": None},
    ]
    rng = random.Random(17)
    cases = []
    for strand in (False, True):
        for date in ((False, False), (True, False), (False, True)):
            if strand and date[1]:
                continue
            rowv = gen.make_cat(rng, "rowv", n_valid=3, n_missing=1, date=date[0], numeric=None)
            colv = gen.make_cat(rng, "colv", n_valid=2, n_missing=0, date=date[1], numeric=None)
            variables = [rowv] if strand else [rowv, colv]
            sv = gen.Survey(variables, 12, rng)
            for n, extra in enumerate(shapes):
                resp = gen.cube_response(sv, [v.alias for v in variables], filter_stats=extra)
                cases.append({"k": "fixed-%s-%s-%d" % (strand, date, n), "strand": strand, "response": resp,
                              "population": 1000, "style": "fixed", "filter_json": copy.deepcopy(extra),
                              "cat_date": [v.kind == "cat_date" for v in variables],
                              "kinds": [v.kind for v in variables], "factor": 3})
    return cases


def run(tier, seed):
    rep = core.Report(PID, tier, seed)
    ob = core.obligations_gate(rep, PID)
    n_cases = 400 if tier == "quick" else 4000
    n_sets = 70 if tier == "quick" else 700
    n_types = 170 if tier == "quick" else 2000
    rng = random.Random(seed)
    todo, terms = [], []
    all_cases = fixed_cases() + [gen_case(rng, k) for k in range(n_cases)]
    for k in range(n_sets):
        all_cases.extend(gen_set(rng, k))
    # its own stream: the older classes keep their cases whatever is added here
    rng_t = random.Random("C17-types-%s" % seed)
    all_cases.extend(gen_type_case(rng_t, k) for k in range(n_types))
    for case in all_cases:
        io = impl_run(case)
        if "error" in io:
            rep.count_case(_replayable(case), nontrivial(case))
            rep.violation("impl-exception", _replayable(case), {"exception": io["error"]},
                          {"what": "exception-building-cube-set-partition"})
            continue
        term, why = build_term(case, io)
        if term is None:
            rep.count_case(_replayable(case), nontrivial(case))
            if why == "input-read-raises":
                rep.violation("impl-exception", _replayable(case),
                              {"exceptions": {n: v for n, v in io["in"].items() if v[0] == "exc"}},
                              {"what": "exception-on-input-read"})
            else:
                rep.dist("skipped-" + why)
            continue
        todo.append((case, io))
        terms.append(term)
    results, coq_s = core.run_coq_cases(PID, IMPORTS, terms, shard=40) if terms else ([], 0.0)
    for (case, io), toks in zip(todo, results):
        rep.count_case(_replayable(case), nontrivial(case))
        rep.dist("strand" if case["strand"] else "slice")
        if "set" in case:
            st = case["set"]
            rep.dist("cube-set member: %s cube %s" % (st["mode"], "0" if st["idx"] == 0 else ">=1"))
            if st.get("augmented"):
                rep.dist("cube-set member: AUGMENTED filter cube (fewer rows than the summary)")
            if st["mode"] == "numeric":
                rep.dist("cube-set member: INFLATED numeric cube")
            if case["population"] != 0:
                rep.dist("cube-set member with non-zero population")
            if st["min_base"]:
                rep.dist("cube-set member with min_base > 0")
        rep.dist("filter-style=" + case["style"])
        rep.dist("kinds=" + "_x_".join(case["kinds"]))
        if case["strand"]:
            rep.dist("cat-date strand" if case["cat_date"][0] else "plain strand")
        else:
            rep.dist("cat-date on " + {(True, False): "rows", (False, True): "columns",
                                       (True, True): "both", (False, False): "neither"}[tuple(case["cat_date"])])
        if nontrivial(case):
            rep.sample({"filter_json": case["filter_json"], "cat_date": case["cat_date"],
                        "population": case["population"], "strand": case["strand"]})
        check_case(case, rep, io, toks)
        rep.dist("property-text choice of proportion / std-err " + case.get("_choice", "not-evaluated"))
        if "type_layout" in case:
            rep.dist("dimension-type class: " + case["type_layout"])
            if any(x in ENUM_KINDS for x in case["kinds"][-2:]):
                rep.dist("dimension-type class: displayed ENUM dimension (%s), population %s" % (
                    "strand" if case["strand"] else "slice", "non-zero" if case["population"] else "zero"))
            if len(case["kinds"]) == 3:
                rep.dist("dimension-type class: 3-D cube, slice %s" % ("0" if case["slice"] == 0 else ">=1"))
            dt = io["sel"]["dimension_types"]
            rep.dist("dimension-type class, reported dimension_types=" + (
                "_x_".join(str(getattr(t, "name", t)) for t in dt[1]) if _ok(dt) else "unreadable"))
    rep.cov["rule"] = (
        "20 fixed filter-statistic shapes x {slice, strand} x categorical-date on rows/columns/neither, then "
        "cases from random.Random(seed): CAT|CAT_DATE|MR slices and strands with view subtotals incl. "
        "differences, 0..30 respondents, populations {0,1,7,1000,12345.5,250000,3.25,-40,1e9}, filter "
        "statistics absent / old style / new style / both / categorical-date filter / null dicts / messy "
        "(missing and null keys, empty dicts, zero denominators); non-trivial = filter statistics present or "
        "a categorical-date dimension; distinct by content hash.  Dimension-type class (own stream "
        "random.Random('C17-types-<seed>')): the %d layouts of TYPE_LAYOUTS in turn, then at random - DATETIME / "
        "TEXT / BINNED_NUMERIC enum dimensions, MR, CA against CAT / CAT_DATE on rows, columns, as table "
        "dimension of a 3-D cube (any slice) and as strands; every case also through the property-text "
        "choice leg (population_proportions / population_std_err / counts / MoE == the selected reported "
        "proportion / std-err, selection by the generator's kinds)" % len(TYPE_LAYOUTS))
    rep.cov["coq_eval_seconds"] = round(coq_s, 2)
    rep.assumptions = [
        "proportions and standard errors fed to the model are the implementation's own public values "
        "(owned by C03/C11); which dimension is categorical-date comes from the generator",
        "float64 vs exact rationals: relative tolerance 1e-9",
    ]
    return rep.finish("proof", ob, trusted_base=core.TRUSTED_BASE_COMMON + [
        "Model/Population.v is hand-written; tied to cube.py, matrix/measure.py, stripe/measure.py and "
        "cubepart.py by this correspondence run only; the JSON -> fshape parser of the harness",
        __import__("harness.props.cube_tb", fromlist=["cube_trusted_base"]).cube_trusted_base()])


def replay(path):
    d = json.load(open(path))
    case = d["violation"]["case"]
    rep = core.Report(PID, "quick", d.get("seed", 0))
    io = impl_run(case)
    term, why = (None, "error") if "error" in io else build_term(case, io)
    if "error" in io:
        print("REPLAY: building the cube-set partition raises: still failing", io["error"])
        return 1
    if term is None:
        print("REPLAY: %s: still failing" % why)
        return 1
    results, _ = core.run_coq_cases(PID, IMPORTS, [term], tag="replay")
    fails = check_case(case, rep, io, results[0])
    for f in fails[:10]:
        print("REPLAY still fails:", json.dumps(core.jsonable(f))[:700])
    if rep.known:
        print("REPLAY: known findings hit:", rep.known)
    if not rep.violations:
        print("REPLAY: no (unknown) failure")
    return 1 if rep.violations else 0
