# -*- coding: utf-8 -*-
"""Engine of the C18 (access histories) check: worlds of caller-owned argument objects, read
schedules, fresh evaluation on pristine copies, canonical comparison, deep equality of the caller's
argument objects with their pristine copies after a schedule, shrinking, and the static
classification of a (minimal) failing history against the REPAIRED defect classes H2 / H3 / H4 of
Props/C18.v (a regression hint; all four findings are fixed, nothing is exempted).

A WORLD (JSON-able, this is what a replay file stores) is

  {"responses":  [response dict, ...]            pristine
   "forms":      ["dict" | "envelope" | "text" | "text_envelope", ...]   how each is passed
   "transforms": [transforms dict, ...]          pristine
   "objects":    [{"kind": "cube", "r": i, "t": j | None, "population": p, "mask": m, "cube_idx": c}
                  | {"kind": "set", "rs": [i, ...], "ts": [j | None, ...], "population": p,
                     "min_base": m}, ...]}

and a SCHEDULE is a list of  ["new", k]  (construct object k now, from the SHARED argument objects)
and  ["read", k, target, name, args]  with target = ["self"] | ["part", p] | ["pset", a, b].
"""
import copy
import enum
import inspect
import json

import numpy as np

from harness import core, impl  # noqa: F401
from cr.cube.cube import Cube, CubeSet  # noqa: E402
from cr.cube.cubepart import _Nub, _Slice, _Strand  # noqa: E402
from cr.cube.util import lazyproperty  # noqa: E402

CLASSES = {"Cube": Cube, "CubeSet": CubeSet, "_Slice": _Slice, "_Strand": _Strand, "_Nub": _Nub}

# public methods that are reads (no state argument); args tried
METHOD_READS = {
    "_Slice": [("row_order", []), ("column_order", []), ("pairwise_significance_p_vals", [0]),
               ("pairwise_significance_t_stats", [0]), ("pairwise_significance_means_p_vals", [0]),
               ("pairwise_significance_means_t_stats", [0])],
    "_Strand": [("row_order", [])],
}

HOT = {
    "Cube": ["partitions", "dimension_types", "ndim", "counts", "name", "description", "n_responses",
             "available_measures"],
    "CubeSet": ["partition_sets", "is_ca_as_0th", "name", "description", "has_weighted_counts",
                "can_show_pairwise", "available_measures", "n_responses"],
    "_Slice": ["row_labels", "column_labels", "counts", "row_codes", "column_codes", "row_order",
               "column_order", "column_proportions", "table_name", "name", "shape", "rows_margin",
               "columns_base", "inserted_row_idxs", "means", "table_base"],
    "_Strand": ["row_labels", "counts", "row_codes", "row_order", "table_proportions", "name",
                "table_name", "shape", "means", "table_base_range", "unweighted_bases"],
    "_Nub": ["means", "table_base", "unweighted_count", "is_empty", "ndim"],
}


def public_reads(clsname):
    """[(name, args)] of every public property (by introspection) + the read-like methods."""
    cls = CLASSES[clsname]
    out = []
    for n in sorted(dir(cls)):
        if n.startswith("_"):
            continue
        a = inspect.getattr_static(cls, n)
        if isinstance(a, (lazyproperty, property)):
            out.append((n, []))
    for n, args in METHOD_READS.get(clsname, []):
        if hasattr(cls, n):
            out.append((n, list(args)))
    return out


READS = {c: public_reads(c) for c in CLASSES}

# ------------------------------------------------------------------------------------
# canonical values
# ------------------------------------------------------------------------------------


def canon(v):
    if v is None or isinstance(v, (bool, str)):
        return v
    if isinstance(v, (np.bool_,)):
        return bool(v)
    if isinstance(v, enum.Enum):
        return ["enum", type(v).__name__, v.name]
    if isinstance(v, (int, np.integer)):
        return int(v)
    if isinstance(v, (float, np.floating)):
        f = float(v)
        if f != f:
            return "nan"
        if f in (float("inf"), float("-inf")):
            return "inf" if f > 0 else "-inf"
        return f
    if isinstance(v, np.ma.MaskedArray):
        return ["masked", list(v.shape), canon(np.ma.getdata(v)), canon(np.ma.getmaskarray(v))]
    if isinstance(v, np.ndarray):
        return ["ndarray", v.dtype.kind, list(v.shape), [canon(x) for x in v.ravel().tolist()]]
    if isinstance(v, (list, tuple)):
        return [type(v).__name__, [canon(x) for x in v]]
    if isinstance(v, (set, frozenset)):
        return ["set", sorted((canon(x) for x in v), key=lambda c: json.dumps(c, sort_keys=True))]
    if isinstance(v, dict):
        return ["dict", sorted(([canon(k), canon(x)] for k, x in v.items()),
                               key=lambda c: json.dumps(c[0], sort_keys=True))]
    if isinstance(v, range):
        return ["range", v.start, v.stop, v.step]
    if isinstance(v, complex):
        return ["complex", canon(v.real), canon(v.imag)]
    return ["obj", type(v).__name__]


# ------------------------------------------------------------------------------------
# running a world
# ------------------------------------------------------------------------------------


def build_args(world, forms=None):
    """Fresh caller-owned argument objects (pristine deep copies) of the whole world."""
    forms = forms or world["forms"]
    R = []
    for r, form in zip(world["responses"], forms):
        rr = copy.deepcopy(r)
        if form == "dict":
            R.append(rr)
        elif form == "envelope":
            R.append({"value": rr})
        elif form == "text":
            R.append(json.dumps(rr))
        elif form == "text_envelope":
            R.append(json.dumps({"value": rr}))
        else:
            raise ValueError(form)
    T = [copy.deepcopy(t) for t in world["transforms"]]
    return R, T


def construct(spec, R, T):
    if spec["kind"] == "cube":
        return Cube(R[spec["r"]], cube_idx=spec.get("cube_idx"),
                    transforms=None if spec.get("t") is None else T[spec["t"]],
                    population=spec.get("population"), mask_size=spec.get("mask", 0))
    return CubeSet([R[i] for i in spec["rs"]],
                   [None if j is None else T[j] for j in spec["ts"]],
                   spec.get("population"), spec.get("min_base", 0))


def navigate(obj, target):
    if target[0] == "self":
        return obj
    if target[0] == "part":
        return obj.partitions[target[1]]
    if target[0] == "pset":
        return obj.partition_sets[target[1]][target[2]]
    raise ValueError(target)


def do_read(obj, target, name, args):
    """canonical result of one read: ["ok", value] | ["exc", ExceptionTypeName]"""

    def f():
        v = getattr(navigate(obj, target), name)
        if callable(v) and not isinstance(v, np.ndarray):
            v = v(*args)
        return canon(v)

    r = impl.guarded(f)
    return ["ok", r[1]] if r[0] == "ok" else ["exc", r[1]]


def run_shared(world, schedule):
    """Execute the schedule on ONE set of argument objects.  Returns (results per op, R, T, objs)."""
    R, T = build_args(world)
    objs = {}
    out = []
    for op in schedule:
        if op[0] == "new":
            objs[op[1]] = construct(world["objects"][op[1]], R, T)
            out.append(None)
        else:
            _r, k, target, name, args = op
            if k not in objs:
                out.append(["exc", "NoSuchObject"])
            else:
                out.append(do_read(objs[k], target, name, args))
    return out, R, T, objs


class Fresh(object):
    """Reads evaluated on a fresh object built from pristine deep copies of the arguments."""

    def __init__(self, world):
        self.world = world
        self.cache = {}

    def read(self, k, target, name, args):
        key = json.dumps([k, target, name, args])
        if key not in self.cache:
            R, T = build_args(self.world)
            obj = construct(self.world["objects"][k], R, T)
            self.cache[key] = do_read(obj, target, name, args)
        return self.cache[key]


def mismatches(world, schedule, fresh):
    """indices of reads whose result differs from the fresh evaluation"""
    got, _R, _T, _o = run_shared(world, schedule)
    bad = []
    for i, (op, g) in enumerate(zip(schedule, got)):
        if op[0] != "read":
            continue
        exp = fresh.read(op[1], op[2], op[3], op[4])
        if g != exp:
            bad.append((i, g, exp))
    return bad


# ------------------------------------------------------------------------------------
# the caller's argument objects after a schedule vs their pristine copies
# ------------------------------------------------------------------------------------

SHIM_FIELDS = ("subvar_alias", "datetime_value")


def strip_shim_fields(resp):
    """response (dict) with the two fields the library may add to the ELEMENTS of a dimension dict
    removed (the idempotent annotation that stays in place); everything else is compared"""
    r = copy.deepcopy(resp)
    res = r.get("result", {}) if isinstance(r, dict) else {}
    for d in res.get("dimensions", []) or []:
        for el in (d.get("type", {}) or {}).get("elements", []) or []:
            if isinstance(el, dict):
                for f in SHIM_FIELDS:
                    el.pop(f, None)
    return r


def same(a, b):
    """deep, type-aware equality (1 / True / "1" / 1.0 apart, list / tuple apart, NaN == NaN)"""
    return json.dumps(canon(a), sort_keys=True) == json.dumps(canon(b), sort_keys=True)


def first_diff(a, b, path=""):
    """path of the first difference between two JSON-like objects (for the report)"""
    if type(a) is not type(b):
        return path or "."
    if isinstance(a, dict):
        ka, kb = list(a.keys()), list(b.keys())
        for k in ka:
            if not any(type(k) is type(k2) and k == k2 for k2 in kb):
                return "%s/%r (key removed)" % (path, k)
        for k in kb:
            if not any(type(k) is type(k2) and k == k2 for k2 in ka):
                return "%s/%r (key added)" % (path, k)
        for k in ka:
            d = first_diff(a[k], b[k], "%s/%r" % (path, k))
            if d:
                return d
        return None
    if isinstance(a, (list, tuple)):
        if len(a) != len(b):
            return "%s (length %d -> %d)" % (path, len(a), len(b))
        for i, (x, y) in enumerate(zip(a, b)):
            d = first_diff(x, y, "%s[%d]" % (path, i))
            if d:
                return d
        return None
    return None if same(a, b) else (path or ".")


def args_changed(world, R, T):
    """[(which, index, where)] for every caller-owned argument object that is no longer deep-equal
    to its pristine copy: transforms dicts exactly; responses apart from the subvar_alias /
    datetime_value annotation of dimension elements; JSON text is immutable."""
    out = []
    for j, (t0, t) in enumerate(zip(world["transforms"], T)):
        if not same(t0, t):
            out.append(("transforms", j, first_diff(t0, t)))
    for i, (r0, form, r) in enumerate(zip(world["responses"], world["forms"], R)):
        if form == "dict":
            got = r
        elif form == "envelope":
            if not isinstance(r, dict) or list(r.keys()) != ["value"]:
                out.append(("response", i, "envelope"))
                continue
            got = r["value"]
        else:
            if r != (json.dumps(r0) if form == "text" else json.dumps({"value": r0})):
                out.append(("response", i, "text"))
            continue
        g2 = strip_shim_fields(got)
        if not same(r0, g2):
            out.append(("response", i, first_diff(r0, g2)))
    return out


def evaluate(world, schedule, fresh):
    """(reads that differ from the fresh evaluation, argument objects that changed)"""
    got, R, T, _o = run_shared(world, schedule)
    bad = []
    for i, (op, g) in enumerate(zip(schedule, got)):
        if op[0] != "read":
            continue
        exp = fresh.read(op[1], op[2], op[3], op[4])
        if g != exp:
            bad.append((i, g, exp))
    return bad, args_changed(world, R, T)


def mutates(world, schedule):
    _got, R, T, _o = run_shared(world, schedule)
    return args_changed(world, R, T)


def shrink_mutation(world, schedule, max_runs=300):
    """minimal schedule after which a caller-owned argument object still differs from its pristine
    copy: delta debugging over the reads, then the objects no remaining read needs are dropped
    (when construction alone edits nothing)"""
    runs = [0]

    def fails(s):
        runs[0] += 1
        return bool(mutates(world, s))

    cur = list(schedule)
    chunk = max(1, sum(1 for op in cur if op[0] == "read") // 2)
    while chunk >= 1 and runs[0] < max_runs:
        i = 0
        while runs[0] < max_runs:
            removable = [j for j in range(len(cur)) if cur[j][0] == "read"]
            if i >= len(removable):
                break
            drop = set(removable[i:i + chunk])
            cand = [op for j, op in enumerate(cur) if j not in drop]
            if fails(cand):
                cur = cand
            else:
                i += chunk
        if chunk == 1:
            break
        chunk //= 2
    used = {op[1] for op in cur if op[0] == "read"}
    cand = [op for op in cur if op[0] == "read" or op[1] in used]
    if cand != cur and fails(cand):
        cur = cand
    return cur


def probe_targets(world, k):
    """[(target, classname)] of object k on pristine copies (to choose readable targets)."""
    R, T = build_args(world)
    spec = world["objects"][k]
    out = [(["self"], "Cube" if spec["kind"] == "cube" else "CubeSet")]
    try:
        obj = construct(spec, R, T)
        if spec["kind"] == "cube":
            r = impl.guarded(lambda: [type(p).__name__ for p in obj.partitions])
            if r[0] == "ok":
                out += [(["part", i], c) for i, c in enumerate(r[1])]
        else:
            r = impl.guarded(lambda: [[type(p).__name__ for p in s] for s in obj.partition_sets])
            if r[0] == "ok":
                out += [(["pset", a, b], c) for a, s in enumerate(r[1]) for b, c in enumerate(s)]
    except Exception:  # noqa
        pass
    return [(t, c) for t, c in out if c in READS]


# ------------------------------------------------------------------------------------
# shrinking
# ------------------------------------------------------------------------------------


def shrink(world, schedule, fresh, max_runs=400):
    """Minimal failing schedule: cut after the first failing read, then delta-debugging over the
    earlier reads (chunks of halving size, finally one at a time); the 'new' ops stay as long as
    a remaining read needs them (construction is lazy, so their position does not matter)."""
    runs = [0]

    def fails(s):
        runs[0] += 1
        return bool(mismatches(world, s, fresh))

    bad = mismatches(world, schedule, fresh)
    if not bad:
        return schedule
    cur = schedule[: bad[0][0] + 1]
    chunk = max(1, sum(1 for op in cur[:-1] if op[0] == "read") // 2)
    while chunk >= 1 and runs[0] < max_runs:
        i = 0
        while runs[0] < max_runs:
            removable = [j for j in range(len(cur) - 1) if cur[j][0] == "read"]
            if i >= len(removable):
                break
            drop = set(removable[i:i + chunk])
            cand = [op for j, op in enumerate(cur) if j not in drop]
            if fails(cand):
                cur = cand
            else:
                i += chunk
        if chunk == 1:
            break
        chunk //= 2
    used = {op[1] for op in cur if op[0] == "read"}
    cur = [op for op in cur if op[0] == "read" or op[1] in used]
    return cur


# ------------------------------------------------------------------------------------
# static classification of a FAILING history against the repaired defect classes H2 / H3 / H4
# (regression hint in the report; no class is exempted any more)
# ------------------------------------------------------------------------------------


def shim_signature(resp):
    """what the id shim of this response's array / datetime dimensions depends on"""
    out = []
    res = resp.get("result", {})
    for d in res.get("dimensions", []):
        t = d.get("type", {})
        if t.get("class") == "enum" and t.get("subtype", {}).get("class") in ("variable", "datetime"):
            out.append(json.dumps(t.get("elements"), sort_keys=True))
    for name, m in sorted(res.get("measures", {}).items()):
        md = (m or {}).get("metadata", {}) or {}
        sv = (md.get("type") or {}).get("subvariables")
        if sv:
            out.append(json.dumps([sv, (md.get("references") or {}).get("subreferences")], sort_keys=True))
            break
    return out


def has_refs(t):
    """the transforms dict carries element references the shim rewrites"""
    for key in ("rows_dimension", "columns_dimension"):
        d = (t or {}).get(key) or {}
        order = d.get("order") or {}
        fixed = order.get("fixed") or {}
        if d.get("elements") or order.get("element_ids") or fixed.get("top") or fixed.get("bottom"):
            return True
    return False


def is_numeric_measure_set(world, spec):
    """CubeSet._is_numeric_measure on pristine responses AND inflate really edits the dict"""
    if spec["kind"] != "set" or len(spec["rs"]) < 2:
        return False
    r0 = world["responses"][spec["rs"][0]]
    if r0["result"].get("dimensions"):
        return False
    return not shim_numeric_array(r0)


def shim_numeric_array(resp):
    for _n, m in resp["result"].get("measures", {}).items():
        md = (m or {}).get("metadata", {}) or {}
        if (md.get("type") or {}).get("subvariables"):
            return True
    return False


def augmented_responses(world, spec):
    """response indices that augment_response pads in this CubeSet"""
    if spec["kind"] != "set" or len(spec["rs"]) < 2:
        return []
    r0 = world["responses"][spec["rs"][0]]
    out = []
    for i in spec["rs"][1:]:
        r = world["responses"][i]
        if r["result"].get("is_single_col_cube") and \
                len(r["result"]["counts"]) != len(r0["result"]["counts"]):
            out.append(i)
    return out


def obj_responses(spec):
    return [spec["r"]] if spec["kind"] == "cube" else list(spec["rs"])


def obj_uses(spec):
    """[(response index, transforms index)]"""
    if spec["kind"] == "cube":
        return [(spec["r"], spec.get("t"))]
    return list(zip(spec["rs"], spec["ts"]))


def classify(world, schedule):
    """Which REPAIRED defect class (former hypothesis of Props/C18.v) does the failing history fall
    in?  Static, from the arguments; "other" = none of them."""
    used = sorted({op[1] for op in schedule if op[0] == "new"})
    specs = [(k, world["objects"][k]) for k in used]
    causes = []
    for k, s in specs:
        if is_numeric_measure_set(world, s):
            mut = [world["forms"][i] in ("dict", "envelope") for i in s["rs"]]
            for k2, s2 in specs:
                shared = set(obj_responses(s2)) & set(s["rs"])
                if k2 == k or not shared:
                    continue
                if s2["kind"] == "set" and s2["rs"] == s["rs"]:
                    # the same CubeSet again: safe only if ALL its responses were edited together
                    # (dicts) or none (JSON text is parsed afresh, never edited)
                    if any(mut) and not all(mut):
                        causes.append("H3-inflated-response-reused")
                elif any(world["forms"][i] in ("dict", "envelope") for i in shared):
                    causes.append("H3-inflated-response-reused")
        aug = augmented_responses(world, s)
        for k2, s2 in specs:
            if k2 != k and set(obj_responses(s2)) & set(aug) and \
                    not (s2["kind"] == "set" and s2["rs"] == s["rs"]):
                if any(world["forms"][i] in ("dict", "envelope") for i in set(obj_responses(s2)) & set(aug)):
                    causes.append("H4-augmented-response-reused")
    by_t = {}
    for k, s in specs:
        for ri, tj in obj_uses(s):
            if tj is not None:
                by_t.setdefault(tj, set()).add(ri)
    for tj, ris in by_t.items():
        if not has_refs(world["transforms"][tj]):
            continue
        sigs = {json.dumps(shim_signature(world["responses"][ri])) for ri in ris}
        if len(sigs) > 1:
            causes.append("H2-transforms-dict-shared-across-dimensions")
    if not causes:
        return "other"
    return causes[0] if len(set(causes)) == 1 else "+".join(sorted(set(causes)))
