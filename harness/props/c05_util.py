# -*- coding: utf-8 -*-
"""C05 helpers: the metamorphic (relational) oracle "transformed run == untransformed run
re-indexed by the reported display order", generic over every public output of a partition.

Nothing here knows which outputs exist: the public attributes of the partition class are
enumerated by introspection (`public_outputs`); how an output is re-indexed is decided from
its VALUE in the untransformed run (its shape relative to the untransformed extent), with
name hints used only to make the decision strict where the shape alone is ambiguous.
"""
import inspect
import math
import re

import numpy as np

from harness import core, impl

TOL = 1e-9

# ------------------------------------------------------------------------------------
# enumeration of the public outputs
# ------------------------------------------------------------------------------------


def _is_lib_object(x):
    mod = getattr(type(x), "__module__", "") or ""
    import enum
    if not mod.startswith("cr.cube") or isinstance(x, (type, enum.Enum)) or mod == "cr.cube.enums":
        return False
    # value objects without public properties (DIMENSION_TYPE members) are scalars
    return any(k == "prop" for _, k in public_outputs(type(x)))


def _is_enum(x):
    import enum
    return isinstance(x, enum.Enum)


def public_outputs(cls):
    """[(name, kind)]: kind 'prop' (property / lazyproperty), 'order' (row_order/column_order),
    'percol' (method of one display-column index), 'other' (a method we cannot call)."""
    out = []
    for name in sorted(dir(cls)):
        if name.startswith("_"):
            continue
        try:
            static = inspect.getattr_static(cls, name)
        except AttributeError:
            continue
        if isinstance(static, (classmethod, staticmethod)):
            continue
        if isinstance(static, property) or type(static).__name__ == "lazyproperty":
            out.append((name, "prop"))
            continue
        if inspect.isfunction(static):
            params = [p for p in inspect.signature(static).parameters.values()][1:]
            if name in ("row_order", "column_order"):
                out.append((name, "order"))
            elif len(params) == 1 and params[0].name == "column_idx":
                out.append((name, "percol"))
            elif all(p.default is not inspect.Parameter.empty for p in params):
                out.append((name, "call0"))
            else:
                out.append((name, "other"))
    return out


def object_outputs(obj):
    return [n for n, k in public_outputs(type(obj)) if k == "prop"]


# ------------------------------------------------------------------------------------
# value comparison
# ------------------------------------------------------------------------------------


def _num_close(a, b):
    try:
        fa, fb = float(a), float(b)
    except (TypeError, ValueError):
        return a == b
    if math.isnan(fa) or math.isnan(fb):
        return math.isnan(fa) and math.isnan(fb)
    if math.isinf(fa) or math.isinf(fb):
        return fa == fb
    return abs(fa - fb) <= TOL * max(1.0, abs(fa), abs(fb))


def scalar_eq(a, b):
    if a is None or b is None:
        return a is None and b is None
    if isinstance(a, (str, bytes, np.str_)) or isinstance(b, (str, bytes, np.str_)):
        return str(a) == str(b)
    if isinstance(a, (tuple, list)) or isinstance(b, (tuple, list)):
        if not (isinstance(a, (tuple, list)) and isinstance(b, (tuple, list))):
            return False
        return len(a) == len(b) and all(scalar_eq(x, y) for x, y in zip(a, b))
    if _is_enum(a) or _is_enum(b):
        return a == b
    ma = getattr(type(a), "__module__", "") or ""
    if ma.startswith("cr.cube"):
        return a == b or repr(a) == repr(b)
    return _num_close(a, b)


def arr_eq(a, b):
    """elementwise equality of two object/numeric arrays of the same shape"""
    if a.shape != b.shape:
        return False
    return all(scalar_eq(x, y) for x, y in zip(a.ravel().tolist(), b.ravel().tolist()))


def to_array(v):
    """ndarray view of an output value; tuples of tuples become object arrays of tuples."""
    if isinstance(v, np.ndarray):
        return v
    if isinstance(v, (tuple, list)):
        if all(isinstance(x, (tuple, list)) for x in v) and len(v) > 0:
            # index sets per position (or a nested numeric structure with equal lengths)
            a = np.empty((len(v),), dtype=object)
            a[:] = [tuple(x) for x in v]
            return a
        a = np.empty((len(v),), dtype=object)
        a[:] = list(v)
        return a
    return None


def _is_indexset_array(a):
    if a.dtype != object or a.size == 0:
        return False
    return all(isinstance(x, (tuple, list)) for x in a.ravel().tolist())


class Ctx(object):
    """The two orders and the maps between display positions of the two runs."""

    def __init__(self, ro_a, co_a, ro_b, co_b):
        self.ro_a, self.co_a, self.ro_b, self.co_b = ro_a, co_a, ro_b, co_b
        self.nra, self.nrb = len(ro_a), len(ro_b)
        self.nca = None if co_a is None else len(co_a)
        self.ncb = None if co_b is None else len(co_b)
        pos_r = {s: p for p, s in enumerate(ro_b)}
        self.rmap = [pos_r.get(s) for s in ro_a]          # A row position -> B row position
        if co_a is not None:
            pos_c = {s: p for p, s in enumerate(co_b)}
            self.cmap = [pos_c.get(s) for s in co_a]
            # B column position -> A column position (None: not displayed in A)
            inv = {}
            for pa, s in enumerate(co_a):
                inv.setdefault(pos_c.get(s), []).append(pa)
            self.cinv = inv
        else:
            self.cmap, self.cinv = None, {}
        rinv = {}
        for pa, s in enumerate(ro_a):
            rinv.setdefault(pos_r.get(s), []).append(pa)
        self.rinv = rinv

    def complete(self):
        ok = all(p is not None for p in self.rmap)
        if self.cmap is not None:
            ok = ok and all(p is not None for p in self.cmap)
        return ok


ROW_HINT = re.compile(r"^(rows?_|rows?$)|_rows?_|_row$")
COL_HINT = re.compile(r"^(smoothed_)?(columns?_|columns?$)|_columns?_|_column$")
INVARIANT_HINT = re.compile(r"(_range$|^dimension_types$|^selected_category_labels$)")
# outputs that ARE the displayed extent / the order: checked against the order, not re-indexed
EXTENT_NAMES = ("shape", "row_count", "is_empty", "payload_order")
POSLIST = re.compile(r"(^|_)(row|column)_idxs$")
POSSET = re.compile(r"(_indices|_idxs)$")     # a plain tuple of ints with such a name: column positions


def orientation_hint(name, strand):
    base = name.split(".")[-1]
    if INVARIANT_HINT.search(base):
        return "inv"
    if strand:
        return None
    r, c = bool(ROW_HINT.search(base)), bool(COL_HINT.search(base))
    if r and not c:
        return "r"
    if c and not r:
        return "c"
    return None


def renumber_sets(arr, cinv):
    """renumber column-position sets of the untransformed run into positions of the transformed
    run; members that are not displayed any more are dropped."""
    out = np.empty(arr.shape, dtype=object)
    flat = []
    for s in arr.ravel().tolist():
        flat.append(tuple(sorted(p for c in s for p in cinv.get(c, ()))))
    it = iter(flat)
    for idx in np.ndindex(arr.shape):
        out[idx] = next(it)
    return out


def _sets_eq(a, b):
    if a.shape != b.shape:
        return False
    for x, y in zip(a.ravel().tolist(), b.ravel().tolist()):
        if tuple(int(i) for i in x) != tuple(int(i) for i in y):
            return False
    return True


def expected_views(name, vb, ctx, strand):
    """Candidate expected values of the transformed run for an array output whose untransformed
    value is `vb` -> list of (how, array).  More than one candidate only when the shape is
    ambiguous and no name hint decides."""
    b = to_array(vb)
    sets = _is_indexset_array(b)
    hint = orientation_hint(name, strand)

    def rows(x, axis):
        return np.take(x, ctx.rmap, axis=axis) if len(ctx.rmap) else np.take(x, [], axis=axis)

    def cols(x, axis):
        return np.take(x, ctx.cmap, axis=axis) if len(ctx.cmap) else np.take(x, [], axis=axis)

    def fin(x):
        return renumber_sets(x, ctx.cinv) if sets else x

    cands = []
    if b.ndim == 1:
        n = b.shape[0]
        if hint == "inv":
            return [("invariant", b)]
        if n == ctx.nrb and hint in (None, "r"):
            cands.append(("rows", fin(rows(b, 0))))
        if ctx.ncb is not None and n == ctx.ncb and hint in (None, "c"):
            cands.append(("columns", fin(cols(b, 0))))
        if hint is None or not cands:
            cands.append(("invariant", b))
        return cands
    if b.ndim >= 2 and ctx.ncb is not None and b.shape[-2:] == (ctx.nrb, ctx.ncb):
        x = rows(b, b.ndim - 2)
        x = cols(x, b.ndim - 1)
        return [("rows+columns", fin(x))]
    if b.ndim == 2 and ctx.ncb is None and b.shape[0] == ctx.nrb:
        return [("rows", rows(b, 0))]
    return [("invariant", b)]


def positions_expected(name, vb, ctx):
    base = name.split(".")[-1]
    inv = ctx.rinv if ("row_idxs" in base or ctx.ncb is None) else ctx.cinv
    return tuple(sorted(q for p in vb for q in inv.get(p, ())))


class Mismatch(object):
    def __init__(self, name, why, got=None, want=None):
        self.name, self.why, self.got, self.want = name, why, got, want

    def detail(self):
        return {"output": self.name, "why": self.why, "transformed": core.jsonable(_short(self.got)),
                "untransformed_reindexed": core.jsonable(_short(self.want))}


def _short(x):
    if isinstance(x, np.ndarray):
        x = x.tolist()
    s = core.jsonable(x)
    return s


def compare_value(name, va, vb, ctx, strand, out, depth=0):
    """Append Mismatch objects to `out`; returns the number of scalar/array comparisons made."""
    if vb is None or va is None:
        if not (va is None and vb is None):
            out.append(Mismatch(name, "None in one run only", va, vb))
        return 1
    base = name.split(".")[-1]
    if _is_enum(vb) or isinstance(vb, (str, bytes, bool, np.bool_)):
        if not scalar_eq(va, vb):
            out.append(Mismatch(name, "scalar differs", va, vb))
        return 1
    if _is_lib_object(vb):
        if depth >= 2:
            return 0
        n = 0
        for sub in object_outputs(vb):
            ra, rb = impl.get(va, sub), impl.get(vb, sub)
            n += compare_result(name + "." + sub, ra, rb, ctx, strand, out, depth + 1)
        return n
    if isinstance(vb, (tuple, list)) and len(vb) > 0 and all(_is_lib_object(x) for x in vb):
        # one object per displayed column (pairwise_significance_tests)
        if not isinstance(va, (tuple, list)):
            out.append(Mismatch(name, "type differs", type(va).__name__, type(vb).__name__))
            return 1
        if ctx.ncb is not None and len(vb) == ctx.ncb:
            amap = ctx.cmap
        elif len(vb) == ctx.nrb:
            amap = ctx.rmap
        else:
            amap = list(range(len(vb)))
        if len(va) != len(amap):
            out.append(Mismatch(name, "length differs", len(va), len(amap)))
            return 1
        n = 0
        for ka, kb in enumerate(amap):
            n += compare_value("%s[%d]" % (name, ka), va[ka], vb[kb], ctx, strand, out, depth)
        return n
    if isinstance(vb, tuple) and (POSLIST.search(base) or (
            depth > 0 and POSSET.search(base) and all(isinstance(x, (int, np.integer)) for x in vb))):
        want = positions_expected(name, vb, ctx)
        if tuple(int(i) for i in va) != want:
            out.append(Mismatch(name, "position list not renumbered through the order", va, want))
        return 1
    if isinstance(vb, (np.ndarray, tuple, list)):
        b = to_array(vb)
        a = to_array(va) if isinstance(va, (np.ndarray, tuple, list)) else None
        if a is None:
            out.append(Mismatch(name, "type differs", type(va).__name__, type(vb).__name__))
            return 1
        if b.ndim == 0:
            if not scalar_eq(a.item(), b.item()):
                out.append(Mismatch(name, "scalar differs", va, vb))
            return 1
        # an empty tuple of the untransformed run tells nothing about the element kind
        cands = expected_views(name, vb, ctx, strand)
        sets = _is_indexset_array(b) or _is_indexset_array(a)
        for how, want in cands:
            if a.shape == want.shape and (_sets_eq(a, want) if sets and want.dtype == object
                                          and _is_indexset_array(want) else arr_eq(a, want)):
                return 1
        how, want = cands[0]
        why = "shape %s, expected %s (%s)" % (a.shape, want.shape, how) if a.shape != want.shape \
            else "values differ from the untransformed output re-indexed by the order (%s)" % how
        out.append(Mismatch(name, why, a, want))
        return 1
    # plain python / numpy scalar
    if not scalar_eq(va, vb):
        out.append(Mismatch(name, "scalar differs", va, vb))
    return 1


def compare_result(name, ra, rb, ctx, strand, out, depth=0):
    if depth > 0 and (ra[0] == "exc" or rb[0] == "exc"):
        return 0
    if ra[0] == "exc" or rb[0] == "exc":
        if ra[0] == "exc" and rb[0] == "exc":
            # undefined in both runs (which guard fires first may depend on the extent)
            return 1
        out.append(Mismatch(name, "exception in %s run only"
                            % ("transformed" if ra[0] == "exc" else "untransformed"),
                            ra[1:] if ra[0] == "exc" else "value",
                            rb[1:] if rb[0] == "exc" else "value"))
        return 1
    return compare_value(name, ra[1], rb[1], ctx, strand, out, depth)


# ------------------------------------------------------------------------------------
# generator
# ------------------------------------------------------------------------------------
import copy  # noqa: E402
from fractions import Fraction  # noqa: E402

from harness import gen  # noqa: E402
from harness.props import order_util as ou  # noqa: E402
from harness.props import c13_util  # noqa: E402

SLICE_MEASURES = ["col_percent", "row_percent", "table_percent", "count_weighted", "count_unweighted",
                  "col_base_weighted", "col_base_unweighted", "row_base_weighted", "table_base_weighted",
                  "z_score", "p_value", "col_index", "col_std_err", "table_std_dev", "population",
                  "population_moe", "row_percent_moe", "mean", "sum", "stddev", "col_share_sum",
                  "row_share_sum", "total_share_sum", "valid_count_weighted"]
UNSUPPORTED_MEASURES = ["median", "smoothed_mean", "pairwise_t_test", "smoothed_col_percent"]
MARGINALS = ["unweighted_base", "weighted_base", "table_proportion", "scale_mean", "scale_mean_stddev",
             "scale_mean_stderr", "scale_median"]
STRAND_MEASURES = ["base_unweighted", "base_weighted", "count_unweighted", "count_weighted", "mean",
                   "percent", "percent_moe", "percent_stddev", "percent_stderr", "population",
                   "population_moe", "share_sum", "sum"]
ENUM_KINDS = ("datetime", "text", "binned")


def make_var(rng, kind, alias):
    if kind == "cat":
        return gen.make_cat(rng, alias, n_valid=rng.randint(1, 5))
    if kind == "cat_date":
        return gen.make_cat(rng, alias, date=True, n_valid=rng.randint(1, 5))
    if kind == "mr":
        v = gen.make_mr(rng, alias, n_items=rng.randint(1, 4))
        if rng.random() < 0.3:
            ou.add_derived_items(rng, v)
        return v
    if kind == "ca":
        return gen.make_ca(rng, alias, n_items=rng.randint(1, 3), n_valid=rng.randint(1, 4))
    return gen.make_enum(rng, alias, kind, n_valid=rng.randint(1, 4))


def dim_ids(v, role):
    """(ids as the order / elements transforms name them, alternative spellings per id)"""
    if role == "items":
        return [it["id"] for it in v.items]
    if role == "cats":
        return gen.valid_cat_ids(v)
    return [e["id"] for e in v.elements if not e["missing"]]


def spell(rng, v, role, i, for_key=False):
    """one of the spellings of element id `i` that the library accepts"""
    if role == "items":
        it = [x for x in v.items if x["id"] == i]
        opts = [i, str(i)]
        if it:
            opts += [it[0]["alias"], it[0]["alias"], it[0]["subvar_id"]]
        x = rng.choice(opts)
        return str(x) if for_key and rng.random() < 0.5 else x
    if for_key:
        return str(i) if rng.random() < 0.7 else i
    return i


def fixed_lists(rng, v, role, ids):
    """order.fixed with repeats, ids named at top AND bottom, stale ids"""
    if not ids or rng.random() < 0.45:
        return None
    out = {}
    for where in ("top", "bottom"):
        if rng.random() < 0.65:
            n = rng.randint(0, min(3, len(ids)))
            lst = rng.sample(ids, n)
            if lst and rng.random() < 0.35:
                lst = lst + [rng.choice(lst)]                 # repeat inside one list
            if rng.random() < 0.15:
                lst.append(999)
            out[where] = [spell(rng, v, role, i) for i in lst]
    if "top" in out and "bottom" in out and out["top"] and rng.random() < 0.3:
        out["bottom"] = out["bottom"] + [rng.choice(out["top"])]   # same id at both ends
    return out or None


def random_order(rng, v, role, axis, strand, opp, opp_role, case):
    """an "order" dict of a random kind for the dimension v/role (axis 0 rows, 1 columns)"""
    ids = dim_ids(v, role)
    r = rng.random()
    direction = rng.choice([None, "ascending", "descending", "descending"])
    d = None
    if r < 0.22:
        lst = ou.random_explicit_ids(rng, ids)
        if role == "items":
            lst = [spell(rng, v, role, i) if i in ids else i for i in lst]
        d = {"type": "explicit", "element_ids": lst}
    elif r < 0.28:
        d = {"type": rng.choice(["payload_order", "payload_order", "no_such_type"])}
    elif r < 0.42:
        d = {"type": "label"}
    elif strand:
        m = rng.choice(STRAND_MEASURES)
        if rng.random() < 0.05:
            m = "no_such_measure"
        d = {"type": "univariate_measure", "measure": m}
    elif r < 0.62:
        oids = dim_ids(opp, opp_role)
        eid = rng.choice(oids + [999]) if oids and rng.random() < 0.9 else 999
        if opp_role == "items" and eid != 999:
            eid = spell(rng, opp, opp_role, eid)
        m = rng.choice(SLICE_MEASURES)
        if rng.random() < 0.04:
            m = rng.choice(UNSUPPORTED_MEASURES + ["no_such_measure"])
            case["malformed"] = True
        d = {"type": "opposing_element", "element_id": eid, "measure": m}
        if rng.random() < 0.03:
            del d["element_id"]
            case["malformed"] = True
    elif r < 0.78:
        m = rng.choice(SLICE_MEASURES)
        d = {"type": "opposing_insertion", "insertion_id": rng.choice([1, 1, 2, 3, 4, 7]), "measure": m}
        if opp_role == "items" and rng.random() < 0.5:
            # derived MR item named as an insertion
            oids = dim_ids(opp, opp_role)
            d["insertion_id"] = spell(rng, opp, opp_role, rng.choice(oids))
    elif r < 0.92 and axis == 0:
        d = {"type": "marginal", "marginal": rng.choice(MARGINALS)}
        if rng.random() < 0.04:
            d["marginal"] = "no_such_marginal"
    else:
        d = {"type": "label"}
    if direction and d["type"] not in ("explicit", "payload_order", "no_such_type"):
        d["direction"] = direction
    if d["type"] not in ("explicit", "payload_order", "no_such_type"):
        fx = fixed_lists(rng, v, role, ids)
        if fx:
            d["fixed"] = fx
    return d


HIDE_VALUES = [True, True, True, True, False, None, 1, 0]


def random_elements(rng, v, role, case):
    ids = dim_ids(v, role)
    els = {}
    for i in ids:
        x = rng.random()
        if x < 0.22:
            key = spell(rng, v, role, i, for_key=True)
            hv = rng.choice(HIDE_VALUES)
            if rng.random() < 0.01:
                hv = "true"
                case["malformed"] = True
            els[key] = {"hide": hv}
            if rng.random() < 0.3:
                els[key]["fill"] = "#%06x" % rng.randrange(1 << 24)
        elif x < 0.30:
            els[spell(rng, v, role, i, for_key=True)] = {"fill": "#%06x" % rng.randrange(1 << 24)}
        elif x < 0.35:
            els[spell(rng, v, role, i, for_key=True)] = {"name": "renamed %s" % i}
    if rng.random() < 0.08:
        els["999"] = {"hide": True}
    return els


def dim_transforms(rng, v, role, axis, strand, opp, opp_role, case):
    t = {}
    els = random_elements(rng, v, role, case)
    if els:
        t["elements"] = els
    if role == "cats":
        hidden = [i for i in gen.valid_cat_ids(v)
                  if any(str(k) == str(i) and isinstance(x, dict) and x.get("hide") for k, x in els.items())]
        r = rng.random()
        if r < 0.55:
            v.view_insertions = ou.random_insertion_list(rng, v, hidden, max_n=3)
        if rng.random() < 0.25:
            t["insertions"] = ou.derive_transform_insertions(rng, v.view_insertions or [], v, hidden)
        # subtotals carry their own fill colour (rows/columns_dimension_fills)
        for lst in (v.view_insertions or [], t.get("insertions") or []):
            for d in lst:
                if isinstance(d, dict) and rng.random() < 0.5:
                    d["fill"] = "#%06x" % rng.randrange(1 << 24)
    if rng.random() < 0.75:
        t["order"] = random_order(rng, v, role, axis, strand, opp, opp_role, case)
    p = rng.random()
    if p < 0.6:
        t["prune"] = True
    elif p < 0.68:
        t["prune"] = rng.choice([False, None, 1, "true"])
    if v.kind == "cat_date" and axis == 1 and rng.random() < 0.4:
        t["smoother"] = {"function": "one_sided_moving_avg", "window": rng.choice([2, 3])}
    return t


def thin_out(rng, sv, variables):
    """empty rows / columns / items (for pruning), weightless categories"""
    for v in variables:
        if v.kind in ("cat", "cat_date"):
            n = len(v.cats)
            dead = set(k for k in range(n) if rng.random() < 0.3)
            alive = [k for k in range(n) if k not in dead] or [0]
            for r in sv.resp:
                if r["ans"][v.alias] in dead:
                    r["ans"][v.alias] = rng.choice(alive)
            if sv.weighted and rng.random() < 0.3:
                z = rng.choice(alive)
                for r in sv.resp:
                    if r["ans"][v.alias] == z:
                        r["w"] = Fraction(0)
        elif v.kind == "mr":
            for k in range(len(v.items)):
                x = rng.random()
                for r in sv.resp:
                    a = r["ans"][v.alias]
                    if x < 0.15:
                        a[k] = gen.MIS
                    elif x < 0.35 and a[k] == gen.SEL:
                        a[k] = gen.OTH
        elif v.kind == "ca":
            for r in sv.resp:
                a = r["ans"][v.alias]
                for k in range(len(a)):
                    if rng.random() < 0.3:
                        a[k] = 0
        elif v.kind in ENUM_KINDS:
            n = len(v.elements)
            dead = set(k for k in range(n) if rng.random() < 0.25)
            alive = [k for k in range(n) if k not in dead] or [0]
            for r in sv.resp:
                if r["ans"][v.alias] in dead:
                    r["ans"][v.alias] = rng.choice(alive)


ROW_KINDS = ["cat", "cat", "cat", "cat_date", "mr", "mr", "datetime", "text", "binned"]


def gen_case(rng, k, all_hidden_p=0.04):
    case = {"k": k, "malformed": False}
    x = rng.random()
    strand = x < 0.22
    three_d = (not strand) and x > 0.93
    if strand:
        kind = rng.choice(["cat", "cat", "cat_date", "mr", "text", "datetime"])
        variables = [make_var(rng, kind, "rowv")]
        roles = [(variables[0], "items" if kind == "mr" else ("cats" if kind in ("cat", "cat_date") else "enum"))]
    elif x < 0.30:
        v = make_var(rng, "ca", "arr")
        variables = [v]
        roles = [(v, "items"), (v, "cats")]
    else:
        rk, ck = rng.choice(ROW_KINDS), rng.choice(ROW_KINDS)
        rv, cv = make_var(rng, rk, "rowv"), make_var(rng, ck, "colv")
        variables = [rv, cv]
        roles = [(rv, "items" if rk == "mr" else ("cats" if rk in ("cat", "cat_date") else "enum")),
                 (cv, "items" if ck == "mr" else ("cats" if ck in ("cat", "cat_date") else "enum"))]
    transforms = {}
    keys = ["rows_dimension", "columns_dimension"]
    for axis, (v, role) in enumerate(roles):
        opp, opp_role = roles[1 - axis] if len(roles) == 2 else (None, None)
        t = dim_transforms(rng, v, role, axis, strand, opp, opp_role, case)
        if t:
            transforms[keys[axis]] = t
    if rng.random() < all_hidden_p:
        # every vector of one dimension hidden
        axis = rng.randrange(len(roles))
        v, role = roles[axis]
        transforms.setdefault(keys[axis], {})["elements"] = {
            str(i): {"hide": True} for i in dim_ids(v, role)}
    if rng.random() < 0.35:
        a, b = rng.choice(c13_util.ALPHAS), rng.choice(c13_util.ALPHAS)
        transforms["pairwise_indices"] = {"alpha": rng.choice([a, [a], [a, b]]),
                                          "only_larger": rng.choice([True, False])}
    tabv = []
    if three_d:
        tabv = [gen.make_cat(rng, "tabv", n_valid=rng.randint(1, 2), n_missing=rng.choice([0, 1]))]
    allvars = tabv + variables
    numvar = "x" if rng.random() < 0.4 else None
    sv = gen.Survey(allvars, rng.choice([0, 3, 8, 15, 30, 50]), rng, numvars=[numvar] if numvar else [],
                    weighted=rng.random() < 0.6, integer_weights=rng.random() < 0.3)
    thin_out(rng, sv, variables)
    aliases = [v.alias for v in allvars]
    measures = ["count"]
    vc = False
    if numvar:
        measures += rng.sample(["mean", "sum", "stddev", "median"], rng.randint(1, 3))
        vc = rng.choice([False, False, True, "unweighted_only"])
    resp = gen.cube_response(sv, aliases, measures=tuple(measures), numvar=numvar, valid_counts=vc)
    if not strand and variables[-1].kind == "mr" and len(variables) == 2 and not three_d \
            and rng.random() < 0.5:
        try:
            c13_util.add_overlaps(resp, sv, aliases, sv.weighted)
            case["overlaps"] = True
        except Exception:  # noqa
            pass
    if sv.weighted and not strand and not three_d and rng.random() < 0.3:
        try:
            c13_util.add_squared_weights(resp, sv, aliases)
        except Exception:  # noqa
            pass
    case.update({"response": resp, "transforms": transforms or None, "strand": strand,
                 "kinds": [v.kind for v in allvars], "three_d": three_d,
                 "population": rng.choice([None, 1000, 2500.5]),
                 "part": (rng.randrange(len(gen.valid_cat_ids(tabv[0]))) if three_d else 0)})
    return case


def replayable(case):
    return {k: case[k] for k in ("k", "response", "transforms", "strand", "kinds", "three_d",
                                 "population", "part", "malformed", "overlaps", "ins_order_class") if k in case}


def partitions(case):
    """(transformed partition, untransformed partition) of a case, or the exception"""
    tr = case["transforms"]
    st = impl.strip_display(tr)
    pop = case.get("population")

    def mk(t):
        def f():
            ps = impl.cube(case["response"], t, population=pop).partitions
            return ps[case.get("part", 0)]
        return impl.guarded(f)
    return mk(tr), mk(st)


# ------------------------------------------------------------------------------------
# the relational oracle on one case
# ------------------------------------------------------------------------------------
SCALE_FROM_DISPLAYED = {
    # output -> axis (0 rows, 1 columns) of the dimension whose numeric values feed it
    # (the four rows_/columns_scale_mean/median_margin scalars were repaired in /repo eed80ace and
    #  must be invariant like every other scalar)
    "columns_scale_mean_pairwise_indices": 0, "columns_scale_mean_pairwise_indices_alt": 0,
    "scale_mean_pairwise_indices": 0, "p_vals_scale_means": 0, "t_stats_scale_means": 0,
}
MARGIN_PROPORTIONS = ("rows_margin_proportion", "columns_margin_proportion")
PAIRWISE_INDEX_ARRAYS = ("pairwise_indices", "pairwise_indices_alt", "pairwise_means_indices",
                         "pairwise_means_indices_alt")


class Issue(object):
    def __init__(self, kind, output, detail, ctx):
        self.kind, self.output, self.detail, self.ctx = kind, output, detail, ctx


def _ints(x):
    return [int(i) for i in x]


def removed_elements(order_a, order_b):
    return sorted(s for s in order_b if s >= 0 and s not in set(order_a))


VALUE_SORT_TYPES = ("label", "marginal", "opposing_element", "opposing_insertion", "univariate_measure")
AXIS_KEYS = ("rows_dimension", "columns_dimension")


def requested_collation(case, axis, stripped=False):
    """'explicit' | 'value-sort' | 'payload' as the transforms of the case ask for on `axis`"""
    if stripped:
        return "payload"
    o = ((case.get("transforms") or {}).get(AXIS_KEYS[axis]) or {}).get("order")
    t = o.get("type") if isinstance(o, dict) else None
    return "explicit" if t == "explicit" else "value-sort" if t in VALUE_SORT_TYPES else "payload"


def _entry(x):
    """canonical spelling of one entry of an order in either format: '3' / 'ins_7'"""
    if isinstance(x, (bytes, np.bytes_)):
        x = x.decode()
    if isinstance(x, (str, np.str_)):
        return str(x).strip()
    return str(int(x))


def check_renderings(case, parts, signed, ctx, strand, res):
    """The display order is REPORTED in two forms: signed indexes and insertion ids
    (`row_order(ORDER_FORMAT.BOGUS_IDS)`).  Both are "the reported order" of the property, so in
    each run and on each axis

      (1) position i of the insertion-id form names what position i of the signed form names: a base
          element's index unchanged, 'ins_<k>' with k the insertion id of the subtotal the negative
          index addresses.  The ids are read from the dimension's own subtotal sequence (the one the
          signed index is an offset into; `_dimensions`: no public way), not from the collator;
      (2) the label displayed at position i is the label of a subtotal whose insertion id is k;
      (3) like every other row-wise / column-wise output, the insertion-id form of the transformed run
          is that of the untransformed run re-indexed by the (signed) order.

    -> coverage keys (for rep.dist)"""
    try:
        from cr.cube.enums import ORDER_FORMAT
        fmt = ORDER_FORMAT.BOGUS_IDS
    except Exception as e:  # noqa
        res["issues"].append(Issue("harness", "ORDER_FORMAT", {"error": repr(e)}, {"sig": "missing-attribute"}))
        return []
    cov = []
    axes = ("row",) if strand else ("row", "column")
    rendered = {}
    for run, part in zip(("transformed", "untransformed"), parts):
        for axis, ax_name in enumerate(axes):
            nm = ax_name + "_order"
            sg = signed[run][axis]
            where = ("strand-" if strand else "slice-") + ax_name + "s"
            coll = requested_collation(case, axis, stripped=(run == "untransformed"))
            sctx = {"sig": "order-renderings-disagree", "output": nm, "run": run}
            r = impl.get(part, nm, fmt)
            res["n"] += 1
            if r[0] != "ok":
                res["issues"].append(Issue("order-rendering", nm + "(BOGUS_IDS)",
                                           {"run": run, "signed": sg, "insertion_id_format_raises": r[1:]}, sctx))
                continue
            got = [_entry(x) for x in r[1]]
            rendered[(run, axis)] = got
            try:
                subs = list(part._dimensions[axis].subtotals)
                ids = [s.insertion_id for s in subs]
                sub_labels = [str(s.label) for s in subs]
            except Exception as e:  # noqa
                res["issues"].append(Issue("harness", nm, {"error": repr(e)}, {"sig": "missing-attribute"}))
                continue
            n_sub = len(ids)
            if any(not (-n_sub <= s) for s in sg):
                continue            # reported as order-out-of-range by the caller
            want = [str(s) if s >= 0 else "ins_%s" % (ids[n_sub + s],) for s in sg]
            shown = [n_sub + s for s in sg if s < 0]
            out_of_def = len(shown) >= 2 and shown != sorted(shown)
            key = "%s %s %s" % (where, coll, "subtotals>=2-not-in-definition-order" if out_of_def
                                else "subtotals>=2-in-definition-order" if len(shown) >= 2
                                else "subtotals<2")
            cov.append("ins-id-order[%s]: %s" % (run, key))
            detail = {"run": run, "axis": ax_name, "requested_collation": coll, "signed": sg,
                      "insertion_ids_in_definition_order": core.jsonable(ids),
                      "insertion_id_format": got, "expected": want,
                      "transforms": (case.get("transforms") or {}).get(AXIS_KEYS[axis])}
            if got != want:
                res["issues"].append(Issue("order-rendering", nm + "(BOGUS_IDS)", detail, sctx))
                continue
            lab = impl.get(part, ax_name + "_labels")
            res["n"] += 1
            if lab[0] == "ok" and len(lab[1]) == len(got):
                for i, (e, lb) in enumerate(zip(got, lab[1])):
                    if not e.startswith("ins_"):
                        continue
                    cands = [l_ for k_, l_ in zip(ids, sub_labels) if "ins_%s" % (k_,) == e]
                    if str(lb) not in cands:
                        d = dict(detail)
                        d.update({"position": i, "label_displayed": str(lb), "labels_of_that_insertion_id": cands})
                        res["issues"].append(Issue("order-rendering", ax_name + "_labels vs " + nm + "(BOGUS_IDS)",
                                                   d, sctx))
                        break
    # (3) relational: re-indexed like every other output
    for axis, ax_name in enumerate(axes):
        ga, gb = rendered.get(("transformed", axis)), rendered.get(("untransformed", axis))
        amap = ctx.rmap if axis == 0 else ctx.cmap
        if ga is None or gb is None or amap is None or any(p is None for p in amap) or len(gb) != len(
                signed["untransformed"][axis]):
            continue
        res["n"] += 1
        want = [gb[p] for p in amap]
        if ga != want:
            res["issues"].append(Issue("order-rendering", ax_name + "_order(BOGUS_IDS)",
                                       {"why": "not the untransformed insertion-id order re-indexed by the order",
                                        "transformed": ga, "untransformed_reindexed": want,
                                        "signed": signed["transformed"][axis]},
                                       {"sig": "order-renderings-disagree", "output": ax_name + "_order",
                                        "run": "relational"}))
    return cov


def gen_insertion_order_case(rng, k):
    """CAT x CAT slice / CAT strand in which every categorical dimension carries 2-3 subtotals whose
    DISPLAY order differs from their DEFINITION order: anchored on distinct categories (or top /
    bottom) and listed in the reverse of the payload order of their anchors, then displayed in payload
    order, under an explicit order (which moves the anchors again) or under a value sort (subtotals
    grouped and sorted by value); ids given / generated / partly given; view or transform insertions;
    hiding and pruning on top."""
    case = {"k": k, "malformed": False, "ins_order_class": True}
    strand = rng.random() < 0.34
    nvars = 1 if strand else 2
    variables = [gen.make_cat(rng, ("rowv", "colv")[a], n_valid=rng.randint(3, 5)) for a in range(nvars)]
    transforms = {}
    for axis, v in enumerate(variables):
        valid = gen.valid_cat_ids(v)
        n_ins = rng.choice([2, 2, 3])
        anchors = rng.sample(valid, min(n_ins, len(valid)))
        anchors.sort(key=valid.index)
        if rng.random() < 0.3:
            anchors[0] = "top"
        if rng.random() < 0.3:
            anchors[-1] = "bottom"
        ids_mode = rng.choice(["all", "all", "none", "some"])
        pool_ids = rng.sample(range(1, 12), len(anchors))
        ins = []
        for j, a in enumerate(anchors):
            pos = rng.sample(valid, rng.randint(1, min(3, len(valid))))
            d = {"function": "subtotal", "name": "%s_sub%d" % (v.alias, j), "anchor": a}
            if rng.random() < 0.6:
                d["args"] = pos
            else:
                d["kwargs"] = {"positive": pos}
                if rng.random() < 0.3:
                    d["kwargs"]["negative"] = rng.sample(valid, 1)
            if ids_mode == "all" or (ids_mode == "some" and rng.random() < 0.5):
                d["id"] = pool_ids[j]
            if rng.random() < 0.5:
                d["fill"] = "#%06x" % rng.randrange(1 << 24)
            ins.append(d)
        r = rng.random()
        if r < 0.6:
            ins.reverse()               # defined in the reverse of the order their anchors display them
        elif r < 0.85:
            rng.shuffle(ins)
        t = {}
        if rng.random() < 0.6:
            v.view_insertions = ins
            if rng.random() < 0.25:
                t["insertions"] = ou.derive_transform_insertions(rng, ins, v, [])
        else:
            t["insertions"] = ins
        kind = ("payload", "explicit", "value-sort")[(k + axis) % 3]
        if kind == "explicit":
            lst = valid[:]
            rng.shuffle(lst)
            if rng.random() < 0.3:
                lst = lst[:rng.randint(1, len(lst))]
            t["order"] = {"type": "explicit", "element_ids": lst}
        elif kind == "value-sort":
            if strand:
                t["order"] = {"type": rng.choice(["label", "univariate_measure"]),
                              "measure": rng.choice(["count_unweighted", "count_weighted", "percent",
                                                     "base_unweighted"])}
            elif rng.random() < 0.3 and axis == 0:
                t["order"] = {"type": "marginal", "marginal": rng.choice(["unweighted_base", "weighted_base"])}
            elif rng.random() < 0.3:
                t["order"] = {"type": "label"}
            else:
                t["order"] = {"type": "opposing_element",
                              "element_id": rng.choice(gen.valid_cat_ids(variables[1 - axis])),
                              "measure": rng.choice(["count_unweighted", "count_weighted", "col_percent",
                                                     "row_percent", "table_percent"])}
            t["order"]["direction"] = rng.choice(["ascending", "descending"])
            if rng.random() < 0.3:
                t["order"]["fixed"] = {rng.choice(["top", "bottom"]): [rng.choice(valid)]}
        elif rng.random() < 0.4:
            t["order"] = {"type": "payload_order"}
        if rng.random() < 0.35:
            t["elements"] = {str(rng.choice(valid)): {"hide": True}}
        if rng.random() < 0.4:
            t["prune"] = True
        transforms[AXIS_KEYS[axis]] = t
    sv = gen.Survey(variables, rng.choice([8, 15, 30, 50]), rng, weighted=rng.random() < 0.5,
                    integer_weights=rng.random() < 0.3)
    if rng.random() < 0.5:
        thin_out(rng, sv, variables)
    resp = gen.cube_response(sv, [v.alias for v in variables])
    case.update({"response": resp, "transforms": transforms, "strand": strand,
                 "kinds": [v.kind for v in variables], "three_d": False, "population": None, "part": 0})
    return case


def check_pair(case, sample_names=None, read_order=None):
    """Run the case with its transforms and with order/hide/prune stripped and compare every
    public output.  -> dict(status, issues=[Issue], n=comparisons, info=...)
    `read_order`: run the read-order leg (check_read_order); None = for every third case number."""
    pa, pb = partitions(case)
    res = {"status": "done", "issues": [], "n": 0, "info": {}}
    if pa[0] == "exc" or pb[0] == "exc":
        if pa[0] == "exc" and pb[0] == "exc" and pa[1] == pb[1]:
            res["status"] = "both-raise"
        elif case.get("malformed") and pb[0] == "ok":
            res["status"] = "malformed-transformed-raises"
        else:
            res["status"] = "partition-exception"
            res["issues"].append(Issue("exception-one-run", "partitions",
                                       {"transformed": pa[1:] if pa[0] == "exc" else "ok",
                                        "untransformed": pb[1:] if pb[0] == "exc" else "ok"},
                                       {"sig": "partition-exception"}))
        return res
    A, B = pa[1], pb[1]
    strand = type(A).__name__ == "_Strand"
    res["info"]["class"] = type(A).__name__
    orders = {}
    for nm in ("row_order",) + (() if strand else ("column_order",)):
        orders[nm] = (impl.get(A, nm), impl.get(B, nm))
    for nm, (ra, rb) in orders.items():
        if ra[0] == "exc" or rb[0] == "exc":
            if ra[0] == "exc" and rb[0] == "exc" and ra[1] == rb[1]:
                res["status"] = "both-raise"
            elif case.get("malformed") and rb[0] == "ok":
                res["status"] = "malformed-transformed-raises"
            else:
                res["status"] = "order-exception"
                res["issues"].append(Issue("exception-one-run", nm,
                                           {"transformed": ra[1:] if ra[0] == "exc" else "ok",
                                            "untransformed": rb[1:] if rb[0] == "exc" else "ok"},
                                           {"sig": "order-exception"}))
            return res
    ro_a, ro_b = _ints(orders["row_order"][0][1]), _ints(orders["row_order"][1][1])
    co_a = co_b = None
    if not strand:
        co_a, co_b = _ints(orders["column_order"][0][1]), _ints(orders["column_order"][1][1])
    ctx = Ctx(ro_a, co_a, ro_b, co_b)
    res["ctx"] = ctx
    res["A"], res["B"] = A, B
    try:
        info = impl.dims_info(B)
    except Exception as e:  # noqa
        res["issues"].append(Issue("harness", "dims_info", {"error": repr(e)}, {"sig": "missing-attribute"}))
        res["status"] = "no-dims"
        return res
    res["info"]["dims"] = info
    # --- the untransformed order lists every element and subtotal exactly once
    for axis, ob in enumerate([ro_b] + ([] if strand else [co_b])):
        n_el, n_sub = info[2 * axis], info[2 * axis + 1]
        if sorted(ob) != list(range(-n_sub, n_el)):
            res["issues"].append(Issue("untransformed-order-incomplete", ("row_order", "column_order")[axis],
                                       {"order": ob, "n_elements": n_el, "n_subtotals": n_sub},
                                       {"sig": "untransformed-order-incomplete"}))
            res["status"] = "incomplete"
            return res
    # --- order_nodup: nothing twice, only -n_subtotals .. n_elements-1
    dup_axes = []
    for axis, oa in enumerate([ro_a] + ([] if strand else [co_a])):
        n_el, n_sub = info[2 * axis], info[2 * axis + 1]
        nm = ("row_order", "column_order")[axis]
        if any(not (-n_sub <= s < n_el) for s in oa):
            res["issues"].append(Issue("order-out-of-range", nm, {"order": oa, "n_elements": n_el,
                                                                   "n_subtotals": n_sub},
                                       {"sig": "order-out-of-range"}))
            res["status"] = "out-of-range"
            return res
        if len(set(oa)) != len(oa):
            res["issues"].append(Issue("order-duplicates", nm,
                                       {"order": oa, "transforms": (case.get("transforms") or {}).get(
                                           ("rows_dimension", "columns_dimension")[axis])},
                                       {"sig": "order-duplicates"}))
            dup_axes.append(axis)
    # --- the order in its other reported form (insertion ids) names the same vectors
    res["info"]["renderings"] = check_renderings(
        case, (A, B), {"transformed": [ro_a] + ([] if strand else [co_a]),
                       "untransformed": [ro_b] + ([] if strand else [co_b])}, ctx, strand, res)
    names = public_outputs(type(A))
    res["info"]["n_outputs"] = len(names)
    res["info"]["uncallable"] = [n for n, k in names if k == "other"]
    empty_display = ctx.nra == 0 or (ctx.nca == 0)
    removed = [removed_elements(ro_a, ro_b)] + ([] if strand else [removed_elements(co_a, co_b)])
    reordered = [ctx.rmap != list(range(ctx.nrb))] + ([] if strand else [ctx.cmap != list(range(ctx.ncb))])

    array_dims = False
    cb = impl.get(B, "columns_base") if not strand else ("ok", None)
    tb = impl.get(B, "table_base") if not strand else ("ok", None)
    if (cb[0] == "ok" and getattr(cb[1], "ndim", 0) == 2) or (tb[0] == "ok" and getattr(tb[1], "ndim", 0) >= 1):
        array_dims = True

    def classify(m):
        """signature context of a mismatch"""
        base = m.name.split(".")[-1].split("(")[0].split("[")[0]
        top = m.name.split(".")[0].split("(")[0].split("[")[0]
        sc = {"sig": "reindex-mismatch", "output": base, "top_output": top}
        if dup_axes:
            # a duplicated vector is double-counted by whatever is computed from the assembled
            # matrices (scale margins, legacy summaries): consequence of the duplicate order
            sc["sig"] = "reindex-mismatch-under-duplicate-order"
            return sc
        if base in SCALE_FROM_DISPLAYED and not strand:
            ax = SCALE_FROM_DISPLAYED[base]
            sc["sig"] = "scale-stat-from-displayed-vectors"
            own = [ro_a, co_a][1 - ax], [ro_b, co_b][1 - ax]
            sc["cause"] = ("nothing-displayed" if empty_display else
                           "numeric-vector-removed" if removed[ax] else
                           "first-opposing-array-vector-changed" if (array_dims and own[0][:1] != own[1][:1])
                           else None)
        elif base in MARGIN_PROPORTIONS and not strand:
            vb = impl.get(B, base)
            two_d = vb[0] == "ok" and getattr(vb[1], "ndim", 0) == 2
            sc["sig"] = "margin-proportion-2d-reassembled" if two_d else sc["sig"]
            sc["display_changed"] = any(reordered) or any(bool(r) for r in removed)
        elif base in PAIRWISE_INDEX_ARRAYS and not strand and ctx.nca == 0 \
                and isinstance(m.got, np.ndarray) and m.got.shape == (0,):
            sc["sig"] = "pairwise-indices-no-columns-1d"
        return sc

    def position_list_raises(name, ra, rb):
        """inserted_* / derived_* / diff_*_idxs are total functions of the display order (Props/C05.v
        C05_inserted_idxs, C05_derived_idxs_slice / _strand, C05_diff_idxs): an exception in either run
        is a failure even when both runs raise alike"""
        if not POSLIST.search(name):
            return False
        bad = [r for r in (ra, rb) if r[0] == "exc"]
        if not bad:
            return False
        axis = 0 if ("row" in name or strand) else 1
        res["issues"].append(Issue("exception", name, {"transformed": ra[1:] if ra[0] == "exc" else "ok",
                                                       "untransformed": rb[1:] if rb[0] == "exc" else "ok",
                                                       "n_elements": info[2 * axis],
                                                       "n_subtotals": info[2 * axis + 1]},
                                   {"sig": "position-list-raises", "output": name}))
        return True

    def one(name, ra, rb):
        if sample_names is not None and name.split("(")[0] not in sample_names:
            return
        if array_dims and (name.startswith("summary_") or name.startswith("pairwise_significance_tests")):
            # the legacy summary t-test divides a 2-D columns base by a 1-D table margin: it raises or
            # broadcasts along the wrong axis depending on the extent - no reference value
            res["info"]["skipped_legacy_on_arrays"] = res["info"].get("skipped_legacy_on_arrays", 0) + 1
            return
        if position_list_raises(name, ra, rb):
            res["n"] += 1
            return
        if rb[0] == "exc" and ra[0] == "ok":
            res["info"]["untransformed_undefined"] = res["info"].get("untransformed_undefined", 0) + 1
            return
        if (ra[0] == "exc" or rb[0] == "exc") and not (ra[0] == "exc" and rb[0] == "exc"):
            if empty_display:
                res["info"]["empty_display_exceptions"] = res["info"].get("empty_display_exceptions", 0) + 1
                return
        mism = []
        res["n"] += compare_result(name, ra, rb, ctx, strand, mism)
        for m in mism:
            res["issues"].append(Issue("reindex", m.name, m.detail(), classify(m)))

    for name, kind in names:
        if name in EXTENT_NAMES or kind in ("order", "other"):
            continue
        if kind in ("prop", "call0"):
            one(name, impl.get(A, name), impl.get(B, name))
        elif kind == "percol":
            for ja, jb in enumerate(ctx.cmap):
                one("%s(%d)" % (name, ja), impl.get(A, name, ja), impl.get(B, name, jb))
    # --- extent outputs
    want_shape = (ctx.nra,) if strand else (ctx.nra, ctx.nca)
    sh = impl.get(A, "shape")
    res["n"] += 1
    if sh[0] != "ok" or tuple(int(x) for x in sh[1]) != want_shape:
        res["issues"].append(Issue("shape", "shape", {"shape": sh[1] if sh[0] == "ok" else sh[1:],
                                                       "orders": want_shape}, {"sig": "shape", "output": "shape"}))
    if strand:
        rc = impl.get(A, "row_count")
        res["n"] += 1
        if rc[0] != "ok" or int(rc[1]) != ctx.nra:
            res["issues"].append(Issue("shape", "row_count", {"row_count": rc[1:], "rows": ctx.nra},
                                       {"sig": "shape", "output": "row_count"}))
    ie = impl.get(A, "is_empty")
    res["n"] += 1
    if ie[0] != "ok" or bool(ie[1]) != any(s == 0 for s in want_shape):
        res["issues"].append(Issue("shape", "is_empty", {"is_empty": ie[1:], "shape": want_shape},
                                   {"sig": "shape", "output": "is_empty"}))
    # payload_order: the untransformed payload order without the base rows that are not displayed
    pa_, pb_ = impl.get(A, "payload_order"), impl.get(B, "payload_order")
    if pa_[0] == "ok" and pb_[0] == "ok":
        res["n"] += 1
        shown = set(s for s in ro_a if s >= 0)
        want = [x for x in pb_[1] if isinstance(x, str) or int(x) in shown]
        got = list(pa_[1])
        if [str(x) for x in got] != [str(x) for x in want]:
            res["issues"].append(Issue("reindex", "payload_order", {"transformed": got, "expected": want},
                                       {"sig": "reindex-mismatch", "output": "payload_order"}))
    res["info"]["removed"] = removed
    res["info"]["reordered"] = reordered
    res["info"]["empty_display"] = empty_display
    # --- the order-dependent outputs do not depend on what was read before them
    if read_order or (read_order is None and int(case.get("k", 0)) % 3 == 0):
        try:
            res["info"]["read_order"] = check_read_order(case, res)
        except Exception as e:  # noqa  (a crash of the leg must be visible, not fatal)
            res["issues"].append(Issue("harness", "check_read_order", {"error": repr(e)}, {"sig": "harness-error"}))
    return res


# ------------------------------------------------------------------------------------
# READ-ORDER LEG: the order-dependent outputs do not depend on what was read before them
# ------------------------------------------------------------------------------------
# "Position i of every row-wise (column-wise) output refers to the same element" and "every ... output equals
# the untransformed output re-indexed by the REPORTED order" are statements about the outputs of one partition,
# whichever of them a caller reads first: an exporter reads the headings (fills, labels, codes, aliases), then
# the position lists, then the order.  The relational oracle above reads the order first and the rest in one
# fixed (alphabetical) sequence on a fresh partition, so an output that is right when read early and wrong
# after another read (a cached order vector edited in place by the read of another output) never shows.
ORDER_DEPENDENT = re.compile(r"^((row|column)_(labels|codes|aliases)|(rows|columns)_dimension_fills|"
                             r"(inserted|derived|diff)_(row|column)_idxs|shape|row_count|payload_order)$")
HEADINGS = re.compile(r"_dimension_fills$|_labels$|_codes$|_aliases$")


def order_dependent_reads(cls):
    """[(key, name, args)] of the outputs C05 aligns with the reported order, by introspection: the heading
    outputs, the position lists, the extent and the order itself in BOTH reported forms; in the sequence an
    exporter reads them (fills, other headings, position lists / extent, orders last)."""
    try:
        from cr.cube.enums import ORDER_FORMAT
        fmt = ORDER_FORMAT.BOGUS_IDS
    except Exception:  # noqa
        fmt = None
    outs = public_outputs(cls)
    props = [n for n, k in outs if k == "prop" and ORDER_DEPENDENT.match(n)]
    rank = lambda n: (0 if n.endswith("_dimension_fills") else 1 if HEADINGS.search(n) else 2, n)  # noqa: E731
    reads = [(n, n, ()) for n in sorted(props, key=rank)]
    for n, k in outs:
        if k == "order":
            reads.append((n, n, ()))
            if fmt is not None:
                reads.append((n + "(BOGUS_IDS)", n, (fmt,)))
    return reads


def _canon_now(r):
    """canonical value of a read, taken IMMEDIATELY (row_order() hands out the cached array itself)"""
    from harness.props import common_cases as cc
    return cc._canon_read(r)


def check_read_order(case, res, shuffled=True):
    """For the transformed and the untransformed run of `case` whose reported order displays a subtotal:

      fresh     every order-dependent output (order_dependent_reads) read as the FIRST read of its own new
                partition;
      exporter  a second partition: the fills first, the other headings, the position lists and the extent,
                the order in both forms last - each value must be the fresh one;
      shuffled  (transformed run, `shuffled`) common_cases.late_reads: EVERY public property of another
                partition read in an order shuffled by the case number, then the outputs - each value must be
                the fresh one; the single earlier reads that change it are named.

    Appends Issues (kind 'read-order') to res["issues"]; -> coverage keys for rep.dist."""
    from harness.props import common_cases as cc
    ctx = res["ctx"]
    strand = ctx.ncb is None
    tr = case["transforms"]
    runs = (("transformed", tr, ctx.ro_a, ctx.co_a), ("untransformed", impl.strip_display(tr), ctx.ro_b, ctx.co_b))
    part, pop = case.get("part", 0), case.get("population")
    cov = []
    for run, t, ro, co in runs:
        axes = [a for a, o in (("row", ro), ("column", co)) if o is not None and any(s < 0 for s in o)]
        if not axes:
            continue
        if run == "untransformed" and t == tr:
            continue                      # nothing to strip: the same partition as the transformed run

        def mk():
            return impl.partition(case["response"], t, k=part, population=pop)
        reads = order_dependent_reads(type(res["A"]))
        fresh = {}
        for key, name, args in reads:
            fresh[key] = impl.get(mk(), name, *args)
        fresh_c = {k: _canon_now(v) for k, v in fresh.items()}
        klass = "%s %s, displayed subtotals on %s" % ("strand" if strand else "slice", run, "+".join(axes))
        cov.append("read-order[exporter: fills first, order last]: " + klass)
        res["n"] += len(reads)
        q = mk()
        n_bad = 0
        first = reads[0][0] if reads else None
        for key, name, args in reads:
            late = _canon_now(impl.get(q, name, *args))
            if late != fresh_c[key] and n_bad < 2:
                n_bad += 1
                res["issues"].append(Issue(
                    "read-order", key,
                    {"why": "the output read after the headings differs from the one read first on a new partition",
                     "run": run, "read_first": first, "schedule": [k for k, _, _ in reads],
                     "fresh": fresh_c[key], "after_earlier_reads": late,
                     "transforms": t},
                    {"sig": "output-depends-on-earlier-reads", "output": key, "run": run, "schedule": "exporter"}))
        if shuffled and run == "transformed":
            cov.append("read-order[late_reads: every public property shuffled, then the outputs]: " + klass)
            names = [k for k, _, a in reads if not a]
            population, late = cc.late_reads({"response": case["response"], "transforms": t, "k": case.get("k", 0)},
                                             names, fresh, k=part)
            res["n"] += len(names)
            for n, a, b, culprits in late[:2]:
                res["issues"].append(Issue(
                    "read-order", n,
                    {"why": "the output read after every other public property (shuffled by the case number) "
                            "differs from the one read first on a new partition", "run": run,
                     "fresh": a, "after_other_reads": b, "population": population,
                     "single_earlier_reads_that_change_it": culprits, "transforms": t},
                    {"sig": "output-depends-on-earlier-reads", "output": n, "run": run, "schedule": "shuffled"}))
    return cov
