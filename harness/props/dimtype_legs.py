# -*- coding: utf-8 -*-
"""Correspondence legs for Model/DimValues.v (workstream `dimtype`): what a Dimension READS OUT of the response
and the transforms, evaluated in Coq (vm_compute) on generated dimension dicts / transforms and compared with
the implementation's own Dimension objects (built the way cube.py builds them: Dimensions.from_dicts, then
Dimension.apply_transforms).

  leg "values"  (C14)  Dimension.numeric_values             vs  numeric_values_jv / numeric_values
  leg "window"  (C20)  Dimension.smoothing_dict(.get(..))   vs  smoother_of / transforms_window / window_of
  leg "labels"  (C05)  element_labels, element_aliases, subtotal_labels, subtotal_aliases, name, description,
                       alias                                vs  element_label / element_alias / subtotal_label /
                                                                subtotal_alias / dimension_name / _description / _alias
  leg "hidden"  (C05)  Elements._hidden_transforms (private; wrapped) vs hidden_transforms

The model definitions take JSON values ([jv] of Base/PyDict.v); the legs render the generated JSON as Gallina terms
(`g_jv`) and decode the model's answer from the token stream of [r_jv].  What the harness itself computes: which
element transforms belong to an element (`elements.get(id, elements.get(str(id), {}))`), which categories are not
missing, and (leg "hidden") the (value.id, element id) pairs - plain dictionary reads.

Hook: `run(rep, prop, tier, seed)` from harness/props/c14.py, c20.py, c05.py (one call each, before rep.finish);
`replay(case)` for a stored case with the key "dimtype_leg".
"""
import copy
import math
import random
from fractions import Fraction

from harness import core, impl

IMPORTS = ("From Coq Require Import List ZArith String QArith.\n"
           "From CC Require Import Base.XQ Base.Ident Base.PyDict Base.Render Model.Smoothing Model.DimValues.\n"
           "Import ListNotations.\n")

LEGS_OF = {"C14": ("values",), "C20": ("window",), "C05": ("labels", "hidden")}
N_QUICK, N_THOROUGH = 60, 900


# ---------------------------------------------------------------------------------------------------------------
# JSON <-> Gallina
# ---------------------------------------------------------------------------------------------------------------
def g_jv(x):
    if x is None:
        return "JNone"
    if isinstance(x, bool):
        return "(JBool %s)" % core.g_bool(x)
    if isinstance(x, int):
        return "(JInt %s)" % core.g_Z(x)
    if isinstance(x, float):
        return "(JFloat %s)" % core.g_xq(x)
    if isinstance(x, str):
        return "(JStr %s)" % core.g_str(x)
    if isinstance(x, (list, tuple)):
        return "(JList %s)" % core.g_list([g_jv(v) for v in x])
    if isinstance(x, dict):
        return "(JDict %s)" % core.g_list(["(%s, %s)" % (g_jv(k), g_jv(v)) for k, v in x.items()])
    raise TypeError("no jv rendering for %r" % (x,))


def g_jdict(d):
    return core.g_list(["(%s, %s)" % (g_jv(k), g_jv(v)) for k, v in d.items()])


def g_ident(x):
    if x is None:
        return "INone"
    if isinstance(x, int) and not isinstance(x, bool):
        return "(IInt %s)" % core.g_Z(x)
    return "(IStr %s)" % core.g_str(x)


def dec_jv(D):
    tag = D.Z()
    if tag == 0:
        return None
    if tag == 1:
        return D.bool()
    if tag == 2:
        return D.Z()
    if tag == 3:
        n = D.Z()
        return "".join(chr(D.Z()) for _ in range(n))
    if tag == 4:
        return ("float", D.xq())
    if tag == 5:
        n = D.Z()
        return [dec_jv(D) for _ in range(n)]
    if tag == 6:
        n = D.Z()
        return ("dict", [(dec_jv(D), dec_jv(D)) for _ in range(n)])
    raise ValueError("bad jv tag %r" % tag)


def dec_ojv(D):
    return ("some", dec_jv(D)) if D.Z() == 1 else None


def same(iv, mv):
    """implementation value vs decoded model value"""
    if isinstance(mv, tuple) and mv and mv[0] == "float":
        if isinstance(iv, bool) or not isinstance(iv, (int, float)):
            return False
        return core.close(float(iv), mv[1])
    if isinstance(mv, tuple) and mv and mv[0] == "dict":
        if not isinstance(iv, dict) or len(iv) != len(mv[1]):
            return False
        return all(same(k, mk) and same(v, mv_) for (k, v), (mk, mv_) in zip(iv.items(), mv[1]))
    if isinstance(mv, list):
        return isinstance(iv, (list, tuple)) and len(iv) == len(mv) and all(same(a, b) for a, b in zip(iv, mv))
    if mv is None:
        return iv is None
    if isinstance(mv, bool):
        return isinstance(iv, bool) and iv == mv
    if isinstance(mv, int):
        if isinstance(iv, bool):
            return False
        if isinstance(iv, float):
            return (not math.isnan(iv)) and iv == mv
        return isinstance(iv, int) and iv == mv
    if isinstance(mv, str):
        return isinstance(iv, str) and iv == mv
    return False


# ---------------------------------------------------------------------------------------------------------------
# generators
# ---------------------------------------------------------------------------------------------------------------
NAMES = ["Alpha", "beta", "Gamma X", "d-4", "", "Echo", "fox", "Golf 7", "h"]


def gen_numeric_value(rng):
    r = rng.random()
    if r < 0.2:
        return "absent"
    if r < 0.4:
        return None
    if r < 0.55:
        return 0
    if r < 0.85:
        return rng.randint(-3, 9)
    return rng.randint(-8, 20) / 4.0


def gen_cat_dim(rng, k):
    n = rng.randint(1, 6)
    ids = rng.sample(range(-1, 12), n)
    cats = []
    for i in ids:
        c = {"id": i}
        r = rng.random()
        if r < 0.8:
            c["name"] = rng.choice(NAMES)
        elif r < 0.9:
            c["name"] = None
        c["missing"] = rng.random() < 0.25
        if rng.random() < 0.1:
            del c["missing"]
        nv = gen_numeric_value(rng)
        if nv != "absent":
            c["numeric_value"] = nv
        cats.append(c)
    refs = {"alias": "var_%d" % (k % 7)}
    if rng.random() < 0.7:
        refs["name"] = rng.choice(NAMES + [None])
    if rng.random() < 0.5:
        refs["description"] = rng.choice(["About it", "", None])
    if rng.random() < 0.3:
        refs["view"] = {"transform": {"insertions": gen_insertions(rng, ids)}}
    return {"references": refs, "type": {"class": "categorical", "ordinal": False, "categories": cats}}


def gen_insertions(rng, ids):
    out = []
    for j in range(rng.randint(0, 3)):
        ins = {"function": "subtotal", "anchor": rng.choice(["top", "bottom"] + list(ids)),
               "args": rng.sample(list(ids), rng.randint(1, len(ids))), "id": j + 1}
        r = rng.random()
        if r < 0.75:
            ins["name"] = rng.choice(NAMES)
        elif r < 0.9:
            ins["name"] = None
        else:
            ins["name"] = rng.choice(NAMES)
            ins["alias"] = "ins_alias_%d" % j
        if rng.random() < 0.2:
            ins["alias"] = rng.choice(["", None, "sub_%d" % j])
        out.append(ins)
    return out


def gen_subvar_dim(rng, k, mr=False):
    n = rng.randint(1, 5)
    els = []
    for i in range(n):
        refs = {"alias": "sv_%d" % i}
        if rng.random() < 0.85:
            refs["name"] = rng.choice(NAMES + [None])
        val = {"id": "%04d" % (i + 1), "references": refs, "derived": False}
        els.append({"id": i + 1, "value": val, "missing": rng.random() < 0.15})
    return {"references": {"alias": "arr_%d" % (k % 5), "name": rng.choice(NAMES), "subreferences": [{"alias": "sv"}]},
            "type": {"class": "enum", "subtype": {"class": "variable"}, "elements": els}}


def gen_transforms(rng, dim, with_smoother=False):
    tr = {}
    defs = dim["type"].get("categories") or dim["type"].get("elements")
    if rng.random() < 0.6:
        el = {}
        for d in defs:
            if rng.random() < 0.6:
                key = d["id"] if rng.random() < 0.3 else str(d["id"])
                x = {}
                r = rng.random()
                if r < 0.75:
                    # (falsy names - None, 0, "", [], False - suppress the label; other non-strings are str()-ed)
                    x["name"] = rng.choice(NAMES + [None, 0, 7, "", [], False, True, 0, None])
                if rng.random() < 0.3:
                    x["hide"] = rng.random() < 0.5
                el[key] = x
        tr["elements"] = el
    if rng.random() < 0.3:
        tr["name"] = rng.choice(NAMES + [None])
    if rng.random() < 0.3:
        tr["description"] = rng.choice(["Other words", "", None])
    if with_smoother or rng.random() < 0.3:
        tr["smoother"] = gen_smoother(rng)
    if "smoother" in tr and tr["smoother"] == "absent":
        del tr["smoother"]
    return tr


def gen_smoother(rng):
    r = rng.random()
    if r < 0.1:
        return "absent"
    if r < 0.2:
        return None
    if r < 0.3:
        return {}
    s = {}
    if rng.random() < 0.6:
        s["function"] = "one_sided_moving_avg"
    r = rng.random()
    if r < 0.2:
        pass
    elif r < 0.35:
        s["window"] = None
    elif r < 0.55:
        s["window"] = 0
    else:
        s["window"] = rng.randint(1, 6)
    return s


def gen_case(leg, rng, k):
    if leg == "values":
        dim = gen_cat_dim(rng, k)
        return {"dimtype_leg": leg, "k": k, "dim": dim, "transforms": gen_transforms(rng, dim)}
    if leg == "window":
        dim = gen_cat_dim(rng, k)
        return {"dimtype_leg": leg, "k": k, "dim": dim, "transforms": gen_transforms(rng, dim, with_smoother=True)}
    if leg == "labels":
        dim = gen_subvar_dim(rng, k) if rng.random() < 0.35 else gen_cat_dim(rng, k)
        tr = gen_transforms(rng, dim)
        if dim["type"]["class"] == "enum":
            # the element transforms of an array dimension are re-keyed by the shim (C19's business): not here
            tr.pop("elements", None)
        if dim["type"]["class"] == "categorical" and rng.random() < 0.3:
            tr["insertions"] = gen_insertions(rng, [c["id"] for c in dim["type"]["categories"]])
        return {"dimtype_leg": leg, "k": k, "dim": dim, "transforms": tr}
    if leg == "hidden":
        dim = gen_subvar_dim(rng, k, mr=True)
        els = dim["type"]["elements"]
        # derived insertion elements: their value.id is the NAME of the insertion
        for j in range(rng.randint(0, 2)):
            nm = "ins %d" % j
            els.insert(rng.randint(0, len(els)),
                       {"id": 100 + j, "value": {"id": nm, "derived": True,
                                                 "references": {"alias": "der_%d" % j, "name": nm, "anchor": "top"}}})
        if rng.random() < 0.5:
            for e in els:
                if rng.random() < 0.5:
                    e["subvar_alias"] = e["value"]["references"]["alias"]
        ins = []
        for j in range(rng.randint(0, 3)):
            d = {"name": rng.choice(["ins 0", "ins 1", "ins 9", "0001"]), "function": "any"}
            r = rng.random()
            if r < 0.5:
                d["hide"] = True
            elif r < 0.7:
                d["hide"] = False
            elif r < 0.8:
                d["hide"] = None
            ins.append(d)
        return {"dimtype_leg": leg, "k": k, "dim": dim, "insertions": ins}
    raise ValueError(leg)


# ---------------------------------------------------------------------------------------------------------------
# the implementation
# ---------------------------------------------------------------------------------------------------------------
def _dimension(case):
    from cr.cube.dimension import Dimensions

    dims = Dimensions.from_dicts([copy.deepcopy(case["dim"])])
    return dims[0].apply_transforms(copy.deepcopy(case.get("transforms") or {}))


def read_impl(case):
    leg = case["dimtype_leg"]
    if leg == "hidden":
        def f():
            from cr.cube.dimension import Elements

            return Elements._hidden_transforms(copy.deepcopy(case["dim"]["type"]["elements"]),
                                               copy.deepcopy(case["insertions"]))
        return {"hidden": impl.guarded(f)}
    d = impl.guarded(lambda: _dimension(case))
    if d[0] != "ok":
        return {"_dimension": d}
    d = d[1]
    names = {"values": ("numeric_values",),
             "window": ("smoothing_dict",),
             "labels": ("element_labels", "element_aliases", "subtotal_labels", "subtotal_aliases", "name",
                        "description", "alias")}[leg]
    return {n: impl.get(d, n) for n in names}


# ---------------------------------------------------------------------------------------------------------------
# the model
# ---------------------------------------------------------------------------------------------------------------
def _defs(case):
    t = case["dim"]["type"]
    return t["categories"] if t["class"] == "categorical" else t["elements"]


def _valid(defs):
    return [d for d in defs if not d.get("missing")]


def _element_id(case, d):
    # the key _build_element_id picks: array elements are identified by their alias (the shim's "subvar_alias")
    if case["dim"]["type"]["class"] == "enum":
        return d.get("value", {}).get("references", {}).get("alias", d["id"])
    return d["id"]


def terms(case):
    leg = case["dimtype_leg"]
    tr = case.get("transforms") or {}
    if leg == "values":
        defs = core.g_list([g_jv(d) for d in _defs(case)])
        return [("values", "r_list r_jv (numeric_values_jv %s) ++ r_vec (numeric_values %s)" % (defs, defs))]
    if leg == "window":
        t = g_jdict(tr)
        return [("window", "r_jv (smoother_of %s) ++ r_oZ (transforms_window %s) ++ r_Z (window_of (transforms_window %s))"
                 % (t, t, t))]
    if leg == "labels":
        ax = tr.get("elements", {})
        labs, als = [], []
        for d in _valid(_defs(case)):
            eid = _element_id(case, d)
            xf = ax.get(eid, ax.get(str(eid), {}))
            labs.append("element_label %s %s" % (g_jdict(xf), g_jdict(d)))
            als.append("element_alias %s" % g_jdict(d))
        refs = g_jdict(case["dim"]["references"])
        t = g_jdict(tr)
        return [("labels",
                 "r_list r_ojv %s ++ r_list r_ojv %s ++ r_jv (dimension_name %s %s) ++ r_jv (dimension_description %s %s)"
                 " ++ r_jv (dimension_alias %s)" % (core.g_list(labs), core.g_list(als), refs, t, refs, t, refs))]
    if leg == "hidden":
        hdefs = core.g_list(["(%s, %s)" % (g_ident(e["value"]["id"]), g_ident(e.get("subvar_alias") or e["id"]))
                             for e in case["dim"]["type"]["elements"]])
        hidden = core.g_list([g_ident(i["name"]) for i in case["insertions"] if i.get("hide", False)])
        return [("hidden", "r_jv (JDict (hidden_transforms %s %s))" % (hdefs, hidden))]
    raise ValueError(leg)


def _subtotal_terms(case, io):
    """subtotal labels: the model reads the insertion dicts the IMPLEMENTATION kept (which insertions are valid
    subtotals is C04 / C07's business); here: the dicts in definition order, transforms before the view"""
    tr = case.get("transforms") or {}
    if case["dim"]["type"]["class"] != "categorical":
        return []
    ins = tr["insertions"] if "insertions" in tr else \
        ((case["dim"]["references"].get("view") or {}).get("transform", {}).get("insertions", []))
    ids = {d["id"] for d in _valid(_defs(case))}
    kept = [i for i in ins if isinstance(i, dict) and i.get("function") == "subtotal" and i.get("hide") is not True
            and {"anchor", "name"} <= set(i) and i.get("args") and ids & set(i["args"])]
    return kept


# ---------------------------------------------------------------------------------------------------------------
# compare
# ---------------------------------------------------------------------------------------------------------------
def _val(r):
    return r[1] if r is not None and r[0] == "ok" else None


def compare(case, io, kind, toks, rep=None):
    fails = []

    def bad(what, impl_v, model_v):
        fails.append({"what": "dimtype:" + what, "impl": core.jsonable(impl_v), "model": core.jsonable(model_v)})

    for name, r in io.items():
        if r is not None and r[0] != "ok":
            fails.append({"what": "dimtype:%s raises" % name, "impl": list(r)})
    if fails:
        return fails
    D = core.Dec(toks)
    if kind == "values":
        mj = D.list(lambda: dec_jv(D))
        mx = D.vec()
        iv = list(_val(io["numeric_values"]))
        if not same(iv, mj):
            bad("numeric_values", iv, mj)
        if len(iv) != len(mx) or not all(core.close(float(a), b) for a, b in zip(iv, mx)):
            bad("numeric_values (numbers)", iv, mx)
    elif kind == "window":
        sm = dec_jv(D)
        raw = D.opt(D.Z)
        w = D.Z()
        sd = _val(io["smoothing_dict"])
        if not same(sd, sm):
            bad("smoothing_dict", sd, sm)
        got = sd.get("window") if isinstance(sd, dict) else "?"
        if got != raw or (got is not None and (isinstance(got, bool) or not isinstance(got, int))):
            bad("smoothing_dict.get('window')", got, raw)
        if (2 if got is None else got) != w:
            bad("window", got, w)
    elif kind == "labels":
        ml = D.list(lambda: dec_ojv(D))
        ma = D.list(lambda: dec_ojv(D))
        mname, mdesc, malias = dec_jv(D), dec_jv(D), dec_jv(D)
        for what, iv, mv in (("element_labels", _val(io["element_labels"]), ml),
                             ("element_aliases", _val(io["element_aliases"]), ma)):
            if len(iv) != len(mv):
                bad(what, iv, mv)
                continue
            for a, b in zip(iv, mv):
                if b is None:
                    if rep is not None:
                        rep.cov["dimtype_label_not_described"] = rep.cov.get("dimtype_label_not_described", 0) + 1
                    continue
                if not same(a, b[1]):
                    bad(what, iv, mv)
                    break
        for what, iv, mv in (("name", _val(io["name"]), mname), ("description", _val(io["description"]), mdesc),
                             ("alias", _val(io["alias"]), malias)):
            if not same(iv, mv):
                bad(what, iv, mv)
    elif kind == "subtotals":
        ml = D.list(lambda: dec_jv(D))
        ma = D.list(lambda: dec_jv(D))
        if not same(list(_val(io["subtotal_labels"])), ml):
            bad("subtotal_labels", _val(io["subtotal_labels"]), ml)
        if not same(list(_val(io["subtotal_aliases"])), ma):
            bad("subtotal_aliases", _val(io["subtotal_aliases"]), ma)
    elif kind == "hidden":
        mv = dec_jv(D)
        iv = _val(io["hidden"])
        if not same(iv, mv):
            bad("_hidden_transforms", iv, mv)
    if not D.done():
        fails.append({"what": "dimtype: tokens left over", "no_impl": True})
    return fails


def case_terms(case, io):
    out = terms(case)
    if case["dimtype_leg"] == "labels" and "_dimension" not in io:
        kept = _subtotal_terms(case, io)
        labs = core.g_list(["subtotal_label %s" % g_jdict(i) for i in kept])
        als = core.g_list(["subtotal_alias %s" % g_jdict(i) for i in kept])
        out.append(("subtotals", "r_list r_jv %s ++ r_list r_jv %s" % (labs, als)))
    return out


def run(rep, prop, tier, seed):
    """all legs of `prop`; violations go to `rep`"""
    legs = LEGS_OF.get(prop, ())
    n = N_QUICK if tier == "quick" else N_THOROUGH
    cases, ios, jobs = [], [], []
    for leg in legs:
        rng = random.Random(seed * 1000003 + sum(ord(c) for c in leg))
        for k in range(n):
            case = gen_case(leg, rng, k)
            io = read_impl(case)
            cases.append(case)
            ios.append(io)
            jobs.append(case_terms(case, io))
    flat = [t for ts in jobs for (_k, t) in ts]
    if not flat:
        return 0
    results, secs = core.run_coq_cases(prop, IMPORTS, flat, tag="dimtype")
    pos = 0
    for case, io, ts in zip(cases, ios, jobs):
        res = results[pos:pos + len(ts)]
        pos += len(ts)
        rep.count_case(case, True)
        rep.dist("dimtype-leg:" + case["dimtype_leg"])
        for (kind, _t), toks in zip(ts, res):
            for f in compare(case, io, kind, toks, rep):
                rep.violation("impl-vs-model", case, f, {"what": f.get("what"), "leg": "dimtype"},
                              failing_input=not f.get("no_impl"))
    rep.cov["dimtype_leg_terms"] = len(flat)
    rep.cov["dimtype_leg_coq_seconds"] = round(secs, 2)
    return len(flat)


def replay(prop, case):
    io = read_impl(case)
    ts = case_terms(case, io)
    results, _ = core.run_coq_cases(prop, IMPORTS, [t for (_k, t) in ts], tag="dimtype_replay")
    fails = []
    for (kind, _t), toks in zip(ts, results):
        fails += compare(case, io, kind, toks)
    return fails


def trusted_base():
    try:
        from harness.translate import x_dimtype
        return x_dimtype.TRUSTED_BASE
    except Exception:  # the translator module is missing / broken: say so instead of failing the check
        return "dimtype translator harness/translate/x_dimtype.py not importable"


def replay_main(prop, case):
    import json

    fails = replay(prop, case)
    for f in fails[:10]:
        print("REPLAY still fails:", json.dumps(core.jsonable(f))[:700])
    if not fails:
        print("REPLAY: no longer fails")
    return 1 if fails else 0
