# -*- coding: utf-8 -*-
"""C18 - results are a pure function of the arguments, whatever the access history.

Obligations: coq/Props/C18.v (models coq/Model/History.v, coq/Model/Shim.v).

The four defects this check found (H2 transforms dict rewritten in place, H3 Cube.inflate and H4
Cube.augment_response editing the caller's response, H5 JSON-text / envelope summary response of an
augmented CubeSet) are REPAIRED in /repo; their streams stay in the generator and must be pure.

Legs of the check
 (a) RELATIONAL ORACLE on the implementation alone, straight from the property text.  A world is
     a set of caller-owned argument objects (responses as dict / {"value": ...} envelope / JSON
     text; transforms dicts) and several Cube / CubeSet objects constructed from THE SAME argument
     objects, some of them mid-schedule.  A random read schedule (permutations, repeats,
     interleavings across partitions and objects) over every public property (enumerated by
     introspection) of Cube, CubeSet, _Slice, _Strand, _Nub is executed; every read must equal the
     same read on a fresh object built from pristine deep copies (arrays NaN-aware and exact,
     exceptions by type).  A failing schedule is shrunk to a minimal read sequence and classified
     statically against the repaired defect classes H2 / H3 / H4 (a regression hint only).
     Forms: the same object built from dict / envelope / JSON text responses must read alike.
 (b) NO MUTATION, checked directly on the implementation after EVERY schedule: the caller's
     transforms dicts are deep-equal (type-aware) to their pristine copies, the caller's responses
     are deep-equal to theirs apart from the subvar_alias / datetime_value annotation of dimension
     elements.  A failing schedule is shrunk as well.
 (c) CORRESPONDENCE of the model evaluated inside Coq (Model/History.v + Model/Shim.v): the caller's
     transforms dict after a history vs arun_dict (= the pristine dict, C18_dicts_unchanged) and the
     translated dict every partition's dimension USES vs arun_shims = shim_xf of the PRISTINE dict
     (also for one dict used with two different dimensions: the former H2 stream), the annotation of
     the response's array dimension dicts (shim_dim_dict), CubeSet inflation (rrun / rrun_state),
     augment_response (augment / a_run / a_run_state).

KEYED stream (seeded change C18-12: the id shim popped the "key" marker out of the CALLER's element
transforms, so the first cube read them as subvariable ids and every later one with the general
cascade).  Added class: element transforms of an array (MR / CA subvariables) dimension that carry
"key": "subvar_id" or "key": "alias" (the marker at any position of the dict), whose ids are mostly
those the marked reading and the general cascade read DIFFERENTLY (an element id / its string / a
position / an alias under "subvar_id", which the strict reading drops; a subvariable id that is also
another item's alias; stale ids), on 2-D array layouts, 3-D CAT x MR x CAT / CAT x CA cubes (several
partitions) and MR / CA-as-0th tabbooks, with ONE transforms object used by two or three Cube /
CubeSet objects built and fully touched ONE AFTER THE OTHER (schedule "sequential").  Oracles: the
ones of legs (a), (b), (c) - every read equals the read on pristine copies, the caller's transforms
are deep-equal to their pristine copy, the dict each dimension uses is shim_xf of the pristine one.
"""
import copy
import json
import random
import time

from harness import core, gen, impl
from harness.props import c18_util as E
from harness.props import c19 as C19
from harness.props import c19_util as U
from harness.props import common_cases as CC

PID = "C18"
IMPORTS = """From Coq Require Import ZArith List Bool String.
From CC Require Import Base.Render Base.Ident Model.Shim Model.History.
Import ListNotations.
Open Scope string_scope."""

STALE = [999, "999", "zz", "0099", -7, "m_i9", "x y", "1x"]

# ------------------------------------------------------------------------------------
# what the transforms of a response refer to (from the RAW JSON, independent of the library)
# ------------------------------------------------------------------------------------


def _is_logical(t):
    cats = t.get("categories", [])
    return any(c.get("selected") for c in cats) and [c.get("id") for c in cats] == [1, 0, -1]


def dim_roles(resp):
    """{"rows_dimension": role, "columns_dimension": role} for a stand-alone Cube on resp;
    role = ("array", adim, raw_dim_index | None) | ("datetime", elements, idx) | ("cat", cats, idx)
         | ("other", None, idx)"""
    dims = resp["result"].get("dimensions", [])
    app = []
    for i, d in enumerate(dims):
        t = d["type"]
        if t["class"] == "categorical":
            if d.get("references", {}).get("subreferences") and _is_logical(t):
                continue                      # MR_CAT is not an apparent dimension
            if d.get("references", {}).get("subreferences"):
                app.append(("cat", t.get("categories", []), i))       # CA_CAT
            else:
                app.append(("cat", t.get("categories", []), i))
        elif t["class"] == "enum":
            sub = t["subtype"]["class"]
            if sub == "variable":
                is_mr = i + 1 < len(dims) and dims[i + 1]["type"]["class"] == "categorical" and \
                    _is_logical(dims[i + 1]["type"]) and \
                    dims[i + 1].get("references", {}).get("alias") == d.get("references", {}).get("alias")
                app.append(("array", U.adim_of_dimension_dict(d, is_mr), i))
            elif sub == "datetime":
                app.append(("datetime", t["elements"], i))
            else:
                app.append(("other", None, i))
        else:
            app.append(("other", None, i))
    if E.shim_numeric_array(resp):
        app.insert(0, ("array", U.adim_of_numarr_measure(resp), None))
    roles = {}
    if len(app) >= 2:
        roles["rows_dimension"], roles["columns_dimension"] = app[-2], app[-1]
    elif len(app) == 1:
        roles["rows_dimension"] = app[0]
    return roles


def rand_ref(rng, role, allow_none=False):
    kind = role[0]
    r = rng.random()
    if kind == "array":
        d = role[1]
        n = len(d["items"])
        if allow_none and r < 0.06:
            return None
        if r < 0.2 or n == 0:
            return rng.choice(STALE)
        k = rng.randrange(n)
        return rng.choice(U.spellings_of_item(d, k))[1]
    if kind == "datetime":
        els = [e for e in role[1] if not isinstance(e["value"], dict)]
        if r < 0.2 or not els:
            return rng.choice([99, "zz", "2031-01"])
        e = rng.choice(els)
        return rng.choice([e["id"], str(e["id"]), e["value"]])
    if kind == "cat":
        cats = role[1]
        if r < 0.15 or not cats:
            return rng.choice([999, "zz"])
        c = rng.choice(cats)
        return rng.choice([c["id"], c["id"], str(c["id"])])
    return rng.choice([0, 1, "0"])


PAYLOADS = [{"hide": True}, {"hide": True}, {"hide": False}, {"name": "Renamed A"}, {"name": "Zed"},
            {"fill": "#aabbcc"}, {"hide": True, "name": "Both"}]


def rand_dim_transforms(rng, role, other_role=None, rich=True):
    """A dimension-transforms dict for one dimension (references in every spelling + stale)."""
    t = {}
    if rng.random() < 0.6:
        e = {}
        for _ in range(rng.randint(1, 3)):
            x = rand_ref(rng, role)
            if x is not None:
                e[x] = copy.deepcopy(rng.choice(PAYLOADS))
        if e:
            t["elements"] = e
    r = rng.random()
    if r < 0.35:
        t["order"] = {"type": "explicit",
                      "element_ids": [rand_ref(rng, role, allow_none=True) for _ in range(rng.randint(0, 4))]}
    elif r < 0.55:
        fixed = {}
        if rng.random() < 0.8:
            fixed["top"] = [rand_ref(rng, role, allow_none=True) for _ in range(rng.randint(0, 2))]
        if rng.random() < 0.6:
            fixed["bottom"] = [rand_ref(rng, role, allow_none=True) for _ in range(rng.randint(0, 2))]
        t["order"] = {"type": "label", "direction": rng.choice(["ascending", "descending"]), "fixed": fixed}
    elif r < 0.7 and other_role is not None and rich:
        t["order"] = {"type": "opposing_element", "element_id": rand_ref(rng, other_role),
                      "measure": rng.choice(["col_percent", "row_percent", "count_unweighted"]),
                      "direction": rng.choice(["ascending", "descending"])}
    elif r < 0.8 and rich:
        t["order"] = {"type": "univariate_measure", "measure": "count_unweighted",
                      "direction": rng.choice(["ascending", "descending"])}
    if rich and rng.random() < 0.15:
        t["prune"] = True
    if rich and rng.random() < 0.12:
        # a smoother spec: mostly the supported function, sometimes one the library rejects (every smoothed
        # read then raises NotImplementedError - each time, not only the first two: seeded change C18-7
        # left the unsmoothed block cached under the smoothed measure's name when the factory raised)
        sm = {"window": rng.choice([2, 3, 0, None, 2])}
        f = rng.random()
        if f < 0.6:
            sm["function"] = "one_sided_moving_avg"
        elif f < 0.9:
            sm["function"] = rng.choice(["two_sided_moving_avg", "exponential", ""])
        t["smoother"] = sm
    if rich and rng.random() < 0.1:
        t["name"] = "Dim renamed"
    if rich and role[0] == "cat" and rng.random() < 0.25:
        # subtotal insertions (sums and DIFFERENCES) on any categorical dimension of any scenario
        ids = [c["id"] for c in role[1] if not c.get("missing")]
        if ids:
            t["insertions"] = [rand_subtotal(rng, ids, j, p_diff=0.5) for j in range(rng.randint(1, 2))]
    return t


def rand_subtotal(rng, ids, j, p_diff=1.0):
    """a subtotal insertion dict on the category ids `ids`; a difference with probability p_diff"""
    pos = rng.sample(ids, rng.randint(1, max(1, len(ids) // 2)))
    d = {"function": "subtotal", "id": j + 1, "name": "sub%d" % j,
         "anchor": rng.choice(["top", "bottom", rng.choice(ids)]), "args": pos}
    if rng.random() < p_diff:
        rest = [c for c in ids if c not in pos] or ids
        neg = rng.sample(rest, rng.randint(1, min(2, len(rest))))
        d["name"] = "diff%d" % j
        d["kwargs"] = {"positive": pos, "negative": neg}
    return d


def rand_transforms(rng, resp, rich=True, p_dim=0.85):
    roles = dim_roles(resp)
    tr = {}
    for key, okey in (("rows_dimension", "columns_dimension"), ("columns_dimension", "rows_dimension")):
        if key in roles and rng.random() < p_dim:
            tr[key] = rand_dim_transforms(rng, roles[key], roles.get(okey), rich)
    if rich and rng.random() < 0.1:
        tr["pairwise_indices"] = {"alpha": [0.05], "only_larger": rng.choice([True, False])}
    return tr


# ------------------------------------------------------------------------------------
# responses
# ------------------------------------------------------------------------------------


def r_array(rng, k):
    return C19.gen_dim_case(rng, k)["response"]


def r_3d(rng, layout=None):
    layout = layout or rng.choice(["cat_mr_cat", "cat_mr_cat", "mr_cat_cat", "cat_cat_cat", "cat_ca", "cat_dt_cat"])
    c0 = gen.make_cat(rng, "t", n_valid=rng.randint(2, 3), n_missing=rng.choice([0, 1]))
    c1 = gen.make_cat(rng, "c", n_valid=rng.randint(1, 3), n_missing=0)
    c2 = gen.make_cat(rng, "e", n_valid=rng.randint(1, 3), n_missing=rng.choice([0, 1]))
    m = U.make_array_var(rng, "m", "mr", rng.randint(2, 4))
    if layout == "cat_mr_cat":
        vs, al = [c0, m, c1], ["t", "m", "c"]
    elif layout == "mr_cat_cat":
        vs, al = [m, c1, c2], ["m", "c", "e"]
    elif layout == "cat_cat_cat":
        vs, al = [c0, c1, c2], ["t", "c", "e"]
    elif layout == "cat_ca":
        ca = U.make_array_var(rng, "m", "ca", rng.randint(2, 3))
        vs, al = [c0, ca], ["t", "m"]
    else:
        dt = gen.make_enum(rng, "d", "datetime", n_valid=rng.randint(2, 4))
        vs, al = [c0, dt, c1], ["t", "d", "c"]
    sv = gen.Survey(vs, rng.randint(8, 20), rng)
    return gen.cube_response(sv, al)


def r_datetime(rng):
    layout = rng.choice(["dt_x_cat", "cat_x_dt", "dt"])
    dt = gen.make_enum(rng, "d", "datetime", n_valid=rng.randint(1, 4))
    cat = gen.make_cat(rng, "c", n_valid=rng.randint(1, 3), n_missing=0)
    vs, al = {"dt_x_cat": ([dt, cat], ["d", "c"]), "cat_x_dt": ([cat, dt], ["c", "d"]),
              "dt": ([dt], ["d"])}[layout]
    sv = gen.Survey(vs, rng.randint(5, 12), rng)
    return gen.cube_response(sv, al)


def r_mr_x_mr(rng):
    a = U.make_array_var(rng, "m", "mr", rng.randint(1, 3))
    b = U.make_array_var(rng, "q", "mr", rng.randint(1, 3))
    sv = gen.Survey([a, b], rng.randint(6, 16), rng)
    return gen.cube_response(sv, ["m", "q"])


def r_general(rng, k):
    """CAT / CAT_DATE / MR / CA slices and strands with insertions (view or transforms)"""
    case = CC.gen_slice_case(rng, k, n_resp=(4, 25))
    return case["response"], case["transforms"]


def r_any(rng, k):
    r = rng.random()
    if r < 0.45:
        return r_array(rng, k), None
    if r < 0.62:
        return r_3d(rng), None
    if r < 0.72:
        return r_datetime(rng), None
    if r < 0.8:
        return r_mr_x_mr(rng), None
    return r_general(rng, k)


def same_dims_other_data(rng, resp):
    """A second response with the SAME dimension dicts and other numbers."""
    r2 = copy.deepcopy(resp)
    res = r2["result"]
    res["counts"] = [max(0, int(c) + rng.randint(0, 3)) if isinstance(c, (int, float)) else c
                     for c in res["counts"]]
    for m in res.get("measures", {}).values():
        m["data"] = [(x + rng.randint(0, 3)) if isinstance(x, (int, float)) else x for x in m["data"]]
    return r2


def numeric_responses(rng, n_cols):
    """0-D numeric (mean) response + 1-D CAT responses of the same numeric measure."""
    cats = [gen.make_cat(rng, "c%d" % j, n_valid=rng.randint(1, 3), n_missing=rng.choice([0, 1]))
            for j in range(n_cols)]
    sv = gen.Survey(cats, rng.randint(6, 14), rng, numvars=["nv"])
    meas = rng.choice([("mean",), ("mean", "sum"), ("sum",), ("mean", "stddev")])
    out = [gen.cube_response(sv, [], measures=meas, numvar="nv", valid_counts=rng.random() < 0.3)]
    for c in cats:
        out.append(gen.cube_response(sv, [c.alias], measures=meas, numvar="nv",
                                     valid_counts=rng.random() < 0.3))
    return out


def tabbook_responses(rng, k, kind=None):
    """rows variable alone + rows x column variables (CAT / MR / CA-as-0th rows)."""
    kind = kind or rng.choice(["cat", "mr", "mr", "ca"])
    if kind == "cat":
        rowv = gen.make_cat(rng, "rowv", n_valid=rng.randint(2, 4), n_missing=rng.choice([0, 1]))
    else:
        rowv = U.make_array_var(rng, "rowv", kind, rng.randint(2, 3))
    cols = []
    for j in range(rng.randint(1, 2)):
        if rng.random() < 0.6:
            cols.append(gen.make_cat(rng, "col%d" % j, n_valid=rng.randint(1, 3), n_missing=0))
        else:
            cols.append(U.make_array_var(rng, "col%d" % j, "mr", rng.randint(1, 3)))
    sv = gen.Survey([rowv] + cols, rng.randint(8, 18), rng)
    out = [gen.cube_response(sv, ["rowv"])]
    for c in cols:
        out.append(gen.cube_response(sv, ["rowv", c.alias]))
    return out, kind


def text_dim(vals, ids=None, with_missing=True):
    ids = list(range(len(vals))) if ids is None else ids
    els = [{"id": i, "missing": False, "value": v} for i, v in zip(ids, vals)]
    if with_missing:
        els.append({"id": -1, "missing": True, "value": {"?": -1}})
    return {"references": {"alias": "t", "name": "T"}, "derived": False,
            "type": {"class": "enum", "elements": els,
                     "subtype": {"class": "text", "missing_reasons": {"No Data": -1}, "missing_rules": {}}}}


def text_resp(vals, counts, single=False, ids=None, with_missing=True):
    r = {"query": {}, "result": {"counts": list(counts), "element": "crunch:cube",
                                 "measures": {"count": {"data": list(counts), "metadata": {}, "n_missing": 0}},
                                 "dimensions": [text_dim(vals, ids, with_missing)], "n": sum(counts), "missing": 0}}
    if single:
        r["result"]["is_single_col_cube"] = True
    return r


def augment_pair(rng, odd=False):
    n = rng.randint(2, 6)
    vals = ["v%d" % i for i in range(n)]
    if rng.random() < 0.2:
        vals = [10 + i for i in range(n)]
    ids = None
    if odd:
        ids = rng.choice([list(range(1, n + 1)), list(range(n))[::-1], [i * 2 for i in range(n)],
                          list(range(-n, 0))])
    wm = rng.random() < 0.85
    s = text_resp(vals, [rng.randint(0, 9) for _ in range(n)] + ([0] if wm else []), ids=ids, with_missing=wm)
    sub = [v for v in vals if rng.random() < 0.6] or vals[:1]
    if len(sub) == n and rng.random() < 0.7:
        sub = sub[:-1]
    if odd and rng.random() < 0.5:
        rng.shuffle(sub)
    wm2 = rng.random() < 0.85
    f = text_resp(sub, [rng.randint(1, 9) for _ in sub] + ([0] if wm2 else []), single=True, with_missing=wm2)
    return s, f


# ------------------------------------------------------------------------------------
# worlds
# ------------------------------------------------------------------------------------


def rand_form(rng):
    r = rng.random()
    return "dict" if r < 0.72 else "envelope" if r < 0.86 else "text" if r < 0.96 else "text_envelope"


def cube_spec(rng, r, t):
    return {"kind": "cube", "r": r, "t": t,
            "population": rng.choice([None, None, 1000, 75]), "mask": rng.choice([0, 0, 0, 5, 30]),
            "cube_idx": None}


def set_spec(rng, rs, ts):
    return {"kind": "set", "rs": list(rs), "ts": list(ts), "population": rng.choice([None, 1000]),
            "min_base": rng.choice([0, 0, 10])}


def w_single(rng, k):
    """1-3 cubes on the same (response, transforms) objects"""
    resp, tr0 = r_any(rng, k)
    tr = rand_transforms(rng, resp)
    if tr0:
        for key, v in tr0.items():
            tr.setdefault(key, {}).update(copy.deepcopy(v))
    world = {"responses": [resp], "forms": [rand_form(rng)], "transforms": [tr, rand_transforms(rng, resp)],
             "objects": [], "scenario": "single"}
    for _ in range(rng.randint(1, 3)):
        world["objects"].append(cube_spec(rng, 0, rng.choice([0, 0, 0, 1, None])))
    return world


def w_same_dims(rng, k):
    """two responses with the same dimensions, ONE transforms dict for both"""
    resp, _t = r_any(rng, k)
    r2 = same_dims_other_data(rng, resp)
    world = {"responses": [resp, r2], "forms": [rand_form(rng), rand_form(rng)],
             "transforms": [rand_transforms(rng, resp)], "objects": [], "scenario": "same-dims"}
    for _ in range(rng.randint(2, 3)):
        world["objects"].append(cube_spec(rng, rng.choice([0, 1]), 0))
    world["objects"][0]["r"], world["objects"][1]["r"] = 0, 1
    return world


def w_tabbook(rng, k):
    rs, kind = tabbook_responses(rng, k)
    forms = [rand_form(rng) for _ in rs]
    own = rng.random() < 0.6
    ts = []
    transforms = []
    for i, r in enumerate(rs):
        if own or i == 0:
            transforms.append(rand_transforms(rng, r, rich=rng.random() < 0.7))
            ts.append(len(transforms) - 1)
        else:
            # the same dict object for every cube: only the (shared) rows dimension is referenced
            t = {"rows_dimension": rand_dim_transforms(rng, dim_roles(rs[0])["rows_dimension"], None, False)} \
                if i == 1 else None
            if t is not None:
                transforms.append(t)
            ts.append(len(transforms) - 1)
    world = {"responses": rs, "forms": forms, "transforms": transforms, "objects": [],
             "scenario": "tabbook-" + kind}
    world["objects"].append(set_spec(rng, range(len(rs)), ts))
    if rng.random() < 0.6:
        world["objects"].append(set_spec(rng, range(len(rs)), ts))
    for _ in range(rng.randint(0, 2)):
        i = rng.randrange(len(rs))
        world["objects"].append(cube_spec(rng, i, ts[i]))
    # (stand-alone cubes on a CA-as-0th tabbook use the SAME transforms dict with another
    # dimension mapping: since the repair of H2 that is as pure as anything else)
    return world


def w_numeric_set(rng, k, violate=False):
    rs = numeric_responses(rng, rng.randint(1, 2))
    n = len(rs)
    extra = numeric_responses(rng, 1)
    rs = rs + extra
    forms = ["dict" if rng.random() < (0.8 if violate else 0.6) else rand_form(rng) for _ in rs]
    transforms = [{} if rng.random() < 0.5 else {"rows_dimension": {"name": "N"}} for _ in rs]
    world = {"responses": rs, "forms": forms, "transforms": transforms, "objects": [],
             "scenario": "numeric-set" + ("-shared(former-H3)" if violate else "")}
    world["objects"].append(set_spec(rng, range(n), range(n)))
    if violate:
        forms[0] = "dict"
        r = rng.random()
        if r < 0.4:
            world["objects"].append(cube_spec(rng, rng.choice(range(n)), None))
        elif r < 0.75:
            world["objects"].append(set_spec(rng, [0, n + 1], [0, n + 1]))
        else:
            # the same CubeSet twice, but one of its responses is JSON text (never edited)
            forms[1] = "text"
            world["objects"].append(set_spec(rng, range(n), range(n)))
    else:
        if rng.random() < 0.7:
            world["objects"].append(set_spec(rng, range(n), range(n)))
        if rng.random() < 0.5:
            world["objects"].append(cube_spec(rng, rng.choice([n, n + 1]), None))
            world["objects"].append(cube_spec(rng, rng.randrange(len(rs)), None))
        else:
            # a second numeric-measure set on its own responses, possibly twice
            world["objects"].append(set_spec(rng, [n, n + 1], [n, n + 1]))
            if rng.random() < 0.5:
                world["objects"].append(set_spec(rng, [n, n + 1], [n, n + 1]))
    return world


def w_augment(rng, k, violate=False):
    s, f = augment_pair(rng)
    rs = [s, f]
    if rng.random() < 0.4:
        rs.append(augment_pair(rng)[1])
    forms = ["dict"] + [("dict" if (violate or rng.random() < 0.7) else rng.choice(["envelope", "text"]))
                        for _ in rs[1:]]
    world = {"responses": rs, "forms": forms, "transforms": [{} for _ in rs], "objects": [],
             "scenario": "augment" + ("-shared(former-H4)" if violate else "")}
    idx = list(range(len(rs)))
    world["objects"].append(set_spec(rng, idx, idx))
    if violate:
        world["objects"].append(cube_spec(rng, 1, None))
    else:
        if rng.random() < 0.7:
            world["objects"].append(set_spec(rng, idx, idx))
        world["objects"].append(cube_spec(rng, 0, None))
    return world


def w_h2(rng, k):
    """ONE transforms dict for two cubes whose array dimensions differ (the former H2 stream)"""
    layout = rng.choice(["mr_x_cat", "cat_x_mr", "ca", "mr"])
    a = C19.gen_dim_case(rng, k, layout=layout, n_items=rng.randint(2, 4), plain=True)
    b = C19.gen_dim_case(rng, k + 1, layout=layout, n_items=rng.randint(2, 4), plain=True)
    # other aliases in b
    dd = b["response"]["result"]["dimensions"][b["cube_dim"] if layout != "cat_x_mr" else 1]
    for el in dd["type"]["elements"]:
        el["value"]["references"]["alias"] = "z_" + el["value"]["references"]["alias"]
    d = a["adim"]
    key = a["akey"]
    j = rng.randrange(len(d["items"]))
    x = rng.choice([sp for rule, sp in U.spellings_of_item(d, j) if rule != "alias"])
    t = {key: rng.choice([{"elements": {x: {"hide": True}}},
                          {"order": {"type": "explicit", "element_ids": [x]}},
                          {"elements": {x: {"name": "Renamed"}}}])}
    world = {"responses": [a["response"], b["response"]], "forms": ["dict", "dict"], "transforms": [t],
             "objects": [cube_spec(rng, 0, 0), cube_spec(rng, 1, 0)], "scenario": "shared-dict-two-dims(former-H2)"}
    return world


def cat_response(rng, row_ids, col_ids, n_missing=1):
    rowv = gen.make_cat(rng, "rowv", n_valid=len(row_ids), n_missing=n_missing, ids=list(row_ids) + [-1] * n_missing,
                        missing_anywhere=False, numeric="all")
    colv = gen.make_cat(rng, "colv", n_valid=len(col_ids), n_missing=0, ids=list(col_ids), numeric="all")
    sv = gen.Survey([rowv, colv], rng.randint(10, 30), rng)
    return gen.cube_response(sv, ["rowv", "colv"]), rowv, colv


def w_shared_insertions(rng, k):
    """ONE transforms dict with subtotal insertions (ids absent / partly present) for cubes whose
    dimensions have DIFFERENT sets of valid categories: an insertion that is stale for one cube
    (refers only to categories it does not have) is valid for another"""
    n_small = rng.randint(2, 4)
    n_big = n_small + rng.randint(1, 3)
    small, big = list(range(1, n_small + 1)), list(range(1, n_big + 1))
    cols = list(range(1, rng.randint(2, 3) + 1))
    r_small, _v, _c = cat_response(rng, small, cols, n_missing=rng.choice([0, 1]))
    r_big, _v, _c = cat_response(rng, big, cols, n_missing=rng.choice([0, 1]))
    only_big = [c for c in big if c not in small]
    ins = []
    with_ids = rng.choice([False, False, "some", True])
    for j in range(rng.randint(2, 4)):
        r = rng.random()
        pool = only_big if r < 0.4 else small if r < 0.8 else big
        args = rng.sample(pool, rng.randint(1, min(2, len(pool))))
        d = {"function": "subtotal", "name": "ins%d" % j,
             "anchor": rng.choice(["top", "bottom", rng.choice(big)]), "args": args}
        if rng.random() < 0.3:
            d["kwargs"] = {"positive": args}
        if with_ids is True or (with_ids == "some" and rng.random() < 0.5):
            d["id"] = 10 + j
        ins.append(d)
    rng.shuffle(ins)
    t = {"rows_dimension": {"insertions": ins}}
    if rng.random() < 0.3:
        t["columns_dimension"] = {"insertions": [{"function": "subtotal", "name": "cins", "anchor": "bottom",
                                                  "args": cols[:2]}]}
    rs = [r_small, r_big] if rng.random() < 0.6 else [r_big, r_small]
    world = {"responses": rs, "forms": [rand_form(rng), rand_form(rng)], "transforms": [t],
             "objects": [cube_spec(rng, 0, 0), cube_spec(rng, 1, 0)], "scenario": "shared-insertions"}
    if rng.random() < 0.4:
        world["objects"].append(cube_spec(rng, rng.choice([0, 1]), 0))
    return world


def w_diff_subtotals(rng, k):
    """a CAT x CAT slice, a CAT strand or a CAT_DATE strand (1-D cube) with DIFFERENCE subtotals
    (kwargs.negative) on rows and / or columns, defined in the transforms or on the variable VIEW;
    usually with a population, weighted or not"""
    layout = rng.choice(["slice", "slice", "strand", "strand", "strand", "date-strand"])
    rows = list(range(1, rng.randint(3, 5) + 1))
    cols = list(range(1, rng.randint(2, 4) + 1))

    def diff(ids, j):
        return rand_subtotal(rng, ids, j, p_diff=1.0)

    def row_insertions():
        ins = [diff(rows, j) for j in range(rng.randint(1, 2))]
        if rng.random() < 0.4:
            ins.append({"function": "subtotal", "id": 7, "name": "plain", "anchor": "top", "args": rows[:2]})
        return ins

    t = {}
    if layout == "slice":
        resp, rowv, colv = cat_response(rng, rows, cols, n_missing=rng.choice([0, 1]))
        where = rng.choice(["rows", "columns", "both"])
        if where in ("rows", "both"):
            t["rows_dimension"] = {"insertions": row_insertions()}
        if where in ("columns", "both"):
            t["columns_dimension"] = {"insertions": [diff(cols, j) for j in range(rng.randint(1, 2))]}
    else:
        n_missing = rng.choice([0, 1])
        rowv = gen.make_cat(rng, "rowv", n_valid=len(rows), n_missing=n_missing, ids=rows + [-1] * n_missing,
                            missing_anywhere=False, numeric=rng.choice(["all", "partial", None]),
                            date=(layout == "date-strand"))
        if rng.random() < 0.35:
            rowv.view_insertions = row_insertions()          # differences defined on the variable
            if rng.random() < 0.3:
                t["rows_dimension"] = {"insertions": row_insertions()}
        else:
            t["rows_dimension"] = {"insertions": row_insertions()}
        sv = gen.Survey([rowv], rng.randint(10, 30), rng)
        resp = gen.cube_response(sv, ["rowv"])
    if "rows_dimension" in t and rng.random() < 0.25:
        # a sort by value reads the sort key's measure before anything else is asked for
        if layout == "slice":
            t["rows_dimension"]["order"] = {
                "type": "opposing_element", "element_id": rng.choice(cols),
                "measure": rng.choice(["population", "population", "col_percent", "table_percent"]),
                "direction": rng.choice(["ascending", "descending"])}
        else:
            t["rows_dimension"]["order"] = {
                "type": "univariate_measure",
                "measure": rng.choice(["population", "population", "table_percent", "count_unweighted"]),
                "direction": rng.choice(["ascending", "descending"])}
    world = {"responses": [resp], "forms": [rand_form(rng)], "transforms": [t], "objects": [],
             "scenario": "difference-subtotals:" + layout}
    for _ in range(rng.randint(1, 2)):
        spec = cube_spec(rng, 0, 0)
        spec["population"] = rng.choice([9000, 1000, 75, 1000, None])
        world["objects"].append(spec)
    return world


def keyed_elements(rng, d, mode, prefer=None):
    """element transforms of array dimension d carrying "key": mode ("subvar_id" | "alias"): ids mostly
    those the marked reading and the general cascade read differently; the marker at any position"""
    n = len(d["items"])
    marked = "svid" if mode == "subvar_id" else "alias"
    refs = [] if prefer is None else [prefer]
    for _ in range(rng.randint(1, 3)):
        r = rng.random()
        sp = U.spellings_of_item(d, rng.randrange(n)) if n else []
        own = [x for rule, x in sp if rule == marked]
        others = [x for rule, x in sp if rule != marked]
        if r < 0.35 and own:
            refs.append(own[0])
        elif r < 0.88 and others:
            refs.append(rng.choice(others))
        else:
            refs.append(rng.choice(STALE))
    items = []
    for x in refs:
        if x is not None and not any(type(x) is type(y) and x == y for y, _p in items) and x != "key":
            items.append((x, copy.deepcopy(rng.choice(PAYLOADS[:5]))))
    items.insert(rng.randint(0, len(items)), ("key", mode))
    return dict(items)


def collide_alias_with_svid(rng, resp, raw_idx):
    """give one subvariable the alias that is ANOTHER one's subvariable id (in the raw response);
    returns that id or None"""
    if raw_idx is None:
        return None
    els = resp["result"]["dimensions"][raw_idx]["type"]["elements"]
    cand = [i for i, el in enumerate(els) if isinstance(el.get("value"), dict) and
            isinstance(el["value"].get("id"), str) and "alias" in (el["value"].get("references") or {})
            and "anchor" not in el["value"]["references"]]
    if len(cand) < 2 or len(cand) != len(els):
        return None
    j, k = rng.sample(cand, 2)
    svid = els[k]["value"]["id"]
    if any(el["value"]["references"]["alias"] == svid for el in els):
        return None
    els[j]["value"]["references"]["alias"] = svid
    return svid


def w_keyed(rng, k):
    """ONE transforms object whose array-dimension element transforms carry a "key" marker, used by
    two or three Cube / CubeSet objects (module docstring, KEYED stream)"""
    shape = rng.choice(["2d", "2d", "3d", "tabbook"])
    mode = "subvar_id" if rng.random() < 0.75 else "alias"
    tkind = None
    if shape == "2d":
        layout = rng.choice(["mr_x_cat", "cat_x_mr", "ca", "mr", "cat_x_ca"])
        rs = [C19.gen_dim_case(rng, k, layout=layout, n_items=rng.randint(2, 4),
                               plain=rng.random() < 0.5)["response"]]
    elif shape == "3d":
        rs = [r_3d(rng, rng.choice(["cat_mr_cat", "cat_ca"]))]
    else:
        tkind = rng.choice(["mr", "ca"])
        rs, _kind = tabbook_responses(rng, k, kind=tkind)
    collided = None
    if shape != "tabbook" and mode == "subvar_id" and rng.random() < 0.4:
        for key, role in dim_roles(rs[0]).items():
            if role[0] == "array" and collided is None:
                collided = collide_alias_with_svid(rng, rs[0], role[2])
    roles = dim_roles(rs[0])
    t = {}
    for key, okey in (("rows_dimension", "columns_dimension"), ("columns_dimension", "rows_dimension")):
        role = roles.get(key)
        if role is None:
            continue
        if role[0] == "array" and role[1]["items"]:
            t[key] = rand_dim_transforms(rng, role, roles.get(okey), rich=False) if rng.random() < 0.4 else {}
            t[key]["elements"] = keyed_elements(rng, role[1], mode, prefer=collided)
        elif rng.random() < 0.3:
            t[key] = rand_dim_transforms(rng, role, roles.get(okey), rich=False)
    world = {"responses": rs, "forms": [rand_form(rng) for _ in rs], "transforms": [t], "objects": [],
             "scenario": "keyed-elements:%s:%s%s" % (mode, shape if tkind is None else "tabbook-" + tkind,
                                                     "+alias=other-svid" if collided is not None else "")}
    if shape == "tabbook":
        ts = [0] * len(rs)
        world["objects"].append(set_spec(rng, range(len(rs)), ts))
        if rng.random() < 0.6:
            world["objects"].append(set_spec(rng, range(len(rs)), ts))
        for _ in range(rng.randint(0 if len(world["objects"]) > 1 else 1, 2)):
            world["objects"].append(cube_spec(rng, rng.randrange(len(rs)), 0))
    else:
        for _ in range(rng.randint(2, 3)):
            world["objects"].append(cube_spec(rng, 0, 0))
    return world


SCENARIOS = [(w_single, 31), (w_same_dims, 11), (w_tabbook, 21), (w_numeric_set, 7), (w_augment, 5),
             (lambda rng, k: w_numeric_set(rng, k, True), 5), (lambda rng, k: w_augment(rng, k, True), 4),
             (w_h2, 5), (w_shared_insertions, 5), (w_diff_subtotals, 10)]


def gen_world(rng, k):
    total = sum(w for _f, w in SCENARIOS)
    r = rng.uniform(0, total)
    for f, w in SCENARIOS:
        if r < w:
            return f(rng, k)
        r -= w
    return SCENARIOS[0][0](rng, k)


# ------------------------------------------------------------------------------------
# schedules
# ------------------------------------------------------------------------------------


def gen_schedule(rng, world, probes, n_reads):
    n_obj = len(world["objects"])
    birth = {0: 0}
    for k in range(1, n_obj):
        birth[k] = 0 if rng.random() < 0.3 else rng.randint(1, max(1, n_reads - 2))
    sched = []
    made = set()
    history = []
    for step in range(n_reads):
        for k in range(n_obj):
            if k not in made and birth[k] <= step:
                sched.append(["new", k])
                made.add(k)
        if history and rng.random() < 0.15:
            sched.append(copy.deepcopy(rng.choice(history)))
            continue
        k = rng.choice(sorted(made))
        target, cls = rng.choice(probes[k])
        if rng.random() < 0.03:
            target = ["part", 7] if target[0] != "pset" else ["pset", 0, 9]
        reads = E.READS[cls]
        if rng.random() < 0.4:
            hot = [r for r in reads if r[0] in E.HOT[cls]]
            name, args = rng.choice(hot or reads)
        else:
            name, args = rng.choice(reads)
        op = ["read", k, list(target), name, list(args)]
        sched.append(op)
        history.append(op)
    if history and rng.random() < 0.35:
        # one read made so far, four times in a row: the same read gives the same result (value or
        # exception) however often it is repeated
        op = rng.choice(history)
        sched += [copy.deepcopy(op) for _ in range(4)]
    if history and rng.random() < 0.5:
        # every distinct read made so far once more, after all the others, in another order: finds a
        # read that edits the value another one cached, whatever the pair
        seen, again = set(), []
        for op in history:
            key = json.dumps(op)
            if key not in seen:
                seen.add(key)
                again.append(copy.deepcopy(op))
        rng.shuffle(again)
        sched += again
    # the end-of-schedule re-read sweep: EVERY public read of every strand the schedule touched (and
    # of one touched slice / nub / object in a third of the schedules), whatever was read before
    touched = []
    for op in history:
        key = (op[1], json.dumps(op[2]))
        if key not in touched:
            touched.append(key)
    cls_of = {(k, json.dumps(list(t))): c for k in probes for t, c in probes[k]}
    others = []
    for key in touched:
        c = cls_of.get(key)
        if c == "_Strand":
            sched += full_sweep(rng, key[0], json.loads(key[1]), c)
        elif c is not None:
            others.append((key, c))
    if others and rng.random() < 0.33:
        key, c = rng.choice(others)
        sched += full_sweep(rng, key[0], json.loads(key[1]), c)
    for k in range(n_obj):
        if k not in made:
            sched.append(["new", k])
    return sched


def gen_repeats(rng, world, probes):
    """every object built first; then, on one target per object, a handful of reads (the smoothed ones
    first when the class has any) each made FOUR times in a row: a read gives the same result - value or
    exception - however often it is repeated (seeded change C18-7: the third failing read returned a value)"""
    sched = [["new", k] for k in range(len(world["objects"]))]
    for k in sorted(probes):
        if not probes[k]:
            continue
        target, cls = rng.choice(probes[k])
        reads = list(E.READS[cls])
        smoothed = [r for r in reads if "smoothed" in r[0]]
        rng.shuffle(smoothed)
        picks = smoothed[:3] + rng.sample(reads, min(3, len(reads)))
        for name, args in picks:
            for _ in range(4):
                sched.append(["read", k, list(target), name, list(args)])
    return sched


# read FAMILIES of a partition (by the words of the property name): a schedule in 'families' mode reads
# all of one family before any of another one, for a random ORDERED pair of families (so, over the
# worlds, population before proportions and proportions before population, counts before bases ...)
FAMILY_WORDS = [("population", ("population",)),
                ("proportion", ("proportion", "percentage")),
                ("error", ("std", "moe", "zscore", "pval", "significance", "pairwise")),
                ("scale", ("scale_", "mean", "median", "sums", "share", "index", "smoothed")),
                ("base", ("base", "margin", "counts", "count")),
                ("order", ("order", "labels", "codes", "idxs", "aliases", "fills", "shape", "is_empty"))]


def family_of(name):
    for fam, words in FAMILY_WORDS:
        if any(w in name for w in words):
            return fam
    return "other"


def full_sweep(rng, k, target, cls):
    """every public read of one target, once, in random order"""
    reads = [["read", k, list(target), n, list(a)] for n, a in E.READS[cls]]
    rng.shuffle(reads)
    return reads


def gen_families(rng, world, probes):
    """all reads of family X, then all reads of family Y (X, Y a random ordered pair), then EVERY
    public read of the target in random order (the re-read sweep)"""
    n_obj = len(world["objects"])
    k = rng.randrange(n_obj)
    parts = [pc for pc in probes[k] if pc[0][0] != "self"]
    strands = [pc for pc in parts if pc[1] == "_Strand"]
    pool = strands if strands and rng.random() < 0.6 else parts
    target, cls = rng.choice(pool) if pool else rng.choice(probes[k])
    fams = {}
    for n, a in E.READS[cls]:
        fams.setdefault(family_of(n), []).append(["read", k, list(target), n, list(a)])
    names = sorted(fams)
    x = rng.choice(names)
    y = rng.choice([f for f in names if f != x] or names)
    if "population" in fams and "proportion" in fams and rng.random() < 0.3:
        # the pair of the seeded change C03-4, in either direction
        x, y = rng.choice([("population", "proportion"), ("proportion", "population")])
    first, second = copy.deepcopy(fams[x]), copy.deepcopy(fams[y])
    rng.shuffle(first)
    rng.shuffle(second)
    sched = [["new", k]] + first + second + full_sweep(rng, k, target, cls)
    for j in range(n_obj):
        if j != k:
            sched.append(["new", j])
    return sched, "%s-before-%s" % (x, y), cls


def gen_sweep(rng, world, probes):
    """every public read of one target (and of its cube / set object) in random order, twice:
    finds a property that edits what another one cached, whatever the pair"""
    n_obj = len(world["objects"])
    k = rng.randrange(n_obj)
    parts = [pc for pc in probes[k] if pc[0][0] != "self"]
    # mostly a partition (that is where most of the cached state lives), sometimes the cube / set itself
    target, cls = rng.choice(parts) if parts and rng.random() < 0.8 else rng.choice(probes[k])
    reads = [["read", k, list(target), n, list(a)] for n, a in E.READS[cls]]
    if target[0] != "self" and rng.random() < 0.5:
        reads += [["read", k, ["self"], n, list(a)] for n, a in E.READS[probes[k][0][1]]]
    first = list(reads)
    rng.shuffle(first)
    second = copy.deepcopy(reads)
    rng.shuffle(second)
    sched = [["new", k]] + first
    others = [j for j in range(n_obj) if j != k]
    if others and rng.random() < 0.6:
        j = rng.choice(others)
        t2, c2 = rng.choice(probes[j])
        sched.append(["new", j])
        sched += [["read", j, list(t2), n, list(a)] for n, a in rng.sample(E.READS[c2], min(10, len(E.READS[c2])))]
    sched += second
    for j in range(n_obj):
        if not any(op[0] == "new" and op[1] == j for op in sched):
            sched.append(["new", j])
    return sched


def gen_sequential(rng, world, probes):
    """the objects built ONE AFTER THE OTHER: object k is constructed, every dimension of every
    partition of it is forced and a few more reads are made, before object k + 1 is constructed from
    the same argument objects; finally the labels / counts of all of them once more"""
    sched = []
    touch = touch_ops(world, probes)
    for k in range(len(world["objects"])):
        sched.append(["new", k])
        mine = [copy.deepcopy(op) for op in touch if op[1] == k]
        sched += mine
        for _ in range(rng.randint(0, 4)):
            if probes[k]:
                target, cls = rng.choice(probes[k])
                name, args = rng.choice(E.READS[cls])
                sched.append(["read", k, list(target), name, list(args)])
    again = [copy.deepcopy(op) for op in touch]
    rng.shuffle(again)
    return sched + again


def touch_ops(world, probes):
    """reads that force every dimension of every partition of every object to be built"""
    ops = []
    for k in range(len(world["objects"])):
        for target, cls in probes[k]:
            if cls == "_Slice":
                ops += [["read", k, target, n, []] for n in ("row_labels", "column_labels", "counts")]
            elif cls == "_Strand":
                ops += [["read", k, target, n, []] for n in ("row_labels", "counts")]
            elif cls == "_Nub":
                ops += [["read", k, target, "unweighted_count", []]]
    return ops


# ------------------------------------------------------------------------------------
# (c) correspondence of the model (Model/History.v, Model/Shim.v)
# ------------------------------------------------------------------------------------


def model_ok_tdim(tdim):
    e, ids, top, bot = U.xf_parts(tdim)
    xs = list((e or {}).keys()) + list(ids or []) + list(top or []) + list(bot or [])
    if e is not None and not isinstance(e, dict):
        return False
    return all(U.in_model_ident(x) for x in xs)


def model_ok_adim(d):
    for it in d["items"]:
        for f in ("eid", "svid", "aref"):
            if it[f] != U.ABSENT and not U.in_model_ident(it[f]):
                return False
    return True


strip_shim_fields = E.strip_shim_fields


def used_dict(obj, key):
    """the translated transforms dict the dimension `key` of partition 0 of a Cube USES
    (Dimension._dimension_transforms_dict of the partition's own Dimension object - private, there
    is no public way to observe it): ("ok", dict) | ("exc", ExceptionTypeName) | ("missing-attr", msg)"""
    try:
        part = obj.partitions[0]
        dims = part._dimensions
    except AttributeError as e:
        return ("missing-attr", str(e))
    except Exception as e:  # noqa
        return ("exc", type(e).__name__)
    dim = dims[0] if (key == "rows_dimension" or len(dims) == 1) else dims[1]
    if not hasattr(type(dim), "_dimension_transforms_dict"):
        return ("missing-attr", "Dimension._dimension_transforms_dict")
    r = impl.guarded(lambda: dim._dimension_transforms_dict)
    return ("ok", r[1]) if r[0] == "ok" else ("exc", r[1])


def rest_of(tdim):
    """the part of a dimension-transforms dict the translation does not touch"""
    out = {kk: vv for kk, vv in (tdim or {}).items() if kk not in ("elements", "order")}
    order = (tdim or {}).get("order")
    if isinstance(order, dict):
        out["order"] = {kk: vv for kk, vv in order.items() if kk not in ("element_ids", "fixed")}
        if isinstance(order.get("fixed"), dict):
            out["order.fixed"] = {kk: vv for kk, vv in order["fixed"].items() if kk not in ("top", "bottom")}
    return out


class Corr(object):
    """collects Coq terms + the implementation-side observations to compare them with"""

    def __init__(self):
        self.terms = []
        self.checks = []      # (kind, decode-and-compare closure data)

    def add(self, term, kind, data):
        self.terms.append(term)
        self.checks.append((kind, data))


def canon_used(u, pay):
    return ["ok", U.canon_xf(u[1], pay)] if u[0] == "ok" else list(u)


def corr_world(rep, corr, world, probes, schedule):
    """after schedule + touch-all, for every stand-alone Cube of the world: the caller's dicts and the
    translated dict its partition uses vs the model"""
    full = schedule + touch_ops(world, probes)
    _out, R, T, objs = E.run_shared(world, full)
    for k, spec in enumerate(world["objects"]):
        if spec["kind"] != "cube" or k not in objs:
            continue
        ri, tj = spec["r"], spec.get("t")
        resp0 = world["responses"][ri]
        roles = dim_roles(resp0)
        if not any(cls in ("_Slice", "_Strand") for _t, cls in probes[k]):
            continue
        part_cls = [cls for _t, cls in probes[k] if cls in ("_Slice", "_Strand")][0]
        # (c1) transforms dict: the caller's afterwards, the one the dimension uses
        if tj is not None:
            for key in ("rows_dimension", "columns_dimension"):
                if key == "columns_dimension" and part_cls == "_Strand":
                    continue
                role = roles.get(key)
                t0 = world["transforms"][tj].get(key)
                if role is None or role[0] != "array" or not isinstance(t0, dict):
                    continue
                if not model_ok_tdim(t0) or not model_ok_adim(role[1]):
                    rep.dist("c1-skipped-outside-model")
                    continue
                pay = U.Payloads()
                gd = U.g_adim(role[1])
                gts = "(dicts_of [%s])" % U.g_xf(t0, pay)
                gops = "[New %s 0%%nat; Read 0%%nat PElems; Read 0%%nat POrder]" % gd
                term = "(r_shims (arun_shims %s %s) ++ r_xf (arun_dict %s %s 0%%nat))%%list" % (gts, gops, gts, gops)
                u = used_dict(objs[k], key)
                corr.add(term, "b1", {"world": world, "schedule": schedule, "key": key, "tj": tj, "obj": k,
                                      "impl_caller": U.canon_xf(T[tj].get(key), pay),
                                      "impl_used": [canon_used(u, pay)],
                                      "rest_same": u[0] != "ok" or E.same(rest_of(u[1]), rest_of(t0))})
        # (c2) the response's dimension dicts: the annotation that stays in place
        form = world["forms"][ri]
        if form not in ("dict", "envelope"):
            continue
        after = R[ri] if form == "dict" else R[ri]["value"]
        for di, d in enumerate(resp0["result"]["dimensions"]):
            t = d["type"]
            if t["class"] != "enum":
                continue
            sub = t["subtype"]["class"]
            els_after = after["result"]["dimensions"][di]["type"]["elements"]
            if sub == "datetime":
                exp = [el["value"] if not isinstance(el["value"], dict) else None for el in t["elements"]]
                got = [el.get("datetime_value") for el in els_after]
                rep.dist("c2-datetime-dim")
                if got != exp and any(g is not None for g in got):
                    rep.violation("impl-vs-model", {"world": world, "schedule": schedule, "leg": "response"},
                                  {"what": "datetime_value fields", "impl": got, "expected": exp},
                                  {"what": "response-dict", "cause": "other"})
            elif sub == "variable":
                ad = U.adim_of_dimension_dict(d, False)
                if not model_ok_adim(ad):
                    continue
                got = [el.get("subvar_alias", U.ABSENT) for el in els_after]
                if all(g == U.ABSENT for g in got):
                    continue            # this dimension was never evaluated by the history
                els = core.g_list(["(%s, None)" % U.g_item(it) for it in ad["items"]])
                corr.add("r_idents (map build_element_id (shim_dim_dict %s))" % els, "b2",
                         {"world": world, "schedule": schedule, "impl": got})


def corr_h2(rep, corr, rng, k):
    """the former H2 stream: cube A fully read, then cube B on the same transforms dict"""
    corr_h2_case(corr, w_h2(rng, k))


def corr_h2_case(corr, world):
    probes = {i: E.probe_targets(world, i) for i in range(2)}
    sched = [["new", 0]] + [op for op in touch_ops(world, probes) if op[1] == 0] + [["new", 1]] + \
            [op for op in touch_ops(world, probes) if op[1] == 1]
    _out, R, T, objs = E.run_shared(world, sched)
    key = list(world["transforms"][0].keys())[0]
    da = dim_roles(world["responses"][0])[key][1]
    db = dim_roles(world["responses"][1])[key][1]
    pay = U.Payloads()
    t0 = world["transforms"][0][key]
    gts = "(dicts_of [%s])" % U.g_xf(t0, pay)
    gops = "[New %s 0%%nat; Read 0%%nat PElems; New %s 0%%nat; Read 1%%nat PElems]" % (U.g_adim(da), U.g_adim(db))
    term = "(r_shims (arun_shims %s %s) ++ r_xf (arun_dict %s %s 0%%nat))%%list" % (gts, gops, gts, gops)
    used = [canon_used(used_dict(objs[i], key), pay) for i in range(2)]
    corr.add(term, "b3", {"world": world, "schedule": sched, "impl_caller": U.canon_xf(T[0].get(key), pay),
                          "impl_used": used, "rest_same": True,
                          "args_changed": E.args_changed(world, R, T)})


KIND_NAME = {0: "_Nub", 1: "_Strand", 2: "_Slice"}


def corr_rops(rep, corr, rng, k):
    """random MkCube / MkSet histories over shared responses (numeric sets included)"""
    rs = numeric_responses(rng, rng.randint(1, 2)) + numeric_responses(rng, 1)
    if rng.random() < 0.5:
        # a 2-D response with a mean
        c1 = gen.make_cat(rng, "a", n_valid=2, n_missing=0)
        c2 = gen.make_cat(rng, "b", n_valid=2, n_missing=0)
        sv = gen.Survey([c1, c2], 10, rng, numvars=["nv"])
        rs.append(gen.cube_response(sv, ["a", "b"], measures=("mean",), numvar="nv"))
    n = len(rs)
    ops = []
    for _ in range(rng.randint(2, 5)):
        if rng.random() < 0.4:
            ops.append(["cube", [rng.randrange(n)]])
        else:
            first = rng.choice([0, 0, rng.randrange(n)])
            l = [first] + [rng.randrange(n) for _ in range(rng.randint(0, 2))]
            if rng.random() < 0.7:
                l = list(dict.fromkeys(l))
            ops.append(["set", l])
    corr_rops_case(corr, rs, ops)


def corr_rops_case(corr, rs, ops):
    n = len(rs)
    R = copy.deepcopy(rs)
    got = []
    for kind, l in ops:
        if kind == "cube":
            r = impl.guarded(lambda: [type(impl.Cube(R[l[0]]).partitions[0]).__name__])
        else:
            r = impl.guarded(lambda: [type(p).__name__ for p in
                                      impl.CubeSet([R[i] for i in l], [{} for _ in l], None, 0).partition_sets[0]])
        got.append(r[1] if r[0] == "ok" else ["exc", r[1]])
    nd_after = [len(r["result"]["dimensions"]) for r in R]
    g_ops = core.g_list(["MkCube %s" % core.g_nat(l[0]) if kind == "cube"
                         else "MkSet %s" % core.g_list([core.g_nat(i) for i in l]) for kind, l in ops])
    g_r0 = "(ndims_of %s)" % core.g_list([core.g_nat(len(r["result"]["dimensions"])) for r in rs])
    term = "(r_pkinds (rrun %s %s) ++ r_natl (map (rrun_state %s %s) (seq 0%%nat %d%%nat)))%%list" % (
        g_r0, g_ops, g_r0, g_ops, n)
    corr.add(term, "b4", {"responses": rs, "ops": ops, "impl_kinds": got, "impl_ndims": nd_after,
                          "unchanged": all(E.same(a, E.strip_shim_fields(b)) for a, b in zip(rs, R))})


def g_aresp(r):
    res = r["result"]
    els = res["dimensions"][0]["type"]["elements"]
    ge = core.g_list(["(%s, %s)" % (U.g_ident(el["id"]),
                                    "None" if not isinstance(el.get("value"), (int, str)) or isinstance(el.get("value"), bool)
                                    else "(Some %s)" % U.g_ident(el["value"])) for el in els])
    return "(mk_aresp %s %s)" % (core.g_list([core.g_Z(int(c)) for c in res["counts"]]), ge)


def corr_augment(rep, corr, rng, k):
    s, f = augment_pair(rng, odd=rng.random() < 0.35)
    ops = [rng.choice(["set", "set", "cube"]) for _ in range(rng.randint(1, 4))]
    corr_augment_case(corr, s, f, ops)


def corr_augment_case(corr, s, f, ops):
    """CubeSet([S, F]) / Cube(F) sequences on the SAME response objects: the counts (valid elements,
    public API) each operation reports vs a_run; the caller's responses afterwards vs a_run_state"""
    S, F = copy.deepcopy(s), copy.deepcopy(f)
    outs = []
    for op in ops:
        if op == "set":
            r = impl.guarded(lambda: [int(x) for x in
                                      impl.CubeSet([S, F], [{}, {}], None, 0).partition_sets[0][1].counts])
        else:
            r = impl.guarded(lambda: [int(x) for x in impl.Cube(F).partitions[0].counts])
        outs.append(r[1] if r[0] == "ok" else None)
    g_ops = core.g_list(["ASet" if o == "set" else "ACube" for o in ops])
    gs, gf = g_aresp(s), g_aresp(f)
    term = ("(r_lst (r_option r_zs) (a_run %s %s %s) ++ r_aresp (a_run_state %s %s %s) ++ "
            "r_option r_aresp (augment %s %s))%%list") % (gs, gf, g_ops, gs, gf, g_ops, gf, gs)
    corr.add(term, "b5", {"summary": s, "filter": f, "ops": ops, "impl_outs": outs,
                          "impl_after": {"counts": list(F["result"]["counts"]),
                                         "elements": [(el["id"], el["value"] if isinstance(el.get("value"), (int, str)) else None)
                                                      for el in F["result"]["dimensions"][0]["type"]["elements"]]},
                          "unchanged": E.same(s, S) and E.same(f, F)})


def dec_b(kind, toks):
    d = U.Dec(toks)
    if kind in ("b1", "b3"):
        shims = d.list(lambda: d.opt(d.xf))
        return [None if x is None else U.model_xf_canon(x) for x in shims], U.model_xf_canon(d.xf())
    if kind == "b2":
        return d.idents()
    if kind == "b4":
        kinds = d.list(lambda: d.list(d.Z))
        nds = d.list(d.Z)
        return kinds, nds
    if kind == "b5":
        aresp = lambda: (d.list(d.Z), d.list(lambda: (d.ident(), d.opt(d.ident))))  # noqa: E731
        runs = d.list(lambda: d.opt(lambda: d.list(d.Z)))
        state = aresp()
        aug = d.opt(aresp)
        return runs, state, aug
    raise ValueError(kind)


def valid_counts(counts, elems):
    return [int(c) for c, e in zip(counts, elems) if e[1] is not None]


def finish_corr(rep, corr):
    if not corr.terms:
        return 0.0
    results, secs = core.run_coq_cases(PID, IMPORTS, corr.terms, tag="corr")
    for (kind, data), toks in zip(corr.checks, results):
        model = dec_b(kind, toks)
        rep.cov["evaluations"] += 1
        rep.dist("corr-" + kind)
        if kind in ("b1", "b3"):
            shims, caller = model
            case = {"world": data["world"], "schedule": data["schedule"], "leg": kind}
            if any(u[0] == "missing-attr" for u in data["impl_used"]):
                rep.violation("harness-cannot-observe", case,
                              {"what": "Dimension._dimension_transforms_dict is gone", "impl": data["impl_used"]},
                              {"what": "transforms-dict", "cause": "other"}, failing_input=False)
                continue
            if data["impl_caller"] != caller or data.get("args_changed"):
                rep.violation("impl-vs-model", case,
                              {"what": "caller's transforms dict after the history (model: the pristine one)",
                               "impl": data["impl_caller"], "model": caller, "changed": data.get("args_changed")},
                              {"what": "transforms-dict", "cause": "other"})
            exp = [["ok", x] if x is not None else None for x in shims]
            got = data["impl_used"]
            bad = len(exp) != len(got) or any(
                (e is None and g[0] != "exc") or (e is not None and g != e) for e, g in zip(exp, got))
            if bad or not data["rest_same"]:
                rep.violation("impl-vs-model", case,
                              {"what": "translated transforms dict the partition's dimension uses "
                                       "(model: shim_xf of the PRISTINE dict)",
                               "impl": got, "model": exp, "untranslated_part_same": data["rest_same"]},
                              {"what": "used-transforms-dict", "cause": "other"})
        elif kind == "b2":
            if data["impl"] != model:
                rep.violation("impl-vs-model", {"world": data["world"], "schedule": data["schedule"], "leg": kind},
                              {"what": "subvar_alias fields of the caller's response", "impl": data["impl"],
                               "model": model}, {"what": "response-dict", "cause": "other"})
        elif kind == "b4":
            kinds, nds = model
            mk = [[KIND_NAME[x] for x in l] for l in kinds]
            if mk != data["impl_kinds"] or nds != data["impl_ndims"] or not data["unchanged"]:
                rep.violation("impl-vs-model", {"leg": "b4", "responses": data["responses"], "ops": data["ops"]},
                              {"what": "partition kinds / the caller's responses after CubeSet histories "
                                       "(model: unchanged)",
                               "impl": [data["impl_kinds"], data["impl_ndims"], data["unchanged"]],
                               "model": [mk, nds, True]},
                              {"what": "inflate", "cause": "other"})
        elif kind == "b5":
            runs, state, aug = model
            f_elems = state[1]
            ok = data["unchanged"]
            for op, got, m in zip(data["ops"], data["impl_outs"], runs):
                if (got is None) != (m is None):
                    ok = False
                elif got is not None:
                    elems = f_elems if (op == "cube" or aug is None) else aug[1]
                    if got != valid_counts(m, elems):
                        ok = False
            if [int(x) for x in data["impl_after"]["counts"]] != state[0] or \
                    [tuple(e) for e in data["impl_after"]["elements"]] != [tuple(e) for e in state[1]]:
                ok = False
            if not ok:
                rep.violation("impl-vs-model", {"leg": "b5", "summary": data["summary"], "filter": data["filter"],
                                                "ops": data["ops"]},
                              {"what": "augment_response: counts reported by each CubeSet / Cube and the "
                                       "caller's responses afterwards (model: unchanged)",
                               "impl": [data["impl_outs"], data["impl_after"], data["unchanged"]],
                               "model": [runs, state, aug]},
                              {"what": "augment", "cause": "other"})
    return secs


# ------------------------------------------------------------------------------------
# forms: dict / envelope / JSON text
# ------------------------------------------------------------------------------------


def snapshot(world, k, forms):
    w2 = dict(world, forms=forms)
    out = {}
    R, T = E.build_args(w2)
    obj = E.construct(world["objects"][k], R, T)
    targets = E.probe_targets(w2, k)
    out["targets"] = [[t, c] for t, c in targets]
    for t, c in targets:
        for name, args in E.READS[c]:
            if name in E.HOT[c]:
                out[json.dumps([t, name])] = E.do_read(obj, t, name, args)
    return out


def forms_oracle(rep, world, k):
    n = len(world["responses"])
    base = snapshot(world, k, ["dict"] * n)
    spec = world["objects"][k]
    for form in ("envelope", "text", "text_envelope"):
        other = snapshot(world, k, [form] * n)
        rep.cov["evaluations"] += 1
        rep.dist("forms-pair")
        if other != base:
            key = next(kk for kk in sorted(set(base) | set(other)) if base.get(kk) != other.get(kk))
            cause = "other"
            if spec["kind"] == "set" and len(spec["rs"]) > 1 and form != "dict" and any(
                    world["responses"][i]["result"].get("is_single_col_cube") for i in spec["rs"][1:]):
                # augment_response is handed the RAW first argument (text / envelope)
                cause = "H5-augment-summary-not-a-plain-dict"
            rep.violation("forms-differ", {"world": dict(world, objects=[spec]), "schedule": [["new", 0]],
                                           "form": form, "leg": "forms"},
                          {"read": key, "dict": base.get(key), form: other.get(key)}, {"cause": cause})
            return


# ------------------------------------------------------------------------------------
# the run
# ------------------------------------------------------------------------------------


def world_shapes(world, probes):
    """distribution keys: stand-alone cubes with difference subtotals (transforms or view) by partition
    class, with / without a population"""
    out = set()
    for k, spec in enumerate(world["objects"]):
        if spec["kind"] != "cube":
            continue
        t = world["transforms"][spec["t"]] if spec.get("t") is not None else {}
        dims = world["responses"][spec["r"]]["result"].get("dimensions", [])
        views = [(d.get("references", {}).get("view") or {}).get("transform", {}).get("insertions") for d in dims]
        has_tins = any("insertions" in (t.get(key) or {}) for key in ("rows_dimension", "columns_dimension"))
        txt = json.dumps([t.get("rows_dimension"), t.get("columns_dimension")] + ([] if has_tins and not any(views) else views))
        if '"negative"' not in txt:
            continue
        for _t, c in probes[k]:
            if c in ("_Slice", "_Strand"):
                out.add("world:%s+difference-subtotal%s" % (
                    c, "+population" if spec.get("population") is not None else ""))
    return sorted(out)


def check_world(rep, world, rng, n_reads, corr=None, do_forms=False):
    probes = {k: E.probe_targets(world, k) for k in range(len(world["objects"]))}
    if n_reads == "sweep":
        sched = gen_sweep(rng, world, probes)
        rep.dist("schedule=sweep")
    elif n_reads == "families":
        sched, pair, fcls = gen_families(rng, world, probes)
        rep.dist("schedule=families")
        rep.dist("families:%s" % pair)
        if fcls == "_Strand":
            rep.dist("families-on-strand")
        if pair in ("population-before-proportion", "proportion-before-population"):
            rep.dist("families:%s:%s" % (pair, fcls))
    elif n_reads == "repeat":
        sched = gen_repeats(rng, world, probes)
        rep.dist("schedule=repeat")
    elif n_reads == "sequential":
        sched = gen_sequential(rng, world, probes)
        rep.dist("schedule=sequential")
    else:
        sched = gen_schedule(rng, world, probes, n_reads)
        rep.dist("schedule=random")
    fresh = E.Fresh(world)
    bad, changed = E.evaluate(world, sched, fresh)
    n_read_ops = sum(1 for op in sched if op[0] == "read")
    rep.cov["evaluations"] += n_read_ops
    rep.count_case({"w": world, "s": sched}, len(world["objects"]) > 1 or n_read_ops > 5)
    rep.dist("scenario=" + world["scenario"])
    for key in world_shapes(world, probes):
        rep.dist(key)
    for f in set(world["forms"]):
        rep.dist("form=" + f)
    for k in probes:
        for _t, c in probes[k]:
            rep.dist("target=" + c)
    if bad:
        minimal = E.shrink(world, sched, fresh)
        mb = E.mismatches(world, minimal, fresh)
        cause = E.classify(world, minimal)
        i, got, exp = (mb or bad)[0]
        op = (minimal if mb else sched)[i]
        rep.violation("history-differs", {"world": world, "schedule": minimal if mb else sched, "leg": "history"},
                      {"read": op, "in_history": got, "on_pristine_copies": exp, "repaired_class": cause,
                       "minimal_reads": sum(1 for o in minimal if o[0] == "read")},
                      {"cause": cause})
    if changed:
        minimal = E.shrink_mutation(world, sched)
        ch = E.mutates(world, minimal) or changed
        rep.violation("argument-mutated", {"world": world, "schedule": minimal, "leg": "mutation"},
                      {"what": "a caller-owned argument object is no longer deep-equal to its pristine copy "
                               "(apart from subvar_alias / datetime_value of dimension elements)",
                       "changed": [list(c) for c in ch],
                       "minimal_reads": sum(1 for o in minimal if o[0] == "read")},
                      {"cause": "argument-mutated", "what": ch[0][0]})
    rep.dist("mutation-checked", 1)
    if not bad and not changed and corr is not None:
        corr_world(rep, corr, world, probes, sched)
    if do_forms:
        forms_oracle(rep, world, rng.randrange(len(world["objects"])))
    rep.sample({"scenario": world["scenario"], "objects": world["objects"], "schedule": sched[:8]}, limit=3)


def run(tier, seed):
    rep = core.Report(PID, tier, seed)
    ob = core.obligations_gate(rep, PID)
    thorough = tier == "thorough"
    n_worlds = 500 if not thorough else 6000
    n_side = 40 if not thorough else 600
    rng = random.Random(seed)
    corr = Corr()
    t0 = time.time()
    for k in range(n_worlds):
        world = gen_world(rng, k)
        n_reads = rng.choice([6, 12, 25, 40, 60, "sweep", "sweep", "sweep", "families", "families"])
        check_world(rep, world, rng, n_reads, corr=corr, do_forms=(k % 4 == 0))
    # REPEAT stream: worlds whose transforms carry a smoother spec on both dimensions - half of them a
    # function the library rejects - read with the "repeat" schedule
    rng_r = random.Random(seed + 23)
    for k in range(40 if not thorough else 500):
        world = w_single(rng_r, k)
        for t in world["transforms"]:
            if isinstance(t, dict):
                for key in ("rows_dimension", "columns_dimension"):
                    d = t.setdefault(key, {})
                    if isinstance(d, dict):
                        d["smoother"] = {"function": rng_r.choice(["one_sided_moving_avg", "two_sided_moving_avg",
                                                                   "exponential", "one_sided_moving_avg"]),
                                         "window": rng_r.choice([2, 3, 0])}
        check_world(rep, world, rng_r, "repeat", corr=None, do_forms=False)
    # KEYED stream: element transforms of array dimensions with a "key" marker, ONE transforms object for
    # two or three objects, mostly built and touched one after the other
    rng_k = random.Random(seed + 41)
    for k in range(70 if not thorough else 800):
        world = w_keyed(rng_k, k)
        rep.dist("keyed-elements-world")
        check_world(rep, world, rng_k, rng_k.choice(["sequential", "sequential", "sequential", 12, 25, "sweep"]),
                    corr=corr, do_forms=False)
    t_hist = time.time() - t0
    rng2 = random.Random(seed + 5)
    for k in range(n_side):
        corr_h2(rep, corr, rng2, k)
        corr_rops(rep, corr, rng2, k)
        corr_augment(rep, corr, rng2, k)
        corr_augment(rep, corr, rng2, k)
    # the former H5 stream: single-filter-column sets passed as text / envelope
    for k in range(6 if not thorough else 60):
        w = w_augment(rng2, k)
        w["forms"] = ["dict"] * len(w["responses"])
        forms_oracle(rep, w, 0)
    secs = finish_corr(rep, corr)
    # report a shrunk, self-contained failing history first when there is one
    rep.violations.sort(key=lambda v: (v["kind"] != "history-differs", v["kind"] != "argument-mutated",
                                       v["kind"] != "forms-differ"))
    rep.cov["rule"] = (
        "worlds from random.Random(seed): scenario weights single 36 (array 2-D MR/CA/numeric-array layouts of the "
        "C19 generator, 3-D CAT x MR x CAT / MR x CAT x CAT / CAT x CA / CAT x DATETIME x CAT, datetime, MR x MR, "
        "general CAT/CAT_DATE/MR/CA slices and strands with insertions), same-dims 11 (two responses with equal "
        "dimensions sharing ONE transforms dict), tabbook 21 (CubeSet over rows + rows x columns, CAT / MR / "
        "CA-as-0th rows, own or shared transforms dict, second CubeSet and stand-alone cubes on the same "
        "responses AND the same transforms dicts), numeric-measure set 7 (0-D mean/sum + 1-D, inflated; any mix "
        "of dict / envelope / text forms), augment 5 (single-filter-column text cubes), the streams of the "
        "REPAIRED defects - inflated responses reused by a Cube / another CubeSet (former H3) 5, augmented filter "
        "response reused by a Cube (former H4) 4, ONE transforms dict for two cubes with different array "
        "dimensions (former H2) 5 -, shared-insertions 5 (ONE transforms dict with subtotal insertions without / "
        "with some ids for cubes whose dimensions have different valid categories) and difference-subtotals 5 "
        "(CAT x CAT with difference subtotals on rows / columns, population); a separate KEYED stream of 70 (thorough "
        "800) worlds from random.Random(seed + 41): array-dimension element transforms carrying \"key\": "
        "\"subvar_id\" (75%) / \"alias\" with ids the marked and the general reading resolve differently, one "
        "transforms object for 2-3 cubes / CubeSets on 2-D array, 3-D CAT x MR x CAT / CAT x CA and MR / CA-as-0th "
        "tabbook responses, half of them read with the 'sequential' schedule (objects built and touched one after the other); transforms reference items in "
        "every spelling (alias, sub-variable id, element id int/str, position) + ~20% stale + ~6% null ids in "
        "lists; response forms dict 72% / envelope 14% / text 10% / text envelope 4%; 1-3(+) objects per world "
        "constructed from the same argument objects, ~70% of them mid-schedule; 3/8 of the schedules are SWEEPS "
        "(every public read of one partition / object in random order, a few reads of another object, then "
        "every read again in another order), the others have 6..60 reads, 40% hot properties, 60% "
        "uniform over ALL public properties (introspection) + row_order/column_order/pairwise_significance_*(0), "
        "15% exact repeats, 3% out-of-range partitions, and in half of them every distinct read is made once more "
        "at the end in another order; after EVERY schedule the caller's transforms dicts and "
        "responses are compared (deep, type-aware) with their pristine copies; non-trivial = more than one "
        "object or more than 5 reads; distinct by content hash")
    rep.cov["public_reads_per_class"] = {c: len(v) for c, v in E.READS.items()}
    rep.cov["coq_eval_seconds"] = round(secs, 2)
    rep.cov["history_seconds"] = round(t_hist, 2)
    rep.assumptions = [
        "pristine copies of the arguments of ONE object preserve the aliasing inside its argument lists (deepcopy)",
        "values are compared exactly (NaN == NaN); objects other than numbers/strings/arrays/containers/enums "
        "by type name only",
        "classification of a FAILING history against the repaired defect classes H2/H3/H4 is static (from the "
        "arguments of the objects the MINIMAL schedule still constructs) and only a hint: nothing is exempted",
        "the translated transforms dict a partition's dimension uses is observed through the private "
        "Dimension._dimension_transforms_dict (no public way); a missing attribute is reported as "
        "no-failing-input-found",
    ]
    return rep.finish("proof", ob, trusted_base=core.TRUSTED_BASE_COMMON + [
        "Model/History.v and Model/Shim.v are hand-written; tied to util.py (lazyproperty), dimension.py "
        "(_ElementIdShim), cube.py (Cube.inflate, augment_response, CubeSet._cubes) by this run only",
        "the relational oracle and the no-mutation leg need no model: they compare the implementation with itself "
        "on pristine copies / the argument objects with their pristine copies",
        __import__("harness.props.cube_tb", fromlist=["cube_trusted_base"]).cube_trusted_base()])


# ------------------------------------------------------------------------------------
# replay
# ------------------------------------------------------------------------------------


def replay(path):
    d = json.load(open(path))
    v = d["violation"]
    case = v["case"]
    leg = case.get("leg", "history")
    fails = []
    if leg == "history":
        world, sched = case["world"], case["schedule"]
        bad = E.mismatches(world, sched, E.Fresh(world))
        for i, got, exp in bad[:3]:
            fails.append({"read": sched[i], "in_history": got, "on_pristine_copies": exp})
    elif leg == "mutation":
        world, sched = case["world"], case["schedule"]
        for which, idx, where in E.mutates(world, sched)[:3]:
            fails.append({"changed": which, "index": idx, "where": where})
    elif leg == "forms":
        world = case["world"]
        n = len(world["responses"])
        base = snapshot(world, 0, ["dict"] * n)
        other = snapshot(world, 0, [case["form"]] * n)
        if base != other:
            key = next(kk for kk in sorted(set(base) | set(other)) if base.get(kk) != other.get(kk))
            fails.append({"read": key, "dict": base.get(key), case["form"]: other.get(key)})
    elif leg in ("b1", "b2", "response") and "world" in case:
        # correspondence of the caller's dicts after the stored history
        world = case["world"]
        rep = core.Report(PID, "quick", 0)
        rep.findings = []
        corr = Corr()
        probes = {k: E.probe_targets(world, k) for k in range(len(world["objects"]))}
        corr_world(rep, corr, world, probes, [op for op in case["schedule"]])
        finish_corr(rep, corr)
        for x in rep.violations[:3]:
            fails.append({"kind": x["kind"], "detail": x["detail"]})
    elif leg in ("b3", "b4", "b5"):
        rep = core.Report(PID, "quick", 0)
        rep.findings = []
        corr = Corr()
        if leg == "b3":
            corr_h2_case(corr, case["world"])
        elif leg == "b4":
            corr_rops_case(corr, case["responses"], case["ops"])
        else:
            corr_augment_case(corr, case["summary"], case["filter"], case["ops"])
        finish_corr(rep, corr)
        for x in rep.violations[:3]:
            fails.append({"kind": x["kind"], "detail": x["detail"]})
    else:
        fails.append({"note": "leg %s: re-run ./check C18" % leg, "detail": v["detail"]})
    for f in fails:
        print("REPLAY still fails:", json.dumps(core.jsonable(f))[:900])
    if not fails:
        print("REPLAY: no longer fails")
    return 1 if fails else 0
