# -*- coding: utf-8 -*-
"""C20 - Smoothing is a trailing moving average over categorical-date periods.

Obligations: coq/Props/C20.v (model: coq/Model/Smoothing.v).
Correspondence (local step): the implementation's own *unsmoothed* public values
(column_proportions, column_index, means, strand means) are fed to the model's
`smooth2` / `smooth1`; the result is compared with the implementation's smoothed public
values.  Because the theorems of Props/C20.v say the model IS the trailing mean, every
disagreement is a concrete failing input for the property.
"""
import copy
import json
import random
from fractions import Fraction

from harness import core, gen, impl
from harness.core import g_bool, g_mat, g_opt, g_vec, g_Z

PID = "C20"
IMPORTS = """From Coq Require Import QArith ZArith List Bool.
From CC Require Import Base.XQ Base.Render Base.ListX Model.Smoothing Model.Scale.
Import ListNotations."""


def gen_case(rng, k):
    """One case: a survey, a cube response, transforms with a smoother."""
    strand = rng.random() < 0.2
    cat_date = rng.random() < 0.85
    n_periods = rng.choice([1, 2, 3, 3, 4, 5, 6, 8])
    colv = gen.make_cat(rng, "wave", n_valid=n_periods, date=cat_date,
                        n_missing=rng.choice([0, 0, 1]), numeric=rng.choice([None, "partial"]))
    if strand:
        variables = [colv]
        aliases = ["wave"]
    else:
        rk = rng.random()
        if rk < 0.75:
            rowv = gen.make_cat(rng, "rowv", numeric=rng.choice(["all", "partial", None]))
        else:
            rowv = gen.make_mr(rng, "rowv")
        variables = [rowv, colv]
        aliases = ["rowv", "wave"]
        if rowv.kind == "cat" and rng.random() < 0.6:
            rowv.view_insertions = gen.random_insertions(rng, rowv)
        if colv.kind.startswith("cat") and rng.random() < 0.3:
            colv.view_insertions = gen.random_insertions(rng, colv, max_n=3)
    with_mean = strand or rng.random() < 0.5
    sv = gen.Survey(variables, rng.randint(0, 40) if rng.random() < 0.95 else 0, rng,
                    numvars=["x"] if with_mean else [])
    measures = ("count", "mean") if with_mean else ("count",)
    resp = gen.cube_response(sv, aliases, measures=measures, numvar="x" if with_mean else None)
    # smoother spec
    r = rng.random()
    sm = {"function": "one_sided_moving_avg"}
    if r < 0.08:
        raw = "absent"
    elif r < 0.14:
        raw = None
        sm["window"] = None
    else:
        raw = rng.choice([-1, 0, 1, 2, 2, 2, 3, 3, 3, 4, 5, n_periods, n_periods + 1, 10])
        sm["window"] = raw
    if rng.random() < 0.1:
        del sm["function"]
    dim_key = "rows_dimension" if strand else "columns_dimension"
    transforms = {dim_key: {"smoother": sm}}
    return {"k": k, "strand": strand, "cat_date": cat_date and n_periods > 0,
            "response": resp, "transforms": transforms, "window": raw,
            "n_periods": n_periods, "with_mean": with_mean}


def raw_window(case):
    w = case["window"]
    return None if w in ("absent", None) else int(w)


def impl_run(case):
    """Read unsmoothed (run A) and smoothed (run B) public values."""
    out = {}
    A = impl.partition(case["response"], None)
    B = impl.partition(case["response"], case["transforms"])
    if case["strand"]:
        names = ["means", "row_order"]
        namesB = ["smoothed_means", "row_order"]
    else:
        names = ["column_proportions", "column_index", "row_order", "column_order",
                 "columns_scale_mean"]
        namesB = ["smoothed_column_proportions", "smoothed_column_percentages",
                  "smoothed_column_index", "smoothed_columns_scale_mean",
                  "row_order", "column_order"]
        if case["with_mean"]:
            names.append("means")
            namesB.append("smoothed_means")
    out["A"] = {n: impl.get(A, n) for n in names}
    out["B"] = {n: impl.get(B, n) for n in namesB}
    out["dims"] = impl.dims_info(A)
    if not case["strand"]:
        out["row_numeric"] = [float(x) for x in A._dimensions[0].numeric_values]
        out["dimtypes"] = [str(t) for t in A.dimension_types]
    else:
        out["dimtypes"] = [str(t) for t in A.dimension_types]
    return out


def _ok(r):
    return r[0] == "ok" and r[1] is not None


def build_jobs(case, io):
    """Model jobs (Gallina terms) for a case + how to compare them."""
    jobs = []
    cd = case["cat_date"]
    raw = raw_window(case)
    g_raw = g_opt(raw, g_Z)
    A, B = io["A"], io["B"]
    if any(v[0] == "exc" for v in list(A.values()) + list(B.values())):
        return None
    if case["strand"]:
        n, nsub = io["dims"]
        if not _ok(A["means"]):
            return []
        base, subs = impl.blocks1d(A["means"][1], A["row_order"][1], n, nsub)
        jobs.append(("strand_means", "r_vec (smooth1 %s %s %s)" % (g_bool(cd), g_raw, g_vec(base)),
                     {"subs": subs}))
        return jobs
    nr, nrs, nc, ncs = io["dims"]
    ro, co = A["row_order"][1], A["column_order"][1]
    for name, smoothed, sub_rows_smoothed in (
        ("column_proportions", "smoothed_column_proportions", True),
        ("column_index", "smoothed_column_index", False),
        ("means", "smoothed_means", False),
    ):
        if name not in A or not _ok(A[name]):
            continue
        blk = impl.blocks2d(A[name][1], ro, co, nr, nc, nrs, ncs)
        t1 = "r_mat (smooth2 %s %s %s)" % (g_bool(cd), g_raw, g_mat(blk[0][0]))
        jobs.append((smoothed + ".base", t1, {"blk": blk}))
        if sub_rows_smoothed and nrs > 0:
            t2 = "r_mat (smooth2 %s %s %s)" % (g_bool(cd), g_raw, g_mat(blk[1][0]))
            jobs.append((smoothed + ".subrows", t2, {"blk": blk}))
    # smoothed scale mean = scale mean of the smoothed column proportions (as reported)
    if _ok(B["smoothed_columns_scale_mean"]) and _ok(B["smoothed_column_proportions"]):
        blkB = impl.blocks2d(B["smoothed_column_proportions"][1], B["row_order"][1],
                             B["column_order"][1], nr, nc, nrs, ncs)
        vals = io["row_numeric"]
        terms = []
        for j in range(nc):
            col = [blkB[0][0][i][j] for i in range(nr)]
            terms.append("r_xq (wmean %s %s)" % (g_vec(col), g_vec(vals)))
        for j in range(ncs):
            col = [blkB[0][1][i][j] for i in range(nr)]
            terms.append("r_xq (wmean %s %s)" % (g_vec(col), g_vec(vals)))
        jobs.append(("smoothed_columns_scale_mean", "(%s)" % " ++ ".join(terms) if terms else "[]",
                     {"n": nc + ncs}))
    return jobs


def compare(case, io, jobs, results, rep):
    """Compare model results with run B.  Returns list of (what, detail)."""
    fails = []
    B = io["B"]
    if case["strand"]:
        n, nsub = io["dims"]
        for (name, _t, aux), toks in zip(jobs, results):
            mv = core.Dec(toks).vec()
            if not _ok(B["smoothed_means"]):
                fails.append((name, {"impl": B["smoothed_means"]}))
                continue
            bb, bs = impl.blocks1d(B["smoothed_means"][1], B["row_order"][1], n, nsub)
            if not core.close_vec(bb, mv):
                fails.append((name, {"impl": bb, "model": mv}))
            if not core.close_vec(bs, ["nan"] * nsub):
                fails.append((name + ".subtotals", {"impl": bs}))
        return fails
    nr, nrs, nc, ncs = io["dims"]
    ro, co = B["row_order"][1], B["column_order"][1]
    blocksB = {}
    for (name, _t, aux), toks in zip(jobs, results):
        if name == "smoothed_columns_scale_mean":
            d = core.Dec(toks)
            mv = [d.xq() for _ in range(aux["n"])]
            iv = impl.blocks1d(B[name][1], co, nc, ncs)
            iv = iv[0] + iv[1]
            for j, (a, b) in enumerate(zip(iv, mv)):
                if not core.close(a, b):
                    fails.append((name, {"col": j, "inserted": j >= nc, "impl": a, "model": b}))
            continue
        meas, part = name.split(".")
        if not _ok(B[meas]):
            fails.append((name, {"impl": B[meas]}))
            continue
        if meas not in blocksB:
            blocksB[meas] = impl.blocks2d(B[meas][1], ro, co, nr, nc, nrs, ncs)
        bb = blocksB[meas]
        mm = core.Dec(toks).mat()
        target = bb[0][0] if part == "base" else bb[1][0]
        if target and target[0] or mm and mm[0]:
            d = core.first_diff_mat(target, mm)
            if d is not None:
                fails.append((name, {"first_diff(i,j,impl,model)": d}))
        blkA = aux["blk"]
        if part == "base":
            # blocks that smoothing must leave alone
            if meas == "smoothed_column_proportions":
                if not core.close_mat(bb[0][1], [[core.to_exact(x) for x in r] for r in blkA[0][1]]):
                    fails.append((meas + ".subcols-unsmoothed", {"impl": bb[0][1], "unsmoothed": blkA[0][1]}))
                if not core.close_mat(bb[1][1], [[core.to_exact(x) for x in r] for r in blkA[1][1]]):
                    fails.append((meas + ".intersections-unsmoothed", {"impl": bb[1][1]}))
            else:
                for blkname, b in (("subcols", bb[0][1]), ("subrows", bb[1][0]), ("inter", bb[1][1])):
                    if not all(core.close(x, "nan") for r in b for x in r):
                        fails.append((meas + "." + blkname + "-nan", {"impl": b}))
    # percentages = 100 * proportions
    if _ok(B["smoothed_column_percentages"]) and _ok(B["smoothed_column_proportions"]):
        P = B["smoothed_column_percentages"][1]
        Q = B["smoothed_column_proportions"][1]
        if not core.close_mat(P, [[core.to_exact(100 * Fraction(float(x))) if x == x and abs(x) != float("inf") else core.to_exact(x * 100)
                                   for x in r] for r in Q.tolist()]):
            fails.append(("smoothed_column_percentages", {"impl": P, "props": Q}))
    return fails


def nontrivial(case):
    w = raw_window(case)
    w = 2 if w is None else w
    return case["cat_date"] and 2 <= w <= case["n_periods"]


def run(tier, seed):
    rep = core.Report(PID, tier, seed)
    ob = core.obligations_gate(rep, PID)
    n_cases = 300 if tier == "quick" else 3000
    rng = random.Random(seed)
    cases, ios, alljobs = [], [], []
    terms = []
    for k in range(n_cases):
        case = gen_case(rng, k)
        io = impl_run(case)
        jobs = build_jobs(case, io)
        if jobs is None:
            # the implementation raised on a well-formed case
            excs = {n: v for n, v in list(io["A"].items()) + list(io["B"].items()) if v[0] == "exc"}
            rep.count_case(case, nontrivial(case))
            rep.violation("impl-exception", _replayable(case), {"exceptions": excs},
                          {"window": case["window"], "what": "exception"})
            continue
        cases.append(case)
        ios.append(io)
        alljobs.append(jobs)
        terms.extend(t for (_n, t, _a) in jobs)
    # exhaustive small scope (thorough): all (n <= 8, w in -1..10) on a fixed ramp, via the
    # public API of a strand with means
    results, coq_s = core.run_coq_cases(PID, IMPORTS, terms) if terms else ([], 0.0)
    pos = 0
    for case, io, jobs in zip(cases, ios, alljobs):
        res = results[pos:pos + len(jobs)]
        pos += len(jobs)
        nt = nontrivial(case)
        rep.count_case(case, nt)
        rep.dist("strand" if case["strand"] else "slice")
        rep.dist("cat_date" if case["cat_date"] else "not_cat_date")
        rep.dist("window=%s" % (case["window"],))
        rep.dist("smoothable" if nt else "guarded")
        if nt:
            rep.sample({"window": case["window"], "n_periods": case["n_periods"],
                        "strand": case["strand"], "dimtypes": io["dimtypes"],
                        "transforms": case["transforms"]})
        for what, detail in compare(case, io, jobs, res, rep):
            ctx = {"what": what, "window": case["window"]}
            if what == "smoothed_columns_scale_mean":
                ctx["inserted"] = detail.get("inserted")
            rep.violation("impl-vs-model", _replayable(case), dict(detail, what=what), ctx)
    rep.cov["rule"] = (
        "cases from random.Random(seed): CAT|MR x CAT_DATE|CAT slices and CAT_DATE|CAT strands "
        "with dyadic weights, row/column subtotals, optional mean measure, smoother window in "
        "{absent,null,-1..10}; non-trivial = categorical-date with 2 <= w <= periods (smoothing "
        "actually happens); distinct by content hash of response+transforms")
    rep.cov["coq_eval_seconds"] = round(coq_s, 2)
    rep.cov["model_terms_evaluated"] = len(terms)
    rep.assumptions = [
        "unsmoothed inputs of the step are the implementation's own public values (C03/C16/C01 own them)",
        "float64 vs exact rationals: relative tolerance 1e-9",
    ]
    return rep.finish("proof", ob, trusted_base=core.TRUSTED_BASE_COMMON + [
        "Model/Smoothing.v is hand-written; tied to src/cr/cube/smoothing.py and the smoothed measures "
        "of matrix/measure.py, stripe/measure.py by this correspondence run only"])


def _replayable(case):
    return {"response": case["response"], "transforms": case["transforms"],
            "with_mean": case["with_mean"],
            "strand": case["strand"], "window": case["window"], "cat_date": case["cat_date"],
            "n_periods": case["n_periods"], "k": case["k"]}


def replay(path):
    d = json.load(open(path))
    case = d["violation"]["case"]
    rep = core.Report(PID, "quick", d.get("seed", 0))
    io = impl_run(case)
    jobs = build_jobs(case, io)
    if jobs is None:
        print("REPLAY: implementation raises: still failing")
        return 1
    results, _ = core.run_coq_cases(PID, IMPORTS, [t for (_n, t, _a) in jobs], tag="replay")
    fails = compare(case, io, jobs, results, rep)
    for f in fails:
        print("REPLAY still fails:", json.dumps(core.jsonable(f))[:600])
    if not fails:
        print("REPLAY: no longer fails")
    return 1 if fails else 0
