# -*- coding: utf-8 -*-
"""C20 - Smoothing is a trailing moving average over categorical-date periods.

Obligations: coq/Props/C20.v (model: coq/Model/Smoothing.v).
Correspondence (local step): the implementation's own *unsmoothed* public values
(column_proportions, column_index, means, strand means) are fed to the model's
`smooth2` / `smooth1`; the result is compared with the implementation's smoothed public
values.  Because the theorems of Props/C20.v say the model IS the trailing mean, every
disagreement is a concrete failing input for the property.

Three partitions per case, each built from a pristine deep copy of the response / transforms:
  A0  no transforms, only unsmoothed outputs are read;
  A   the case's transforms (smoother), only unsmoothed outputs are read - the FRESH partition whose
      unsmoothed values feed the model;
  B   the case's transforms, smoothed AND unsmoothed outputs are read on the ONE object in a seeded
      order (case["read_order"]: smoothed first / unsmoothed first / shuffled), then all re-read.
Oracles on the implementation alone (aliasing between smoothed and unsmoothed outputs): whatever the
order, B's unsmoothed outputs equal A's (reading smoothed_columns_scale_mean or any smoothed_*
before column_proportions must not change what column_proportions reports), A's equal A0's (a
smoother spec does not touch the unsmoothed measures) and a second read of B returns what the first
returned.  Since B's smoothed values are compared with the trailing mean of A's unsmoothed values,
an in-place overwrite of the unsmoothed measure cannot hide behind a consistent-looking B.

Partially dated wave lists (after seeded change C20-11: the dimension-type resolver looked only at the FIRST
non-missing category for a "date" key, so a wave list whose first valid wave is undated became plain CAT and every
smoothed_* output silently returned the unsmoothed values for a valid window).  A categorical dimension is
categorical-date as soon as SOME category carries a "date" (dimension.py: any(...)); the generator used to date
every valid category.  `undate_some` now removes the "date" key from a seeded subset of the VALID categories of
the smoothed dimension in about a third of the categorical-date cases (slices and strands; the first valid one,
the last, a middle one, first+last, all but one; missing categories sit before / between / after as make_cat
places them), always leaving at least one valid dated category.  The oracle is unchanged: the dimension is still
categorical-date, so the model's trailing mean over the waves in payload order applies.  Evidence distribution:
"undated waves: <pattern>" and "undated waves: first valid wave undated, smoothable".
"""
import copy
import json
import random
from fractions import Fraction

import numpy as np

from harness import core, gen, impl
from harness.core import g_bool, g_mat, g_opt, g_vec, g_Z

PID = "C20"
IMPORTS = """From Coq Require Import QArith ZArith List Bool.
From CC Require Import Base.XQ Base.Render Base.ListX Model.Smoothing Model.Scale.
Import ListNotations."""


def gen_case(rng, k):
    """One case: a survey, a cube response, transforms with a smoother."""
    strand = rng.random() < 0.2
    cat_date = rng.random() < 0.85
    # (long series and wide windows as well, after seeded change C20-10: the window was clamped to 12)
    n_periods = rng.choice([1, 2, 3, 3, 4, 5, 6, 8, 12, 14, 16])
    colv = gen.make_cat(rng, "wave", n_valid=n_periods, date=cat_date,
                        n_missing=rng.choice([0, 0, 1]), numeric=rng.choice([None, "partial"]))
    undated = undate_some(colv, k) if cat_date else None
    if strand:
        variables = [colv]
        aliases = ["wave"]
    else:
        rk = rng.random()
        if rk < 0.55:
            rowv = gen.make_cat(rng, "rowv", numeric=rng.choice(["all", "partial", None]))
        elif rk < 0.75:
            # categorical-date ROWS as well (after seeded change C20-7): a difference with several terms on a
            # categorical-date rows dimension is NaN in the column proportions, so its smoothed row (and the
            # unchanged row of an invalid window) is NaN too - not the difference of the smoothed base rows
            rowv = gen.make_cat(rng, "rowv", n_valid=rng.choice([3, 4, 5]), date=True,
                                numeric=rng.choice(["all", "partial", None]))
        else:
            rowv = gen.make_mr(rng, "rowv")
        variables = [rowv, colv]
        aliases = ["rowv", "wave"]
        if rowv.kind in ("cat", "cat_date") and rng.random() < 0.6:
            rowv.view_insertions = gen.random_insertions(rng, rowv)
            if rowv.kind == "cat_date" and rng.random() < 0.6:
                ids = gen.valid_cat_ids(rowv)
                if len(ids) >= 3:
                    pos = rng.sample(ids, 2)
                    neg = [rng.choice([i for i in ids if i not in pos])]
                    if rng.random() < 0.5:
                        pos, neg = neg, pos
                    rowv.view_insertions.append({"function": "subtotal", "name": "rowv_multi_term_diff",
                                                 "anchor": rng.choice(["top", "bottom", ids[0]]),
                                                 "kwargs": {"positive": pos, "negative": neg}, "args": pos})
        if colv.kind.startswith("cat") and rng.random() < 0.3:
            colv.view_insertions = gen.random_insertions(rng, colv, max_n=3)
    with_mean = strand or rng.random() < 0.5
    sv = gen.Survey(variables, rng.randint(0, 40) if rng.random() < 0.95 else 0, rng,
                    numvars=["x"] if with_mean else [])
    measures = ("count", "mean") if with_mean else ("count",)
    resp = gen.cube_response(sv, aliases, measures=measures, numvar="x" if with_mean else None)
    # smoother spec
    r = rng.random()
    sm = {"function": "one_sided_moving_avg"}
    if r < 0.08:
        raw = "absent"
    elif r < 0.14:
        raw = None
        sm["window"] = None
    else:
        raw = rng.choice([-1, 0, 1, 2, 2, 2, 3, 3, 3, 4, 5, n_periods, n_periods + 1, 10, 12, 13, 15,
                          max(2, n_periods - 1)])
        sm["window"] = raw
    if rng.random() < 0.1:
        del sm["function"]
    dim_key = "rows_dimension" if strand else "columns_dimension"
    transforms = {dim_key: {"smoother": sm}}
    mode, order = read_order(rng, strand, with_mean)
    return {"k": k, "strand": strand, "cat_date": cat_date and n_periods > 0,
            "response": resp, "transforms": transforms, "window": raw,
            "n_periods": n_periods, "with_mean": with_mean, "undated": undated,
            "read_mode": mode, "read_order": order}


UNDATED_PATTERNS = ["first", "first", "first", "last", "middle", "first+last", "first+middle", "all-but-one",
                    "all-but-last", "random"]


def undate_some(colv, k):
    """Remove the "date" key from some VALID categories of a categorical-date variable (in place), keeping at
    least one valid dated category, so the variable stays categorical-date (some category carries a "date").
    Own sub-generator (seeded from the case number and the category ids) so that the main case stream is the
    one it was.  Returns None (left alone) or {"pattern":, "positions": positions among the valid categories}."""
    sub = random.Random("C20-undated-%d-%r" % (k, [c["id"] for c in colv.cats]))
    valid = [c for c in colv.cats if not c["missing"]]
    n = len(valid)
    if n < 2 or sub.random() >= 0.36:
        return None
    pattern = sub.choice(UNDATED_PATTERNS)
    if pattern == "first":
        pos = [0]
    elif pattern == "last":
        pos = [n - 1]
    elif pattern == "middle":
        pos = [sub.randrange(1, n - 1)] if n >= 3 else [n - 1]
    elif pattern == "first+last":
        pos = [0, n - 1] if n >= 3 else [0]
    elif pattern == "first+middle":
        pos = [0, sub.randrange(1, n - 1)] if n >= 3 else [0]
    elif pattern == "all-but-one":
        keep = sub.randrange(n)
        pos = [i for i in range(n) if i != keep]
    elif pattern == "all-but-last":
        pos = list(range(n - 1))
    else:
        pos = sorted(sub.sample(range(n), sub.randint(1, n - 1)))
    for i in pos:
        valid[i].pop("date", None)
    assert any("date" in c for c in valid)
    return {"pattern": pattern, "positions": pos, "first_valid_undated": 0 in pos,
            "missing_before_first_valid": bool(colv.cats[0]["missing"]),
            "missing_after_last_valid": bool(colv.cats[-1]["missing"])}


def output_names(strand, with_mean):
    """(unsmoothed, smoothed) public outputs read on the one partition B"""
    if strand:
        return ["means"], ["smoothed_means"]
    uns = ["column_proportions", "column_percentages", "column_index", "columns_scale_mean",
           "population_proportions"]
    smo = ["smoothed_column_proportions", "smoothed_column_percentages", "smoothed_column_index",
           "smoothed_columns_scale_mean"]
    if with_mean:
        uns.append("means")
        smo.append("smoothed_means")
    return uns, smo


def read_order(rng, strand, with_mean):
    """seeded order in which B's outputs are read: all smoothed ones first (the smoothed scale mean
    leading in half of those), all unsmoothed ones first, or interleaved at random"""
    uns, smo = output_names(strand, with_mean)
    uns, smo = list(uns), list(smo)
    mode = rng.choice(["smoothed_first", "smoothed_first", "unsmoothed_first", "shuffled"])
    rng.shuffle(uns)
    rng.shuffle(smo)
    if mode == "smoothed_first":
        if "smoothed_columns_scale_mean" in smo and rng.random() < 0.5:
            smo.remove("smoothed_columns_scale_mean")
            smo.insert(0, "smoothed_columns_scale_mean")
        order = smo + uns
    elif mode == "unsmoothed_first":
        order = uns + smo
    else:
        order = uns + smo
        rng.shuffle(order)
    return mode, order


def raw_window(case):
    w = case["window"]
    return None if w in ("absent", None) else int(w)


def _snap(r):
    """guarded read result with its value copied (a later in-place edit must not reach it)"""
    if r[0] == "ok" and isinstance(r[1], np.ndarray):
        return ("ok", np.array(r[1], copy=True))
    return r


def impl_run(case):
    """Unsmoothed values of fresh partitions (A0 without, A with the transforms) and everything,
    in the case's read order, on ONE partition B (then re-read: B2)."""
    out = {}
    uns, smo = output_names(case["strand"], case["with_mean"])
    orders = ["row_order"] if case["strand"] else ["row_order", "column_order"]
    order = case.get("read_order") or (uns + smo)
    A0 = impl.partition(case["response"], None)
    A = impl.partition(case["response"], case["transforms"])
    B = impl.partition(case["response"], case["transforms"])
    out["A0"] = {n: _snap(impl.get(A0, n)) for n in uns}
    out["A"] = {n: _snap(impl.get(A, n)) for n in uns + orders}
    out["B"] = {}
    for n in list(order) + orders:
        out["B"][n] = _snap(impl.get(B, n))
    out["B2"] = {n: _snap(impl.get(B, n)) for n in order}
    out["dims"] = impl.dims_info(A)
    if not case["strand"]:
        out["row_numeric"] = [float(x) for x in A._dimensions[0].numeric_values]
        out["dimtypes"] = [str(t) for t in A.dimension_types]
    else:
        out["dimtypes"] = [str(t) for t in A.dimension_types]
    return out


def _ok(r):
    return r[0] == "ok" and r[1] is not None


def build_jobs(case, io):
    """Model jobs (Gallina terms) for a case + how to compare them."""
    jobs = []
    cd = case["cat_date"]
    raw = raw_window(case)
    g_raw = g_opt(raw, g_Z)
    A, B = io["A"], io["B"]
    if any(v[0] == "exc" for v in list(A.values()) + list(B.values())):
        return None
    if case["strand"]:
        n, nsub = io["dims"]
        if not _ok(A["means"]):
            return []
        base, subs = impl.blocks1d(A["means"][1], A["row_order"][1], n, nsub)
        jobs.append(("strand_means", "r_vec (smooth1 %s %s %s)" % (g_bool(cd), g_raw, g_vec(base)),
                     {"subs": subs}))
        return jobs
    nr, nrs, nc, ncs = io["dims"]
    ro, co = A["row_order"][1], A["column_order"][1]
    for name, smoothed, sub_rows_smoothed in (
        ("column_proportions", "smoothed_column_proportions", True),
        ("column_index", "smoothed_column_index", False),
        ("means", "smoothed_means", False),
    ):
        if name not in A or not _ok(A[name]):
            continue
        blk = impl.blocks2d(A[name][1], ro, co, nr, nc, nrs, ncs)
        t1 = "r_mat (smooth2 %s %s %s)" % (g_bool(cd), g_raw, g_mat(blk[0][0]))
        jobs.append((smoothed + ".base", t1, {"blk": blk}))
        if sub_rows_smoothed and nrs > 0:
            t2 = "r_mat (smooth2 %s %s %s)" % (g_bool(cd), g_raw, g_mat(blk[1][0]))
            jobs.append((smoothed + ".subrows", t2, {"blk": blk}))
    # smoothed scale mean = scale mean of the smoothed column proportions (as reported)
    if _ok(B["smoothed_columns_scale_mean"]) and _ok(B["smoothed_column_proportions"]):
        blkB = impl.blocks2d(B["smoothed_column_proportions"][1], B["row_order"][1],
                             B["column_order"][1], nr, nc, nrs, ncs)
        vals = io["row_numeric"]
        terms = []
        for j in range(nc):
            col = [blkB[0][0][i][j] for i in range(nr)]
            terms.append("r_xq (wmean %s %s)" % (g_vec(col), g_vec(vals)))
        for j in range(ncs):
            col = [blkB[0][1][i][j] for i in range(nr)]
            terms.append("r_xq (wmean %s %s)" % (g_vec(col), g_vec(vals)))
        jobs.append(("smoothed_columns_scale_mean", "(%s)" % " ++ ".join(terms) if terms else "[]",
                     {"n": nc + ncs}))
    return jobs


def _same(x, y):
    """two guarded reads of the same deterministic computation"""
    if x[0] != y[0]:
        return False
    if x[0] != "ok":
        return x[1] == y[1]
    a, b = x[1], y[1]
    if a is None or b is None:
        return a is None and b is None
    a, b = np.asarray(a, dtype=float), np.asarray(b, dtype=float)
    return a.shape == b.shape and bool(np.allclose(a, b, rtol=1e-12, atol=0.0, equal_nan=True))


def _short(r):
    return r[1] if r[0] == "ok" else list(r)


def aliasing_oracles(case, io):
    """(what, detail) list: the unsmoothed outputs of the partition that ALSO served smoothed ones
    (B, in case['read_order']) against fresh partitions; re-reads of B against its first reads"""
    fails = []
    uns, _smo = output_names(case["strand"], case["with_mean"])
    order = case.get("read_order")
    for n in uns:
        if not _same(io["B"][n], io["A"][n]):
            fails.append(("aliasing." + n, {"read_order": order, "same_partition_as_smoothed_reads": _short(io["B"][n]),
                                            "fresh_partition": _short(io["A"][n])}))
        if not _same(io["A"][n], io["A0"][n]):
            fails.append(("smoother-spec-changes-unsmoothed." + n,
                          {"with_smoother_transform": _short(io["A"][n]), "without": _short(io["A0"][n])}))
    for n, r2 in io["B2"].items():
        if not _same(r2, io["B"][n]):
            fails.append(("reread." + n, {"read_order": order, "first_read": _short(io["B"][n]),
                                          "second_read": _short(r2)}))
    return fails


def compare(case, io, jobs, results, rep):
    """Model results vs run B, then the aliasing oracles.  Returns list of (what, detail)."""
    return compare_model(case, io, jobs, results, rep) + aliasing_oracles(case, io)


def compare_model(case, io, jobs, results, rep):
    """Compare model results with run B.  Returns list of (what, detail)."""
    fails = []
    B = io["B"]
    if case["strand"]:
        n, nsub = io["dims"]
        for (name, _t, aux), toks in zip(jobs, results):
            mv = core.Dec(toks).vec()
            if not _ok(B["smoothed_means"]):
                fails.append((name, {"impl": B["smoothed_means"]}))
                continue
            bb, bs = impl.blocks1d(B["smoothed_means"][1], B["row_order"][1], n, nsub)
            if not core.close_vec(bb, mv):
                fails.append((name, {"impl": bb, "model": mv}))
            if not core.close_vec(bs, ["nan"] * nsub):
                fails.append((name + ".subtotals", {"impl": bs}))
        return fails
    nr, nrs, nc, ncs = io["dims"]
    ro, co = B["row_order"][1], B["column_order"][1]
    blocksB = {}
    for (name, _t, aux), toks in zip(jobs, results):
        if name == "smoothed_columns_scale_mean":
            d = core.Dec(toks)
            mv = [d.xq() for _ in range(aux["n"])]
            iv = impl.blocks1d(B[name][1], co, nc, ncs)
            iv = iv[0] + iv[1]
            for j, (a, b) in enumerate(zip(iv, mv)):
                if not core.close(a, b):
                    fails.append((name, {"col": j, "inserted": j >= nc, "impl": a, "model": b}))
            continue
        meas, part = name.split(".")
        if not _ok(B[meas]):
            fails.append((name, {"impl": B[meas]}))
            continue
        if meas not in blocksB:
            blocksB[meas] = impl.blocks2d(B[meas][1], ro, co, nr, nc, nrs, ncs)
        bb = blocksB[meas]
        mm = core.Dec(toks).mat()
        target = bb[0][0] if part == "base" else bb[1][0]
        if target and target[0] or mm and mm[0]:
            d = core.first_diff_mat(target, mm)
            if d is not None:
                fails.append((name, {"first_diff(i,j,impl,model)": d}))
        blkA = aux["blk"]
        if part == "base":
            # blocks that smoothing must leave alone
            if meas == "smoothed_column_proportions":
                if not core.close_mat(bb[0][1], [[core.to_exact(x) for x in r] for r in blkA[0][1]]):
                    fails.append((meas + ".subcols-unsmoothed", {"impl": bb[0][1], "unsmoothed": blkA[0][1]}))
                if not core.close_mat(bb[1][1], [[core.to_exact(x) for x in r] for r in blkA[1][1]]):
                    fails.append((meas + ".intersections-unsmoothed", {"impl": bb[1][1]}))
            else:
                for blkname, b in (("subcols", bb[0][1]), ("subrows", bb[1][0]), ("inter", bb[1][1])):
                    if not all(core.close(x, "nan") for r in b for x in r):
                        fails.append((meas + "." + blkname + "-nan", {"impl": b}))
    # percentages = 100 * proportions
    if _ok(B["smoothed_column_percentages"]) and _ok(B["smoothed_column_proportions"]):
        P = B["smoothed_column_percentages"][1]
        Q = B["smoothed_column_proportions"][1]
        if not core.close_mat(P, [[core.to_exact(100 * Fraction(float(x))) if x == x and abs(x) != float("inf") else core.to_exact(x * 100)
                                   for x in r] for r in Q.tolist()]):
            fails.append(("smoothed_column_percentages", {"impl": P, "props": Q}))
    return fails


def nontrivial(case):
    w = raw_window(case)
    w = 2 if w is None else w
    return case["cat_date"] and 2 <= w <= case["n_periods"]


def run(tier, seed):
    rep = core.Report(PID, tier, seed)
    ob = core.obligations_gate(rep, PID)
    n_cases = 300 if tier == "quick" else 3000
    rng = random.Random(seed)
    cases, ios, alljobs = [], [], []
    terms = []
    for k in range(n_cases):
        case = gen_case(rng, k)
        io = impl_run(case)
        jobs = build_jobs(case, io)
        if jobs is None:
            # the implementation raised on a well-formed case
            excs = {n: v for n, v in list(io["A"].items()) + list(io["B"].items()) if v[0] == "exc"}
            rep.count_case(case, nontrivial(case))
            rep.violation("impl-exception", _replayable(case), {"exceptions": excs},
                          {"window": case["window"], "what": "exception"})
            continue
        cases.append(case)
        ios.append(io)
        alljobs.append(jobs)
        terms.extend(t for (_n, t, _a) in jobs)
    # exhaustive small scope (thorough): all (n <= 8, w in -1..10) on a fixed ramp, via the
    # public API of a strand with means
    results, coq_s = core.run_coq_cases(PID, IMPORTS, terms) if terms else ([], 0.0)
    pos = 0
    for case, io, jobs in zip(cases, ios, alljobs):
        res = results[pos:pos + len(jobs)]
        pos += len(jobs)
        nt = nontrivial(case)
        rep.count_case(case, nt)
        rep.dist("strand" if case["strand"] else "slice")
        rep.dist("cat_date" if case["cat_date"] else "not_cat_date")
        rep.dist("window=%s" % (case["window"],))
        rep.dist("smoothable" if nt else "guarded")
        rep.dist("read_order=" + case["read_mode"])
        und = case.get("undated")
        if und:
            rep.dist("undated waves: " + und["pattern"])
            rep.dist("undated waves: %s, %s" % ("strand" if case["strand"] else "slice",
                                                 "smoothable" if nt else "guarded"))
            if und["first_valid_undated"] and nt:
                rep.dist("undated waves: first valid wave undated, smoothable")
            if und["missing_before_first_valid"]:
                rep.dist("undated waves: missing category before the first valid wave")
            if und["missing_after_last_valid"]:
                rep.dist("undated waves: missing category after the last valid wave")
        elif case["cat_date"]:
            rep.dist("undated waves: none (all valid waves dated)")
        if not case["strand"] and case["read_order"] and case["read_order"][0] == "smoothed_columns_scale_mean":
            rep.dist("read_order: smoothed_columns_scale_mean before everything else")
        if nt:
            rep.sample({"window": case["window"], "n_periods": case["n_periods"],
                        "strand": case["strand"], "dimtypes": io["dimtypes"], "undated": case.get("undated"),
                        "transforms": case["transforms"]})
        for what, detail in compare(case, io, jobs, res, rep):
            ctx = {"what": what, "window": case["window"]}
            if what == "smoothed_columns_scale_mean":
                ctx["inserted"] = detail.get("inserted")
            kind = "impl-vs-property" if what.split(".")[0] in (
                "aliasing", "reread", "smoother-spec-changes-unsmoothed") else "impl-vs-model"
            rep.violation(kind, _replayable(case), dict(detail, what=what), ctx)
    rep.cov["rule"] = (
        "cases from random.Random(seed): CAT|MR x CAT_DATE|CAT slices and CAT_DATE|CAT strands "
        "with dyadic weights, row/column subtotals, optional mean measure, in about a third of the categorical-date "
        "cases some (never all) VALID waves without a \"date\" key (first / last / middle / several), smoother window in "
        "{absent,null,-1..10}; non-trivial = categorical-date with 2 <= w <= periods (smoothing "
        "actually happens); distinct by content hash of response+transforms; per case a seeded read order of the "
        "smoothed and unsmoothed outputs on ONE partition (smoothed first - half of them with the smoothed scale "
        "mean leading -, unsmoothed first, shuffled), compared with fresh partitions that serve only unsmoothed outputs")
    rep.cov["coq_eval_seconds"] = round(coq_s, 2)
    rep.cov["model_terms_evaluated"] = len(terms)
    rep.assumptions = [
        "unsmoothed inputs of the step are the implementation's own public values (C03/C16/C01 own them), read from "
        "a FRESH partition (same transforms, pristine copies) that is never asked for a smoothed output",
        "two partitions built from equal arguments compute bit-identical unsmoothed values (compared with 1e-12 rel.)",
        "float64 vs exact rationals: relative tolerance 1e-9",
    ]
    from harness.props import dimtype_legs   # legs of Model/DimValues.v + trusted base (workstream dimtype)
    dimtype_legs.run(rep, PID, tier, seed)
    return rep.finish("proof", ob, trusted_base=core.TRUSTED_BASE_COMMON + [
        "Model/Smoothing.v is hand-written; tied to src/cr/cube/smoothing.py and the smoothed measures "
        "of matrix/measure.py, stripe/measure.py by this correspondence run only",
        dimtype_legs.trusted_base()])


def _replayable(case):
    return {"response": case["response"], "transforms": case["transforms"],
            "with_mean": case["with_mean"],
            "strand": case["strand"], "window": case["window"], "cat_date": case["cat_date"],
            "n_periods": case["n_periods"], "k": case["k"], "undated": case.get("undated"),
            "read_mode": case.get("read_mode"), "read_order": case.get("read_order")}


def replay(path):
    d = json.load(open(path))
    case = d["violation"]["case"]
    if isinstance(case, dict) and case.get("dimtype_leg"):   # a case of harness/props/dimtype_legs.py
        from harness.props import dimtype_legs
        return dimtype_legs.replay_main(PID, case)
    rep = core.Report(PID, "quick", d.get("seed", 0))
    io = impl_run(case)
    jobs = build_jobs(case, io)
    if jobs is None:
        print("REPLAY: implementation raises: still failing")
        return 1
    results, _ = core.run_coq_cases(PID, IMPORTS, [t for (_n, t, _a) in jobs], tag="replay")
    fails = compare(case, io, jobs, results, rep)
    for f in fails:
        print("REPLAY still fails:", json.dumps(core.jsonable(f))[:600])
    if not fails:
        print("REPLAY: no longer fails")
    return 1 if fails else 0
