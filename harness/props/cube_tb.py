"""Trusted-base entry of the cube translator (harness/translate/x_cube.py) for the checks whose Props files
carry its obligations (C06, C17, C18; C01 names it in its registry entry)."""


def cube_trusted_base():
    try:
        from harness.translate import x_cube
        return x_cube.TRUSTED_BASE
    except Exception:  # the translator module is missing / broken: say so instead of failing the check
        return "cube translator harness/translate/x_cube.py not importable"
