# -*- coding: utf-8 -*-
"""C09 - Visibility: hidden iff asked, pruned iff empty by unweighted counts.

Obligations: coq/Props/C09.v (models Model/Collator.v, Model/OrderPruning.v).

Check = (a) correspondence: the UNWEIGHTED respondent counts u[i][s1][j][s2] are computed by
the harness from the survey behind the response (respondent by respondent, no weights); the
model computes the empty vectors from them (Model/OrderPruning.v), the hidden set, the
subtotal-pruning decision and the display order (payload / explicit / label-sorted), and
this is compared with row_order()/column_order() (both formats), codes, labels, shape and
is_empty of slices and strands;  (b) oracle on the implementation alone: a base element
is shown  <=>  not hidden (by the generator's own record of what it hid) and not (prune and
empty), emptiness decided in Python directly from the respondents; subtotals are shown all
or none.  Surveys have zero and fractional weights, categories whose respondents all have
weight 0 (weighted-empty but not unweighted-empty), items nobody answered, items answered
but never selected.

Derived multiple-response items ("MR insertions": elements with "derived": true carrying a
top / bottom / before / after anchor, named after the any_selected insertion of the
variable's view) are base elements like any other: 0..2 of them are generated per MR
dimension, displayed in payload order, under an EXPLICIT order (where collator.py positions
them through the separate `_derived_element_orderings` list) and under a sort by label
(SortByValueCollator), each crossed with hide flags - an element transform under the item's
alias / id, or a copy of the item's insertion carrying "hide": true in the transforms'
"insertions" list - with prune and with items nobody answered.  The oracle (b) is the same:
shown <=> not hidden and not (prune and empty).

Subtotal insertions flagged hidden: the "hide" key (true / false / absent / a truthy value that
is not the JSON boolean: 1, "true", 1.0) is generated on the insertions of the variable VIEW
(references.view.transform.insertions) and on the transforms' "insertions" list alike, with and
without a transforms "insertions" key that overrides the view (complete copies, subsets, an
empty list, other insertions).  Oracle (slices and strands, by NAME from the generator's own
record of what it flagged): a subtotal of the list in force is shown iff it is not flagged
"hide": true (and the opposing dimension does not prune everything away); the model is fed the
flag of every insertion of both lists (`i_hide` of Model/Collator.v).

Leg (c), ONE transforms dict object for a sequence of cubes (motivated by the seeded change
C09-5: `_ElementIdShim._replaced_element_transforms` re-keyed the caller's `elements` dict in
place, so that the hide flags written by element id / subvariable id were keyed by the FIRST
cube's aliases when the second cube met them, and the explicitly hidden item was displayed;
every single cube of legs (a)/(b) gets its own deep copy and cannot see that).  "Explicitly
hidden" refers to what the caller wrote, so the property must hold for cube k of a deck exactly
as for cube k alone.  Class added: 2..3 cubes built one after another (or all built first and
read in / against the order of construction; the first cube once more after another one) over
DIFFERENT array variables - MR strands, MR x CAT, CAT x MR, CA, MR x MR, numeric arrays (x CAT),
and the 3-D cubes CAT x MR x CAT, CAT x CAT x MR, CAT x CA whose slices each re-apply the dict -
with the same dict OBJECT (rows and / or columns, also one object for both), hide flags keyed by
element id, subvariable id ("000k" or tokens shared by the variables of the deck), alias or
category id, with and without prune, explicit / label orders.  Required of every cube and slice:
(rel) the same orders, labels, codes, shape, is_empty as a fresh cube given its own copy of the
transforms as written, and (abs) shown <=> not named by a "hide": true entry and not (prune and
empty by unweighted respondent counts), labels / shape / is_empty to match (keys whose reading
needs the id cascade of C19 are checked by (rel) only).  Distribution keys `shared-transforms:*`.

Leg (e), cubes of a NUMERIC measure (motivated by the seeded change C09-10: `CubeMeasures.
unweighted_cube_counts` fell back on `cube.weighted_valid_counts` when the response carried no
unweighted valid counts, so the pruning masks of such a slice came from weighted numbers and a row /
column whose respondents all weigh 0 was pruned although respondents are in it; legs (a)/(b) only
generated plain counts cubes).  "Emptiness is decided from unweighted counts only (weights play no
part)" holds whatever the measures of the cube.  Class added: mean / sum / stddev / median cubes
(with and without a count measure) in the four valid-count renderings of the response - unweighted and
weighted valid counts, unweighted only, WEIGHTED only (the response with both, less
`valid_count_unweighted`), none - over CAT / MR pairings (MR x MR included), 2-D, one slice of a 3-D
cube (CAT table) and strands, on surveys with zero and fractional weights, categories and MR items all
of whose respondents weigh nothing, the hide / prune / insertion / order transforms of legs (a)/(b).
Same model run and same absolute oracle: shown <=> not hidden and not (prune and empty by unweighted
respondent counts computed from the survey - of the slice's table category for 3-D).  The numeric
variable is valid for every respondent, or missing only where that leaves the set of empty vectors
unchanged.  Distribution keys `numeric-measure:*`.
"""
import copy
import json
import random
from fractions import Fraction

from harness import core, gen, impl
from harness.core import g_list, g_nat
from harness.props import order_util as ou

PID = "C09"
IMPORTS = ou.IMPORTS + "\nFrom CC Require Import Model.OrderPruning."

SEL, OTH, MIS = gen.SEL, gen.OTH, gen.MIS


# ------------------------------------------------------------------------------------
# survey -> unweighted eligibility counts
# ------------------------------------------------------------------------------------


def valid_positions(v):
    """payload positions of the valid categories of a cat / ca variable"""
    return [k for k, c in enumerate(v.cats) if not c["missing"]]


def axis_cells(v, ans, role):
    """cells (element index, state) a respondent's answer is eligible for on the axis that
    variable v contributes in `role` ('elements' of a cat / items of mr)."""
    if v.kind in ("cat", "cat_date"):
        vp = valid_positions(v)
        return [(vp.index(ans), 0)] if ans in vp else []
    if v.kind == "mr":
        return [(k, s) for k, s in enumerate(ans) if s != MIS]
    raise ValueError(v.kind)


def axis_size(v):
    if v.kind in ("cat", "cat_date"):
        return len(valid_positions(v)), 1
    if v.kind == "mr":
        return len(v.items), 2
    raise ValueError(v.kind)


def unweighted_tensor(survey, aliases):
    """u[i][s1][j][s2] (slice) or u[i][s] (strand) from the respondents; weights ignored."""
    vs = [survey.var(a) for a in aliases]
    if len(vs) == 1 and vs[0].kind == "ca":
        v = vs[0]
        vp = valid_positions(v)
        u = [[[[0] for _ in vp]] for _ in v.items]
        for r in survey.resp:
            for k, a in enumerate(r["ans"][v.alias]):
                if a in vp:
                    u[k][0][vp.index(a)][0] += 1
        return u
    if len(vs) == 1:
        n, ns = axis_size(vs[0])
        u = [[0] * ns for _ in range(n)]
        for r in survey.resp:
            for (i, s) in axis_cells(vs[0], r["ans"][vs[0].alias], "rows"):
                u[i][s] += 1
        return u
    rv, cv = vs
    nr, ns1 = axis_size(rv)
    nc, ns2 = axis_size(cv)
    u = [[[[0] * ns2 for _ in range(nc)] for _ in range(ns1)] for _ in range(nr)]
    for r in survey.resp:
        for (i, s1) in axis_cells(rv, r["ans"][rv.alias], "rows"):
            for (j, s2) in axis_cells(cv, r["ans"][cv.alias], "columns"):
                u[i][s1][j][s2] += 1
    return u


def g_t4(u):
    return g_list([g_list([g_list([g_list([g_nat(x) for x in c]) for c in b]) for b in a]) for a in u])


def g_t2(u):
    return g_list([g_list([g_nat(x) for x in a]) for a in u])


def py_empties(u, strand, mrxmr):
    """the emptiness rule of the property, in Python, from the same respondent counts"""
    if strand:
        return [[i for i, row in enumerate(u) if sum(row) == 0]]
    nr = len(u)
    nc = len(u[0][0]) if nr else 0
    rows = []
    for i in range(nr):
        planes = u[i][:1] if mrxmr else u[i]
        if sum(x for p in planes for c in p for x in c) == 0:
            rows.append(i)
    cols = []
    for j in range(nc):
        tot = 0
        for i in range(nr):
            for p in u[i]:
                tot += sum(p[j][:1] if mrxmr else p[j])
        if tot == 0:
            cols.append(j)
    return [rows, cols]


# ------------------------------------------------------------------------------------
# cases
# ------------------------------------------------------------------------------------


def shape_survey(rng, sv, variables):
    """make empties of every flavour"""
    for v in variables:
        if v.kind in ("cat", "cat_date"):
            n = len(v.cats)
            dead = set(k for k in range(n) if rng.random() < 0.3)
            alive = [k for k in range(n) if k not in dead] or [0]
            for r in sv.resp:
                if r["ans"][v.alias] in dead:
                    r["ans"][v.alias] = rng.choice(alive)
            # a category whose respondents all weigh nothing
            if sv.weighted and rng.random() < 0.5:
                z = rng.choice(alive)
                for r in sv.resp:
                    if r["ans"][v.alias] == z:
                        r["w"] = Fraction(0)
        elif v.kind == "mr":
            for k in range(len(v.items)):
                x = rng.random()
                for r in sv.resp:
                    a = r["ans"][v.alias]
                    if x < 0.2:
                        a[k] = MIS                       # nobody eligible
                    elif x < 0.45 and a[k] == SEL:
                        a[k] = OTH                       # answered, never selected
                    elif x < 0.55 and a[k] == SEL and sv.weighted:
                        r["w"] = Fraction(0)             # selected only by weightless respondents
        elif v.kind == "ca":
            for r in sv.resp:
                a = r["ans"][v.alias]
                for k in range(len(a)):
                    if rng.random() < 0.3:
                        a[k] = 0


def add_mr_insertions(rng, v, n_derived):
    """Turn `n_derived` items of the MR variable into derived items, the way zz9 delivers the
    any_selected insertions of the variable's view: the element is flagged "derived", carries the
    insertion's anchor in its references and is named (value.id AND name) after the insertion;
    the insertion itself is listed in references.view.transform.insertions."""
    n = len(v.items)
    ks = sorted(rng.sample(range(n), min(n_derived, n)))
    plain = [it["alias"] for k, it in enumerate(v.items) if k not in ks]
    view = []
    for k in ks:
        it = v.items[k]
        name = "%s any %d" % (v.alias, k)
        it["derived"] = True
        it["name"] = name
        it["subvar_id"] = name
        r = rng.random()
        if r < 0.2:
            anchor = "top"
        elif r < 0.4:
            anchor = "bottom"
        elif r < 0.5:
            anchor = None                                   # no anchor at all
        else:
            others = plain + [v.items[j]["alias"] for j in ks if j != k] + ["nope"]
            anchor = {"alias": rng.choice(plain or others) if rng.random() < 0.75 else rng.choice(others),
                      "position": rng.choice(["before", "after", "after"])}
        if anchor is not None:
            it["anchor"] = anchor
        ins = {"function": "any_selected", "name": name,
               "kwargs": {"variable": v.alias,
                          "subvariable_ids": rng.sample(plain, min(len(plain), 2)) if plain else []}}
        if anchor is not None:
            ins["anchor"] = anchor
        view.append(ins)
    if view:
        v.view_insertions = view
    v.derived_idxs = ks


HIDE_OTHER = [1, "true", 1.0, "yes"]


def flag_insertion_hides(rng, ins, p_true):
    """put a "hide" key on the subtotal insertion dicts of `ins` (in place): true with
    probability p_true, else false (12%), a truthy non-boolean (10%) or no key at all"""
    for d in ins:
        if not isinstance(d, dict):
            continue
        r = rng.random()
        if r < p_true:
            d["hide"] = True
        elif r < p_true + 0.12:
            d["hide"] = False
        elif r < p_true + 0.22:
            d["hide"] = rng.choice(HIDE_OTHER)
        else:
            d.pop("hide", None)
    return ins


def hide_kind(d):
    if "hide" not in d:
        return "absent"
    h = d["hide"]
    return "true" if h is True else "false" if h is False else "truthy-non-bool" if h else "falsy-non-bool"


def dim_transforms(rng, v, role, truth):
    """transforms dict for the dimension v contributes in `role`; records what it hides"""
    t = {}
    if role == "items":
        ids = [it["id"] for it in v.items]
        aliases = [it["alias"] for it in v.items]
        derived = list(getattr(v, "derived_idxs", []))
        hidden = [k for k in range(len(ids)) if rng.random() < (0.35 if k in derived else 0.2)]
        how = {}
        flagged = []
        if hidden:
            t["elements"] = {}
            for k in hidden:
                if k in derived and rng.random() < 0.45:
                    flagged.append(k)                        # hidden through its insertion, below
                    how[k] = "insertion-flag"
                    continue
                key = rng.choice([str(ids[k]), aliases[k]]) if v.kind == "mr" else str(ids[k])
                t["elements"][key] = {"hide": True}
                how[k] = "element-transform"
            if rng.random() < 0.3:
                k = rng.randrange(len(ids))
                if k not in hidden:
                    t["elements"][str(ids[k])] = {"hide": rng.choice([False, None])}
            if not t["elements"]:
                del t["elements"]
        if derived and (flagged or rng.random() < 0.25):
            # transforms "insertions" of an MR dimension: complete copies of the variable's
            # insertions; the ones carrying "hide": true suppress their derived item, the others
            # (no flag, "hide": false, a name that is no item of the dimension) change nothing
            tins = []
            for d in v.view_insertions:
                k = [j for j in derived if v.items[j]["subvar_id"] == d["name"]][0]
                c = copy.deepcopy(d)
                if k in flagged:
                    c["hide"] = True
                elif rng.random() < 0.3:
                    c["hide"] = False
                elif rng.random() < 0.3:
                    continue
                tins.append(c)
            if rng.random() < 0.3:
                tins.append({"function": "any_selected", "name": "no such item", "anchor": "top",
                             "kwargs": {"variable": v.alias, "subvariable_ids": []}, "hide": True})
            rng.shuffle(tins)
            t["insertions"] = tins
        r = rng.random()
        p_explicit = 0.5 if derived else 0.3
        if r < p_explicit:
            pool = ids if rng.random() < 0.7 or v.kind != "mr" else ids + aliases
            t["order"] = {"type": "explicit",
                          "element_ids": rng.sample(pool, rng.randint(0, len(ids)))}
        elif r < p_explicit + 0.2 and v.kind == "mr":
            t["order"] = {"type": "label", "direction": rng.choice(["ascending", "descending"])}
            if rng.random() < 0.4:
                t["order"]["fixed"] = {rng.choice(["top", "bottom"]): rng.sample(ids, 1)}
        truth["how"] = {str(k): h for k, h in how.items()}
        truth["derived"] = derived
    else:
        valid = gen.valid_cat_ids(v)
        hidden = [k for k in range(len(valid)) if rng.random() < 0.2]
        if hidden:
            t["elements"] = {}
            for k in hidden:
                key = str(valid[k]) if rng.random() < 0.8 else valid[k]
                t["elements"][key] = {"hide": True}
        if rng.random() < 0.2 and valid:
            k = rng.randrange(len(valid))
            if k not in hidden:
                t.setdefault("elements", {})[str(valid[k])] = {"hide": rng.choice([False, None, 1, "true"])}
        if rng.random() < 0.6:
            v.view_insertions = ou.random_insertion_list(rng, v, [valid[k] for k in hidden], max_n=3)
            if rng.random() < 0.6:
                # hide flags on the insertions of the variable VIEW
                flag_insertion_hides(rng, v.view_insertions, rng.choice([0.25, 0.5, 1.0]))
        if rng.random() < 0.3:
            # a transforms "insertions" key is in force INSTEAD of the view (flagged or not)
            r2 = rng.random()
            if r2 < 0.12:
                t["insertions"] = []
            elif r2 < 0.3 and v.view_insertions:
                # complete copies of the view's insertions with flags of their own
                t["insertions"] = flag_insertion_hides(
                    rng, copy.deepcopy(v.view_insertions), rng.choice([0.0, 0.3, 0.6]))
            else:
                t["insertions"] = ou.derive_transform_insertions(rng, v.view_insertions or [], v)
                if rng.random() < 0.4:
                    flag_insertion_hides(rng, t["insertions"], 0.35)
        truth["insertions_from"] = "transforms" if "insertions" in t else "view"
        # the generator's own record: which insertions of the list in force it flagged hidden and
        # which subtotals (by name) the property says are shown
        src = t["insertions"] if "insertions" in t else (v.view_insertions or [])
        truth["subtotals_flagged"] = [d["name"] for d in src if d.get("hide") is True]
        truth["subtotals_expected"] = [d["name"] for d in src if d.get("hide") is not True
                                       and any(x in valid for x in ou.ins_terms(d))]
        truth["view_hide_kinds"] = [hide_kind(d) for d in (v.view_insertions or [])]
        truth["tins_hide_kinds"] = [hide_kind(d) for d in t["insertions"]] if "insertions" in t else None
        r = rng.random()
        if r < 0.25:
            t["order"] = {"type": "explicit", "element_ids": ou.random_explicit_ids(rng, valid)}
        elif r < 0.45:
            t["order"] = {"type": "label", "direction": rng.choice(["ascending", "descending"])}
            if rng.random() < 0.5 and valid:
                t["order"]["fixed"] = {rng.choice(["top", "bottom"]): rng.sample(valid, 1)}
    pr = rng.random()
    if pr < 0.65:
        t["prune"] = True
    elif pr < 0.75:
        t["prune"] = rng.choice([False, "true", 1, None])
    truth["hidden"] = sorted(hidden)
    truth["prune"] = t.get("prune") is True
    return t


def make_mr(rng, alias, n_items):
    v = gen.make_mr(rng, alias, n_items=n_items)
    add_mr_insertions(rng, v, rng.choice([0, 0, 1, 1, 2, 2]))
    return v


def gen_case(rng, k):
    strand = rng.random() < 0.25
    if strand:
        kind = rng.choice(["cat", "cat", "mr"])
        v = (gen.make_cat(rng, "r", n_valid=rng.randint(1, 6)) if kind == "cat"
             else make_mr(rng, "r", rng.randint(1, 5)))
        variables, aliases, roles = [v], ["r"], ["elements" if kind == "cat" else "items"]
    else:
        x = rng.random()
        if x < 0.1:
            v = gen.make_ca(rng, "a", n_items=rng.randint(1, 4), n_valid=rng.randint(1, 4))
            variables, aliases, roles = [v], ["a"], ["items", "elements"]
        else:
            rk = rng.choice(["cat", "cat", "mr"])
            ck = rng.choice(["cat", "cat", "mr"])
            rv = (gen.make_cat(rng, "r", n_valid=rng.randint(1, 5)) if rk == "cat"
                  else make_mr(rng, "r", rng.randint(1, 5)))
            cv = (gen.make_cat(rng, "c", n_valid=rng.randint(1, 5)) if ck == "cat"
                  else make_mr(rng, "c", rng.randint(1, 5)))
            variables, aliases = [rv, cv], ["r", "c"]
            roles = ["elements" if rk == "cat" else "items", "elements" if ck == "cat" else "items"]
    truth = [{} for _ in roles]
    transforms = {}
    keys = ["rows_dimension", "columns_dimension"]
    for n, role in enumerate(roles):
        v = variables[0] if len(variables) == 1 else variables[n]
        transforms[keys[n]] = dim_transforms(rng, v, role, truth[n])
    sv = gen.Survey(variables, rng.choice([0, 2, 5, 10, 20, 40]), rng,
                    weighted=rng.random() < 0.7)
    shape_survey(rng, sv, variables)
    resp = gen.cube_response(sv, aliases, measures=("count",))
    u = unweighted_tensor(sv, aliases)
    _, wc = gen.tabulate(sv, aliases, weight=True)
    _, uc = gen.tabulate(sv, aliases, weight=False)
    differ = any((a == 0) != (b == 0) for a, b in zip(wc, uc))
    mrxmr = (not strand and len(variables) == 2 and variables[0].kind == "mr"
             and variables[1].kind == "mr")
    return {"k": k, "strand": strand, "response": resp, "transforms": transforms,
            "u": u, "truth": truth, "mrxmr": mrxmr, "weighted_differs": differ,
            "kinds": [v.kind for v in variables]}


# ------------------------------------------------------------------------------------
# leg (e): cubes of a NUMERIC measure (mean / sum / stddev of a numeric variable)
# ------------------------------------------------------------------------------------
#
# "Emptiness is decided from unweighted counts only (weights play no part)" is said of every
# cube, whatever its measures.  A numeric-measure response comes in four renderings - with the
# unweighted AND the weighted valid counts, with the unweighted ones only, with the WEIGHTED
# ones only (the shape of the *-mean-weighted fixtures), with none - and the library chooses
# the basis of the pruning masks by which of them are there.  The cases below are ordinary
# cases of legs (a)/(b) (same transforms generator, same model run, same absolute oracle from
# the respondents) over such responses: CAT / MR pairings, 2-D, one slice of a 3-D cube
# (CAT table), strands, on surveys with zero and fractional weights and vectors all of whose
# respondents weigh nothing.  The numeric variable is valid for every respondent, or missing
# only where that does not change which vectors are empty (valid counts and counts then
# prescribe the same display, so the oracle does not have to choose between them).

NUM_LEG = "numeric-measure"
NUM_VAR = "x"
NUM_RENDERINGS = (["both", "unweighted_only", "weighted_only", "none"], [2, 2, 4, 1])
NUM_MEASURES = [("count", "mean"), ("mean",), ("count", "sum"), ("sum",), ("mean", "stddev"),
                ("count", "mean", "sum"), ("count", "median")]


def num_empties(sv, resp, aliases, strand, mrxmr):
    """empty vectors by unweighted respondent counts over the respondents `resp`"""
    return py_empties(unweighted_tensor(_SubSurvey(sv, resp), aliases), strand, mrxmr)


def num_weightless_item(rng, sv, v):
    """an MR item answered (selected / not selected) by weightless respondents only"""
    k = rng.randrange(len(v.items))
    for r in sv.resp:
        a = r["ans"][v.alias]
        if a[k] != MIS:
            if rng.random() < 0.5:
                a[k] = MIS
            else:
                r["w"] = Fraction(0)


def gen_num_case(rng, k):
    x = rng.random()
    layout = "strand" if x < 0.15 else "3-D" if x < 0.45 else "2-D"
    strand = layout == "strand"

    def pick(alias, nmax):
        if rng.random() < 0.6:
            return gen.make_cat(rng, alias, n_valid=rng.randint(1, nmax))
        return make_mr(rng, alias, rng.randint(1, nmax))

    variables = [pick("r", 5)] if strand else [pick("r", 4), pick("c", 4)]
    aliases = [v.alias for v in variables]
    roles = ["elements" if v.kind == "cat" else "items" for v in variables]
    table = gen.make_cat(rng, "t", n_valid=rng.randint(1, 3)) if layout == "3-D" else None
    truth = [{} for _ in roles]
    transforms = {}
    for n, role in enumerate(roles):
        transforms[["rows_dimension", "columns_dimension"][n]] = dim_transforms(rng, variables[n], role, truth[n])
    allv = ([table] if table is not None else []) + variables
    sv = gen.Survey(allv, rng.choice([0, 3, 6, 12, 25, 40]), rng, weighted=rng.random() < 0.85,
                    numvars=(NUM_VAR,))
    shape_survey(rng, sv, variables)
    if sv.weighted:
        for v in variables:
            if v.kind == "mr" and rng.random() < 0.3:
                num_weightless_item(rng, sv, v)
    si = 0
    group = sv.resp
    if table is not None:
        tp = valid_positions(table)
        si = rng.randrange(len(tp))
        group = [r for r in sv.resp if r["ans"][table.alias] == tp[si]]
    mrxmr = not strand and variables[0].kind == "mr" and variables[1].kind == "mr"
    emp = num_empties(sv, group, aliases, strand, mrxmr)
    valid = lambda rs: [r for r in rs if r["num"][NUM_VAR] is not None]  # noqa: E731
    filled = rng.random() < 0.65 or num_empties(sv, valid(group), aliases, strand, mrxmr) != emp
    if filled:
        for r in sv.resp:
            if r["num"][NUM_VAR] is None:
                r["num"][NUM_VAR] = Fraction(rng.randint(-8, 40), rng.choice([1, 2, 4]))
    measures = rng.choice(NUM_MEASURES)
    rendering = rng.choices(*NUM_RENDERINGS)[0]
    if not sv.weighted and rendering in ("both", "weighted_only"):
        rendering = "unweighted_only"                # an unweighted data set has no weighted valid counts
    vc = {"both": True, "unweighted_only": "unweighted_only", "weighted_only": True, "none": False}[rendering]
    resp = gen.cube_response(sv, [v.alias for v in allv], measures=measures, numvar=NUM_VAR, valid_counts=vc)
    meas = resp["result"]["measures"]
    if rendering == "weighted_only":
        # gen.cube_response has no such option: the response with both, less the unweighted ones
        del meas["valid_count_unweighted"]
    heavy = [r for r in valid(group) if r["w"] > 0]
    emp_w = num_empties(sv, heavy, aliases, strand, mrxmr)
    weightless = [sorted(set(emp_w[n]) - set(emp[n])) for n in range(len(emp))]
    sub = _SubSurvey(sv, group)
    _, wc = gen.tabulate(sub, aliases, weight=True)
    _, uc = gen.tabulate(sub, aliases, weight=False)
    return {"leg": NUM_LEG, "k": k, "strand": strand, "slice": si, "response": resp, "transforms": transforms,
            "u": unweighted_tensor(sub, aliases), "truth": truth, "mrxmr": mrxmr,
            "weighted_differs": any((a == 0) != (b == 0) for a, b in zip(wc, uc)),
            "kinds": [v.kind for v in variables],
            "numeric": {"layout": layout, "measures": list(measures), "rendering": rendering,
                        "valid_count_measures": sorted(m for m in meas if m.startswith("valid_count")),
                        "weighted": sv.weighted, "numeric_missing": not filled,
                        "vectors_with_weightless_respondents_only": weightless}}


# ------------------------------------------------------------------------------------


def valid_sources(m):
    """positions of the valid subtotal dicts (mirror of ins_valid, for the label values)"""
    out = []
    ids = set(m.ids)
    for k, d in enumerate(m.source_list() or []):
        if not isinstance(d, dict) or d.get("function") != "subtotal":
            continue
        if d.get("hide") is True or "anchor" not in d or "name" not in d:
            continue
        if not any(t in ids for t in ou.ins_terms(d)):
            continue
        out.append(k)
    return out


def ordering_term(m):
    od = m.order_dict
    if od.get("type") == "label":
        subl = [] if m.array else [m.source_list()[k].get("name") or "" for k in valid_sources(m)]
        return ou.value_ordering_term(od, (m.labels, subl))
    return ou.anchored_ordering_term(od)


def prepare(case):
    strand = case["strand"]
    r = impl.guarded(lambda: impl.partition(case["response"], case["transforms"], k=case.get("slice", 0)))
    if r[0] != "ok":
        return ("skip", "partition-raises:%s" % r[1])
    part = r[1]
    obs = ou.observe(part, strand)
    try:
        ms = ou.dim_models(part, case["response"], case["transforms"], strand)
    except ou.Unsupported as e:
        return ("skip", "unsupported:%s" % e)
    u = case["u"]
    b = "true" if case["mrxmr"] else "false"
    terms = []
    if strand:
        emp = ["(empty_strand_rows %s [])" % g_t2(u)]
        psubs = ["false"]
    else:
        nc = ms[1].n
        er = "(empty_rows %s %s [])" % (b, g_t4(u))
        ec = "(empty_columns %s %s %s [])" % (b, g_nat(nc), g_t4(u))
        emp = [er, ec]
        psubs = ["(prune_subtotals %s %s %s)" % (core.g_bool(ms[1].prune), ec, g_nat(ms[1].n)),
                 "(prune_subtotals %s %s %s)" % (core.g_bool(ms[0].prune), er, g_nat(ms[0].n))]
    for k, m in enumerate(ms):
        terms.append("run_dim_full %s %s %s %s" % (m.term, ordering_term(m), emp[k], psubs[k]))
    return {"obs": obs, "models": ms, "terms": terms}


def oracle(case, prep):
    """shown <=> not hidden and not (prune and empty by unweighted counts); subtotals all or none"""
    out = []
    obs, ms = prep["obs"], prep["models"]
    strand = case["strand"]
    emp = py_empties(case["u"], strand, case["mrxmr"])
    axes = ["row"] if strand else ["row", "column"]
    for k, axis in enumerate(axes):
        o = obs[axis + "_order"]
        if o[0] != "ok":
            out.append((axis + ".visible_iff", {"impl": o}))
            continue
        tr = case["truth"][k]
        n = ms[k].n
        want = [i for i in range(n)
                if i not in tr["hidden"] and not (tr["prune"] and i in emp[k])]
        got = sorted(z for z in o[1] if z >= 0)
        if got != want or len(got) != len(set(got)):
            out.append((axis + ".visible_iff",
                        {"shown": got, "expected": want, "hidden": tr["hidden"],
                         "prune": tr["prune"], "empty_unweighted": emp[k]}))
        all_empty = False
        if not strand:
            opp = 1 - k
            all_empty = case["truth"][opp]["prune"] and len(emp[opp]) == ms[opp].n
            nsub = len(valid_sources(ms[k])) if not ms[k].array else 0
            subs = sorted(z for z in o[1] if z < 0)
            wsub = [] if all_empty else list(range(-nsub, 0))
            if subs != wsub:
                out.append((axis + ".subtotal_pruning",
                            {"shown": subs, "expected": wsub, "opposing_all_empty": all_empty}))
        if "subtotals_expected" in tr and not ms[k].array:
            # by NAME, from the generator's record: shown iff not flagged "hide": true (and not
            # pruned away by the opposing dimension); strands never prune subtotals
            lab = obs[axis + "_labels"]
            if lab[0] != "ok" or len(lab[1]) != len(o[1]):
                out.append((axis + ".subtotal_hidden_iff", {"impl_labels": lab, "order": o[1]}))
            else:
                shown = sorted(l for l, z in zip(lab[1], o[1]) if z < 0)
                want = [] if all_empty else sorted(tr["subtotals_expected"])
                if shown != want:
                    out.append((axis + ".subtotal_hidden_iff",
                                {"shown": shown, "expected": want, "flagged_hidden": tr["subtotals_flagged"],
                                 "insertions_from": tr.get("insertions_from"),
                                 "opposing_all_empty": all_empty}))
    return out


def check_case(case, prep, results):
    out = []
    obs, ms = prep["obs"], prep["models"]
    strand = case["strand"]
    axes = ["row"] if strand else ["row", "column"]
    shape = []
    for k, (axis, m) in enumerate(zip(axes, ms)):
        dec = ou.decode_run_dim(results[k])
        for what, detail in ou.compare_dim(axis, m, dec, obs, strand):
            out.append(("impl-vs-model", what, detail))
        shape.append(("ok", len(dec["signed"][1])) if dec["signed"][0] == "ok" else dec["signed"])
    if all(s[0] == "ok" for s in shape):
        want = ("ok", [s[1] for s in shape])
        if obs["shape"] != want:
            out.append(("impl-vs-model", "shape", {"model": want, "impl": obs["shape"]}))
        we = ("ok", any(s[1] == 0 for s in shape))
        if obs["is_empty"] != we:
            out.append(("impl-vs-model", "is_empty", {"model": we, "impl": obs["is_empty"]}))
    for what, detail in oracle(case, prep):
        out.append(("visibility-oracle", what, detail))
    return out


def num_dist(rep, case, emp):
    """evidence distribution of a numeric-measure case (leg (e))"""
    nm = case["numeric"]
    p = NUM_LEG + ":"
    rep.dist(p + "cases")
    rep.dist(p + "layout:" + nm["layout"])
    rep.dist(p + "kinds:" + "x".join(case["kinds"]))
    rep.dist(p + "measures:" + "+".join(nm["measures"]))
    rep.dist(p + "valid-counts:" + nm["rendering"] + (",weighted survey" if nm["weighted"] else ",unweighted survey"))
    if nm["numeric_missing"]:
        rep.dist(p + "numeric-value-missing-for-some(emptiness unchanged)")
    hit = False
    for n, tr in enumerate(case["truth"]):
        wl = nm["vectors_with_weightless_respondents_only"][n]
        rep.dist(p + "hide=%s,prune=%s" % (bool(tr["hidden"]), tr["prune"]))
        if tr["prune"] and emp[n]:
            rep.dist(p + "prune-with-empty-vector")
        if wl:
            rep.dist(p + "vector-with-weightless-respondents-only")
            if tr["prune"]:
                rep.dist(p + "vector-with-weightless-respondents-only+prune")
                if [i for i in wl if i not in tr["hidden"]]:
                    rep.dist(p + "vector-with-weightless-respondents-only+prune+not-hidden:valid-counts=" + nm["rendering"])
                    hit = hit or nm["rendering"] == "weighted_only"
    if hit:
        rep.dist(p + "weighted-only-valid-counts+prune+weightless-vector:" + nm["layout"])


def _replayable(case):
    return {k: case[k] for k in ("response", "transforms", "strand", "u", "truth", "mrxmr",
                                 "kinds", "weighted_differs", "k", "leg", "slice", "numeric") if k in case}


def run_cases(rep, cases):
    preps, terms = [], []
    for case in cases:
        p = prepare(case)
        preps.append(p)
        if isinstance(p, dict):
            terms.extend(p["terms"])
    results, coq_s = core.run_coq_cases(PID, IMPORTS, terms) if terms else ([], 0.0)
    pos = 0
    for case, p in zip(cases, preps):
        if not isinstance(p, dict):
            rep.count_case(_replayable(case), False)
            rep.dist("skipped:" + p[1].split(":")[0])
            rep.violation("impl-exception", _replayable(case), {"why": p[1]},
                          {"what": "partition-raises"})
            continue
        res = results[pos:pos + len(p["terms"])]
        pos += len(p["terms"])
        anyprune = any(t["prune"] for t in case["truth"])
        emp = py_empties(case["u"], case["strand"], case["mrxmr"])
        nontriv = anyprune and any(emp) or any(t["hidden"] for t in case["truth"]) or \
            any(t.get("subtotals_flagged") for t in case["truth"])
        rep.count_case(_replayable(case), nontriv)
        rep.dist("strand" if case["strand"] else "slice")
        rep.dist("kinds:" + "x".join(case["kinds"]))
        if anyprune and any(emp):
            rep.dist("prune-with-empty-vectors")
        if case["weighted_differs"]:
            rep.dist("weighted-and-unweighted-emptiness-differ")
        if any(t["hidden"] for t in case["truth"]):
            rep.dist("explicit-hides")
        if not case["strand"] and any(case["truth"][k]["prune"] and len(emp[k]) == p["models"][k].n
                                      for k in (0, 1)):
            rep.dist("all-opposing-empty(subtotals pruned)")
        for m in p["models"]:
            rep.dist("order:" + str(m.order_dict.get("type", "payload")))
        sk = "strand" if case["strand"] else "slice"
        for tr in case["truth"]:
            if "insertions_from" not in tr:
                continue
            for hk in tr.get("view_hide_kinds") or []:
                rep.dist("view-insertion:hide=" + hk)
            for hk in tr.get("tins_hide_kinds") or []:
                rep.dist("transforms-insertion:hide=" + hk)
            vflag = "true" in (tr.get("view_hide_kinds") or [])
            if tr["insertions_from"] == "view":
                if vflag:
                    rep.dist("view-insertion-hidden,no-transforms-insertions-key")
                    rep.dist("view-insertion-hidden,no-transforms-insertions-key:" + sk)
                    if len(tr["subtotals_flagged"]) < len(tr.get("view_hide_kinds") or []):
                        rep.dist("view:some-hidden-some-shown")
            else:
                rep.dist("transforms-insertions-key-overrides-view" +
                         (":view-had-hidden" if vflag else ""))
                if tr.get("tins_hide_kinds") == []:
                    rep.dist("transforms-insertions-key:empty-list")
                if tr["subtotals_flagged"]:
                    rep.dist("transforms-insertion-hidden:" + sk)
            if tr["subtotals_flagged"]:
                rep.dist("subtotal-flagged-hidden(list in force)")
        for kk, (tr, m) in enumerate(zip(case["truth"], p["models"])):
            der = tr.get("derived")
            if der is None:
                continue
            if not m.array or case["kinds"][min(kk, len(case["kinds"]) - 1)] != "mr":
                continue
            rep.dist("mr-dim:derived-items=%d" % len(der))
            if not der:
                continue
            otype = str(m.order_dict.get("type", "payload"))
            rep.dist("derived:order:" + otype)
            how = tr.get("how", {})
            gone = []
            for i in der:
                if how.get(str(i)) == "element-transform":
                    rep.dist("derived:hidden-by-element-transform")
                    rep.dist("derived:%s+hidden-by-element-transform" % otype)
                    gone.append(i)
                elif how.get(str(i)) == "insertion-flag":
                    rep.dist("derived:hidden-by-insertion-flag")
                    rep.dist("derived:%s+hidden-by-insertion-flag" % otype)
                    gone.append(i)
                elif tr["prune"] and i in emp[kk]:
                    rep.dist("derived:pruned-empty")
                    rep.dist("derived:%s+pruned-empty" % otype)
                    gone.append(i)
                elif i in emp[kk]:
                    rep.dist("derived:empty-not-pruned")
            if "insertions" in (case["transforms"].get(["rows_dimension", "columns_dimension"][kk]) or {}):
                rep.dist("derived:transforms-insertions-list")
            if gone and len(gone) < len(der):
                rep.dist("derived:one-gone-one-shown")
        rep.sample({"transforms": case["transforms"], "kinds": case["kinds"], "u": case["u"]})
        ctx = {}
        if case.get("leg") == NUM_LEG:
            ctx = {"leg": NUM_LEG}
            num_dist(rep, case, emp)
        for kind, what, detail in check_case(case, p, res):
            if ctx:
                detail = dict(detail, numeric=case["numeric"], slice=case["slice"])
            rep.violation(kind, _replayable(case), dict(detail, what=what),
                          dict(ctx, what=what.split(".")[-1], kinds="x".join(case["kinds"])))
    return coq_s, len(terms)


# ------------------------------------------------------------------------------------
# leg (c): ONE transforms dict object used with a sequence of cubes
# ------------------------------------------------------------------------------------
#
# "Explicitly hidden" is a statement about what the CALLER wrote in the transforms.  A client
# applies one transforms dict ("hide item 2, prune") to every cube of a deck, so the property
# must hold for cube k of such a sequence exactly as it holds for cube k alone: the visibility
# of cube k is a function of its data and of the transforms AS WRITTEN, not of the cubes the
# same dict object met before.  The leg builds 2..3 cubes one after another over DIFFERENT
# array variables (other subvariable aliases, other numbers of items, the array on the rows
# or on the columns, 3-D cubes whose slices each re-apply the dict) with the same dict OBJECT
# and requires of every cube (every slice)
#   (rel)  the same orders / labels / codes / shape / is_empty as a fresh cube on the same
#          response given its OWN deep copy of the transforms as written;
#   (abs)  shown <=> not named by a "hide": true entry and not (prune and empty by unweighted
#          respondent counts), the named element being decided by the generator's own record
#          (a key names the base element whose element id, subvariable id or alias - category
#          id on a categorical dimension - it spells; keys whose reading depends on the id
#          cascade of C19 are left to (rel) alone).

SEQ_LEG = "shared-transforms"
SEQ_TOKENS = ["sv-a", "sv-b", "sv-c", "sv-d", "sv-e", "sv-f", "sv-g"]
SEQ_LAYOUTS = [("arr", 2), ("arr_x_cat", 4), ("cat_x_arr", 4), ("ca", 3), ("mr_x_mr", 2),
               ("cat_x_arr_x_cat", 2), ("cat_x_cat_x_arr", 2), ("cat_x_ca", 2),
               ("numarr", 1), ("numarr_x_cat", 2)]
AMBIG = "ambiguous"


class _SubSurvey(object):
    """the respondents of one table category (one slice of a 3-D cube)"""

    def __init__(self, survey, resp):
        self.vars, self.resp, self.weighted = survey.vars, resp, survey.weighted

    def var(self, alias):
        for v in self.vars:
            if v.alias == alias:
                return v
        raise KeyError(alias)


def seq_subvar_ids(rng, mode, eids):
    if mode == "numeric":
        return ["%04d" % e for e in eids]
    return rng.sample(SEQ_TOKENS, len(eids))


def seq_array_var(rng, alias, kind, n, mode):
    """MR / CA variable with element ids 1..n (what zz9 delivers), its own aliases and
    subvariable ids either "000k" (k = element id) or tokens drawn from a pool that all
    variables of the sequence share (so that one subvariable id names items at different
    positions of different variables)"""
    eids = list(range(1, n + 1))
    svids = seq_subvar_ids(rng, mode, eids)
    items = [{"id": eids[k], "subvar_id": svids[k], "alias": "%s_i%d" % (alias, k),
              "name": "%s item %d" % (alias, k), "missing": False} for k in range(n)]
    if kind == "mr":
        return gen.Var(kind="mr", alias=alias, name=alias.upper(), items=items)
    cat = gen.make_cat(rng, alias, n_valid=rng.randint(1, 3), n_missing=rng.choice([0, 0, 1]))
    return gen.Var(kind="ca", alias=alias, name=alias.upper(), items=items, cats=cat.cats)


def array_axis(v):
    return {"kind": "array", "n": len(v.items), "names": [it["name"] for it in v.items],
            "eids": [it["id"] for it in v.items], "svids": [it["subvar_id"] for it in v.items],
            "aliases": [it["alias"] for it in v.items]}


def cat_axis(v):
    valid = [c for c in v.cats if not c["missing"]]
    return {"kind": "cat", "n": len(valid), "names": [c["name"] for c in valid],
            "ids": [c["id"] for c in valid]}


def seq_numarr_cube(rng, j, n, mode, by_cat):
    """NUM_ARRAY (x CAT) response: means + valid counts, every count positive, so that no
    vector is empty under any reading of the pruning rule (nothing may be pruned)."""
    alias = "q%d" % j
    eids = list(range(n))                          # the library numbers the items 0..n-1
    svids = seq_subvar_ids(rng, mode, eids)
    aliases = ["%s_s%d" % (alias, k) for k in range(n)]
    names = ["%s sub %d" % (alias, k) for k in range(n)]
    cat = gen.make_cat(rng, "g%d" % j, n_valid=rng.randint(1, 3), n_missing=0)
    ncat = len(cat.cats) if by_cat else 1
    md = {"derived": True,
          "references": {"alias": alias, "name": alias.upper(),
                         "subreferences": [{"alias": a, "name": nm} for a, nm in zip(aliases, names)]},
          "type": {"class": "numeric", "integer": False, "subvariables": svids}}
    size = ncat * n
    means = [gen.fnum(Fraction(rng.randint(0, 400), 4)) for _ in range(size)]
    valid = [rng.randint(1, 9) for _ in range(size)]
    counts = [rng.randint(1, 9) for _ in range(ncat)]
    result = {"counts": counts, "dimensions": gen.dimension_dicts(cat) if by_cat else [],
              "element": "crunch:cube", "n": sum(counts), "missing": 0,
              "measures": {"mean": {"data": means, "metadata": copy.deepcopy(md), "n_missing": 0},
                           "valid_count_unweighted": {"data": valid, "metadata": copy.deepcopy(md),
                                                      "n_missing": 0}}}
    arr = {"kind": "array", "n": n, "names": names, "eids": eids, "svids": svids, "aliases": aliases}
    axes = [arr] + ([cat_axis(cat)] if by_cat else [])
    empties = [[] for _ in axes]
    return {"layout": "numarr_x_cat" if by_cat else "numarr", "response": {"query": {}, "result": result},
            "strand": not by_cat, "axes": axes, "slices": [{"empties": empties}], "array_kinds": ["numarr"]}


def seq_cube(rng, j, layout, mode):
    """one cube of the sequence: response, the base elements of its row / column axes and, per
    slice, the empty vectors by unweighted respondent counts"""
    n = rng.randint(2, 5)
    if layout.startswith("numarr"):
        return seq_numarr_cube(rng, j, n, mode, layout == "numarr_x_cat")
    akind = "ca" if layout in ("ca", "cat_x_ca") else "mr"
    m = seq_array_var(rng, "m%d" % j, akind, n, mode)
    c = gen.make_cat(rng, "c%d" % j, n_valid=rng.randint(1, 4))
    t = gen.make_cat(rng, "t%d" % j, n_valid=rng.randint(1, 3))
    m2 = seq_array_var(rng, "n%d" % j, "mr", rng.randint(2, 4), mode)
    variables, table = {
        "arr": ([m], None), "arr_x_cat": ([m, c], None), "cat_x_arr": ([c, m], None),
        "ca": ([m], None), "mr_x_mr": ([m, m2], None), "cat_x_arr_x_cat": ([m, c], t),
        "cat_x_cat_x_arr": ([c, m], t), "cat_x_ca": ([m], t)}[layout]
    allv = ([table] if table is not None else []) + variables
    sv = gen.Survey(allv, rng.choice([3, 8, 15, 30]), rng, weighted=rng.random() < 0.6)
    shape_survey(rng, sv, variables)
    aliases = [v.alias for v in variables]
    resp = gen.cube_response(sv, [v.alias for v in allv], measures=("count",))
    strand = layout == "arr"
    if akind == "ca":
        axes = [array_axis(m), cat_axis(m)]
    else:
        axes = [array_axis(v) if v.kind == "mr" else cat_axis(v) for v in variables]
    mrxmr = layout == "mr_x_mr"
    if table is None:
        groups = [sv.resp]
    else:
        groups = [[r for r in sv.resp if r["ans"][table.alias] == p] for p in valid_positions(table)]
    slices = [{"empties": py_empties(unweighted_tensor(_SubSurvey(sv, g), aliases), strand, mrxmr)}
              for g in groups]
    return {"layout": layout, "response": resp, "strand": strand, "axes": axes, "slices": slices,
            "mrxmr": mrxmr, "array_kinds": [v.kind for v in variables if v.kind in ("mr", "ca")]}


def seq_key_pool(cubes, idx):
    """[(how, key)] the spellings by which the caller may name a base element of the axis that
    transforms key #idx (rows / columns) faces in the cubes of the sequence.  Element id 0 (first
    item of a numeric array) is left out: on an array numbered from 1 the library reads "0" as a
    position, which the property text does not decide."""
    pool = []
    for c in cubes:
        if idx >= len(c["axes"]):
            continue
        ax = c["axes"][idx]
        if ax["kind"] == "cat":
            pool += [("catid", str(i)) for i in ax["ids"]]
        else:
            pool += [("eid", str(e)) for e in ax["eids"] if e != 0]
            pool += [("svid", s) for s in ax["svids"]]
            pool += [("alias", a) for a in ax["aliases"]]
    return pool


def seq_dim_transforms(rng, cubes, idx, stats):
    """what the caller writes for the rows (idx 0) / columns (idx 1) of the whole deck; written
    with the first cubes in mind (keys by element id / subvariable id of THEIR array items)"""
    pool = seq_key_pool(cubes, idx)
    first = seq_key_pool(cubes[:1], idx)
    arrayish = [p for p in first if p[0] in ("eid", "svid")] or [p for p in pool if p[0] in ("eid", "svid")]
    t = {}
    els = {}
    for _ in range(rng.choice([1, 1, 2, 2, 3])):
        r = rng.random()
        src = arrayish if (r < 0.7 and arrayish) else pool
        if not src:
            break
        how, key = rng.choice(src)
        if key in els:
            continue
        h = rng.random()
        els[key] = {"hide": True} if h < 0.85 else {"hide": rng.choice([False, None])} if h < 0.95 else {}
        stats.append("key:" + how)
    if els and rng.random() < 0.92:
        t["elements"] = els
    pr = rng.random()
    if pr < 0.5:
        t["prune"] = True
    elif pr < 0.65:
        t["prune"] = rng.choice([False, "true", 1, None])
    r = rng.random()
    if r < 0.25 and pool:
        ids = [int(k) if (how in ("eid", "catid") and rng.random() < 0.5) else k
               for how, k in rng.sample(pool, rng.randint(1, min(4, len(pool))))]
        t["order"] = {"type": "explicit", "element_ids": ids}
        stats.append("order:explicit")
    elif r < 0.35:
        t["order"] = {"type": "label", "direction": rng.choice(["ascending", "descending"])}
        stats.append("order:label")
    return t


def gen_seq_case(rng, k):
    mode = rng.choice(["numeric", "token", "token"])
    n_cubes = rng.choice([2, 2, 2, 3])
    names, weights = zip(*SEQ_LAYOUTS)
    cubes = []
    for j in range(n_cubes):
        if j == 2 and rng.random() < 0.3:
            cubes.append(copy.deepcopy(cubes[0]))           # A, B, A again
            cubes[-1]["repeat_of"] = 0
            continue
        cubes.append(seq_cube(rng, j, rng.choices(names, weights)[0], mode))
    stats = []
    transforms = {}
    which = rng.random()
    dims = [0, 1] if which < 0.55 else [0] if which < 0.85 else [1]
    for idx in dims:
        transforms[["rows_dimension", "columns_dimension"][idx]] = seq_dim_transforms(rng, cubes, idx, stats)
    same_object = dims == [0] and rng.random() < 0.25
    read = rng.choices(["interleaved", "build-all-then-read", "build-all-then-read-reversed"], [7, 2, 1])[0]
    return {"leg": SEQ_LEG, "k": k, "cubes": cubes, "transforms": transforms, "same_object": same_object,
            "read": read, "svid_mode": mode, "stats": stats}


def seq_written(case):
    """a fresh copy of the transforms as the caller wrote them"""
    t = copy.deepcopy(case["transforms"])
    if case["same_object"]:
        t["columns_dimension"] = copy.deepcopy(t["rows_dimension"])
    return t


def seq_read(cube, spec):
    """visibility outputs of every partition of the cube (None: the cube could not be built)"""
    if cube is None or cube[0] != "ok":
        return [{"cube": ("exc", cube[1]) if cube is not None else ("exc", "?")}]
    r = impl.guarded(lambda: list(cube[1].partitions))
    if r[0] != "ok":
        return [{"partitions": ("exc", r[1])}]
    return [core.jsonable(ou.observe(part, spec["strand"])) for part in r[1]]


def seq_run(case, shared):
    """observations [cube][slice] -> dict; `shared`: ONE transforms object for all cubes, read
    in the order of the case; else every cube gets its own pristine copy"""
    mk = lambda spec, t: impl.guarded(  # noqa: E731
        lambda: impl.Cube(copy.deepcopy(spec["response"]), transforms=t))
    if not shared:
        return [seq_read(mk(spec, seq_written(case)), spec) for spec in case["cubes"]]
    t = copy.deepcopy(case["transforms"])
    if case["same_object"]:
        t["columns_dimension"] = t["rows_dimension"]        # the same dict object for both axes
    if case["read"] == "interleaved":
        return [seq_read(mk(spec, t), spec) for spec in case["cubes"]]
    built = [mk(spec, t) for spec in case["cubes"]]
    idxs = list(range(len(built)))
    if case["read"].endswith("reversed"):
        idxs.reverse()
    out = [None] * len(built)
    for i in idxs:
        out[i] = seq_read(built[i], case["cubes"][i])
    return out


def seq_resolve(key, ax):
    """index of the base element of the axis that `key` names, None (names nothing here) or
    AMBIG (only the id cascade of C19 decides: left to the relational comparison)"""
    if ax["kind"] == "cat":
        hits = [i for i, cid in enumerate(ax["ids"]) if str(cid) == key]
        return hits[0] if hits else None
    hits = set()
    for i in range(ax["n"]):
        if key in (ax["aliases"][i], str(ax["eids"][i]), ax["svids"][i]):
            hits.add(i)
    if len(hits) > 1:
        return AMBIG
    if hits:
        return hits.pop()
    try:
        z = int(key)
    except ValueError:
        return None
    return AMBIG if (z in ax["eids"] or 0 <= z < ax["n"]) else None


def seq_expected(case, spec, idx, empties):
    """displayed base elements of axis idx by the property, or None when a key is ambiguous /
    two entries with different flags name the same element"""
    key = ["rows_dimension", "columns_dimension"][idx]
    td = seq_written(case).get(key) or {}
    ax = spec["axes"][idx]
    flags = {}
    for k, e in (td.get("elements") or {}).items():
        i = seq_resolve(k, ax)
        if i == AMBIG:
            return None
        if i is not None:
            flags.setdefault(i, set()).add(e.get("hide") is True)
    if any(len(s) > 1 for s in flags.values()):
        return None
    hidden = sorted(i for i, s in flags.items() if True in s)
    prune = td.get("prune") is True
    want = [i for i in range(ax["n"]) if i not in hidden and not (prune and i in empties[idx])]
    return {"shown": want, "hidden": hidden, "prune": prune, "empty_unweighted": list(empties[idx])}


def seq_check(case, got, ref):
    out = []
    stats = {"abs_axes": 0, "rel_only_axes": 0, "hidden_cubes": 0, "pruned_cubes": 0}
    for ci, spec in enumerate(case["cubes"]):
        g, f = got[ci], ref[ci]
        tag = "cube%d(%s)" % (ci, spec["layout"])
        if len(g) != len(f):
            out.append((tag + ".partitions", {"shared": g, "fresh": f}))
            continue
        any_hidden = any_pruned = False
        for si, (og, of) in enumerate(zip(g, f)):
            for field in sorted(set(og) | set(of)):
                if og.get(field) != of.get(field):
                    out.append(("%s.slice%d.%s" % (tag, si, field),
                                {"with_shared_dict": og.get(field), "with_own_fresh_copy": of.get(field),
                                 "transforms_as_written": case["transforms"], "cube": ci, "slice": si}))
            if "row_order" not in og or si >= len(spec["slices"]):
                if si >= len(spec["slices"]):
                    out.append((tag + ".slices", {"impl_partitions": len(g), "expected": len(spec["slices"])}))
                continue
            shape = []
            for idx, axis in enumerate(["row"] if spec["strand"] else ["row", "column"]):
                exp = seq_expected(case, spec, idx, spec["slices"][si]["empties"])
                if exp is None:
                    stats["rel_only_axes"] += 1
                    shape = None
                    continue
                stats["abs_axes"] += 1
                any_hidden = any_hidden or bool(exp["hidden"])
                any_pruned = any_pruned or (exp["prune"] and bool(exp["empty_unweighted"]))
                o = og[axis + "_order"]
                if o[0] != "ok":
                    out.append(("%s.slice%d.%s.visible_iff" % (tag, si, axis), {"impl": o}))
                    shape = None
                    continue
                shown = sorted(z for z in o[1] if z >= 0)
                if shown != exp["shown"] or len(shown) != len(o[1]):
                    out.append(("%s.slice%d.%s.visible_iff" % (tag, si, axis),
                                dict(exp, impl_order=o[1], expected=exp["shown"], cube=ci, slice=si,
                                     transforms_as_written=case["transforms"])))
                    shape = None
                    continue
                lab = og[axis + "_labels"]
                want_lab = [spec["axes"][idx]["names"][z] for z in o[1]]
                if lab[0] != "ok" or list(lab[1]) != want_lab:
                    out.append(("%s.slice%d.%s.labels" % (tag, si, axis),
                                {"impl_labels": lab, "labels_of_displayed": want_lab, "order": o[1]}))
                if shape is not None:
                    shape.append(len(exp["shown"]))
            if shape is not None:
                if og["shape"] != ["ok", shape]:
                    out.append(("%s.slice%d.shape" % (tag, si), {"impl": og["shape"], "expected": shape}))
                if og["is_empty"] != ["ok", any(s == 0 for s in shape)]:
                    out.append(("%s.slice%d.is_empty" % (tag, si), {"impl": og["is_empty"], "shape": shape}))
        stats["hidden_cubes"] += any_hidden
        stats["pruned_cubes"] += any_pruned
    return out, stats


def seq_names_in_two_cubes(case):
    """does an element-id / subvariable-id key with "hide": true name an item of two cubes of
    the sequence whose array dimensions differ (the class the leg exists for)"""
    w = seq_written(case)
    for idx, key in enumerate(["rows_dimension", "columns_dimension"]):
        for k, e in ((w.get(key) or {}).get("elements") or {}).items():
            if e.get("hide") is not True:
                continue
            seen = set()
            for spec in case["cubes"]:
                if idx < len(spec["axes"]) and spec["axes"][idx]["kind"] == "array":
                    ax = spec["axes"][idx]
                    i = seq_resolve(k, ax)
                    if i not in (None, AMBIG) and k != ax["aliases"][i]:
                        seen.add(ax["aliases"][i])
            if len(seen) >= 2:
                return True
    return False


def _seq_replayable(case):
    return {k: case[k] for k in ("leg", "k", "cubes", "transforms", "same_object", "read", "svid_mode",
                                 "stats")}


def run_seq_cases(rep, cases):
    for case in cases:
        case = core.jsonable(case)              # what a replay file gives back
        got = seq_run(case, shared=True)
        ref = seq_run(case, shared=False)
        found, stats = seq_check(case, got, ref)
        two = seq_names_in_two_cubes(case)
        rep.count_case(_seq_replayable(case), two or stats["hidden_cubes"] > 0 or stats["pruned_cubes"] > 0)
        p = SEQ_LEG + ":"
        rep.dist(p + "sequences")
        rep.dist(p + "cubes-in-sequence=%d" % len(case["cubes"]))
        rep.dist(p + "read:" + case["read"])
        rep.dist(p + "subvariable-ids:" + case["svid_mode"])
        for spec in case["cubes"]:
            rep.dist(p + "cube:" + spec["layout"])
            if len(spec["slices"]) > 1:
                rep.dist(p + "3-D-cube-with-2+-slices")
            if "repeat_of" in spec:
                rep.dist(p + "first-cube-again-after-another")
        for s in case["stats"]:
            rep.dist(p + s)
        for key in ("rows_dimension", "columns_dimension"):
            if key in case["transforms"]:
                rep.dist(p + key + (":prune" if case["transforms"][key].get("prune") is True else ":no-prune"))
        if case["same_object"]:
            rep.dist(p + "rows-and-columns-are-one-dict-object")
        if two:
            rep.dist(p + "id-key-hides-an-item-in-2+-cubes-with-other-aliases")
        rep.dist(p + "axes:absolute-oracle", stats["abs_axes"])
        rep.dist(p + "axes:relational-only(ambiguous key / conflicting flags)", stats["rel_only_axes"])
        rep.dist(p + "cubes-with-explicit-hide", stats["hidden_cubes"])
        rep.dist(p + "cubes-with-pruned-empty-vector", stats["pruned_cubes"])
        if len(rep.cov["samples"]) < 4 and two:
            rep.sample({"leg": SEQ_LEG, "transforms": case["transforms"],
                        "cubes": [c["layout"] for c in case["cubes"]], "read": case["read"]}, limit=4)
        for what, detail in found:
            rep.violation("shared-transforms-visibility", _seq_replayable(case), dict(detail, what=what),
                          {"what": what.split(".")[-1], "leg": SEQ_LEG,
                           "kinds": "+".join(c["layout"] for c in case["cubes"])})


def run(tier, seed):
    rep = core.Report(PID, tier, seed)
    ob = core.obligations_gate(rep, PID)
    n_cases = 400 if tier == "quick" else 6000
    rng = random.Random(seed)
    cases = [gen_case(rng, k) for k in range(n_cases)]
    # ---- (e) numeric-measure cubes in the four valid-count renderings (after seeded change C09-10), own stream
    n_num = 220 if tier == "quick" else 3500
    rng_num = random.Random("%s/%s" % (NUM_LEG, seed))
    cases += [gen_num_case(rng_num, k) for k in range(n_num)]
    coq_s, n_terms = run_cases(rep, cases)
    n_seq = 250 if tier == "quick" else 4000
    rng_seq = random.Random("%s/%s" % (SEQ_LEG, seed))    # own stream: leg (a)/(b) cases stay as they were
    run_seq_cases(rep, [gen_seq_case(rng_seq, k) for k in range(n_seq)])
    # ---- (d) visibility through a CubeSet (after seeded change C09-8: the cube that augment_response
    # rebuilds for a short single-column filter cube lost its transforms, so hidden rows and the zero rows
    # added by the augmentation were displayed in that column only): every partition of the set shows
    # exactly the rows the full-shape cube of the filtered survey shows under the same transforms
    run_set_cases(rep, seed, 24 if tier == "quick" else 300)
    rep.cov["rule"] = (
        "cases from random.Random(seed): CAT/MR x CAT/MR slices, CA slices, CAT/MR strands of 1..6 "
        "elements; surveys of 0..40 respondents, 70% weighted with dyadic weights incl. 0, with dead "
        "categories, categories whose respondents all have weight 0, MR items nobody answered / "
        "answered but never selected / selected only by weightless respondents; prune on 65% of the "
        "dimensions (plus non-True spellings), hides by int / str / alias keys (plus hide: False/None/1), "
        "insertions (60% of the categorical dimensions carry VIEW insertions, 60% of those with hide keys: "
        "true 25/50/100%, false 12%, truthy non-boolean 10%, absent; 30% of the categorical dimensions have a "
        "transforms 'insertions' key in force instead - empty, flagged copies of the view's, subsets / "
        "shuffles / other insertions, 12-35% flagged; see the view-insertion:* / transforms-insertion:* "
        "keys), explicit and label-sorted orders with fixed lists; every MR dimension carries 0, 1 "
        "or 2 DERIVED items (any_selected insertions of the view: derived flag, anchor top / bottom / "
        "before / after an item / stale / absent, value.id = insertion name), shown in payload order, "
        "under an explicit order (50%; ids or aliases) and under a label sort (20%), hidden (35% each) "
        "through an element transform (alias / id key) or through a copy of their insertion carrying "
        "hide: true in transforms.insertions (next to copies with hide: false / without flag / of no "
        "item), pruned when nobody answered them (see the derived:* distribution keys). non-trivial = "
        "prune with an empty vector or an explicit hide; distinct by content hash.  Leg (c) "
        "(shared-transforms:* keys, own random stream): N_SEQ sequences of 2 (75%) or 3 cubes over different "
        "array variables of 2..5 items (layouts weighted arr 2, arr_x_cat 4, cat_x_arr 4, ca 3, mr_x_mr 2, "
        "cat_x_arr_x_cat 2, cat_x_cat_x_arr 2, cat_x_ca 2, numarr 1, numarr_x_cat 2; third cube = the first "
        "again 30%), surveys of 3..30 respondents shaped like above, ONE transforms dict object for the "
        "whole sequence (rows+columns 55%, rows 30%, columns 15%; one object for both axes 25% of rows-only), "
        "1..3 element entries keyed 70% by element id / subvariable id of the first cube's array, else any "
        "spelling of any cube (alias, category id), hide: true 85% / false, None 10% / no flag 5%, prune 50%, "
        "explicit order 25%, label sort 10%; read interleaved 70%, all cubes built first 20%, read in "
        "reverse 10%; every sequence is run a second time with a pristine deep copy per cube (reference); "
        "non-trivial = an id key hides an item in two cubes with other aliases, or a cube hides / prunes.  "
        "Leg (e) (numeric-measure:* keys, own random stream): N_NUM cases of legs (a)/(b) over numeric-measure "
        "responses: strand 15% / one slice of a 3-D cube with a CAT table of 1..3 categories 30% / 2-D 55%, each "
        "dimension CAT 60% / MR 40% of 1..4 (strand 1..5) elements, surveys of 0..40 respondents, 85% weighted, "
        "shaped like above plus (30% of the MR dimensions) an item answered by weightless respondents only; measures "
        "count+mean, mean, count+sum, sum, mean+stddev, count+mean+sum, count+median of a numeric variable; valid "
        "counts both / unweighted only / weighted only / none weighted 2:2:4:1 (unweighted surveys: unweighted only "
        "or none); numeric value missing for 20% of the respondents in at most 35% of the cases and only when the "
        "empty vectors of the slice are the same by valid counts and by counts"
    ).replace("N_SEQ", str(n_seq)).replace("N_NUM", str(n_num))
    rep.cov["coq_eval_seconds"] = round(coq_s, 2)
    rep.cov["model_terms_evaluated"] = n_terms
    rep.assumptions = [
        "leg (c): a transforms key names the base element whose element id (as decimal string), subvariable id "
        "or alias it spells (category id on a categorical dimension); keys that spell no name of the dimension "
        "but parse to a number the id cascade could still read (a position, \"000k\" against element id k) "
        "and elements named by entries with different flags are checked against the fresh-copy reference only; "
        "numeric-array cubes have positive counts everywhere (nothing is empty, nothing may be pruned)",
        "unweighted counts are natural numbers (counts of respondents); valid-count measures are generated by leg (e) "
        "only, where a respondent without a numeric value never decides whether a vector is empty (the unweighted "
        "valid counts and the unweighted counts prescribe the same display)",
        "for array dimensions the shimmed ids / hidden set are taken from the implementation for the MODEL "
        "run (C19 owns the id translation); the ORACLE uses the generator's own record of what it hid",
        "the translation of an MR insertion carrying hide: true into a hide flag on its derived item "
        "(dimension.py Elements._hidden_transforms) is not modelled: the model is fed the hidden set the "
        "implementation reports, only the ORACLE (generator's record of the flagged insertions) decides it; "
        "conflicting instructions (insertion flagged hidden AND an element transform hide: false on the same "
        "item) and truthy non-boolean flags ON MR INSERTIONS are not generated",
        "a subtotal insertion is 'flagged hidden' when its \"hide\" value is the JSON boolean true (view and "
        "transforms insertions alike); false, an absent key and truthy non-booleans (1, \"true\", 1.0, \"yes\") "
        "are not a flag - the same reading as for element hides",
    ]
    return rep.finish("proof", ob, trusted_base=core.TRUSTED_BASE_COMMON + [
        "Model/OrderPruning.v and Model/Collator.v are hand-written; tied to collator.py, dimension.py and the "
        "assembler order helpers by this correspondence run only; the emptiness criterion of the pruning masks "
        "of the nine class pairs (through the factory dict) and of the stripe pruning bases is ALSO tied to the "
        "text of matrix/cubemeasure.py and stripe/cubemeasure.py by the C09_gen_* obligations "
        "(Proofs/GenAgreePruning.v)",
        core.TRUSTED_BASE_TRANSLATOR,
        "the hidden set and the `if idx not in hidden_idxs` filters of the three collators (collator.py _hidden_idxs, "
        "_display_order, payload_order, display_order) are ALSO tied to the source text by the C09_gen_* obligations of "
        "Section GenAgreeCollator_C09 (Proofs/GenAgreeCollatorAnchored.v, GenAgreeCollatorSbv.v)",
        _collator_trusted_base(),
        "the harness' own tabulation of the survey into unweighted eligibility counts (unweighted_tensor)"])


def _collator_trusted_base():
    try:
        from harness.translate import x_collator
        return x_collator.TRUSTED_BASE
    except Exception:  # the translator module is missing: the obligations gate reports it
        return "collator translator harness/translate/x_collator.py not importable"


SET_LEG = "cube-set-visibility"
SET_VIS = ("row_labels", "row_order", "row_codes", "row_aliases", "shape", "is_empty", "row_count",
           "payload_order", "inserted_row_idxs", "rows_dimension_fills")


def set_case_fails(case):
    from harness.props import c06
    return [f for f in c06.check_augment(case)
            if str(f.get("attr", "")).split("(")[0] in SET_VIS
            or f.get("what") in ("exception", "n_partition_sets")]


def run_set_cases(rep, seed, n):
    from harness.props import c06
    rng = random.Random(seed + 77)
    for k in range(n):
        case = c06.gen_augment(rng, 2 * k)          # even k: never prune-only; row transforms on
        case["row_transforms"] = True
        case["leg"] = SET_LEG
        rcase = {kk: vv for kk, vv in case.items() if not kk.startswith("_")}
        fails = set_case_fails(case)
        rep.count_case(rcase, True)
        rep.dist("cube-set-visibility:augment")
        for f in fails[:2]:
            rep.violation("impl-vs-property", rcase, dict(f, what="cube-set:" + str(f.get("what"))),
                          {"what": "cube-set-visibility", "oracle": "full-shape cube under the same transforms"})


def replay(path):
    d = json.load(open(path))
    if d["violation"].get("kind") in core.OBLIGATION_KINDS:  # a broken obligation, no input to re-run
        return core.replay_obligations(PID, d)
    case = d["violation"]["case"]
    rep = core.Report(PID, "quick", d.get("seed", 0))
    rep.findings = []
    if case.get("leg") == SET_LEG:
        fails = set_case_fails(case)
        for f in fails[:5]:
            print("REPLAY still fails:", json.dumps(core.jsonable(f))[:700])
        if not fails:
            print("REPLAY: no longer fails")
        return 1 if fails else 0
    if case.get("leg") == SEQ_LEG:
        run_seq_cases(rep, [case])
    else:
        run_cases(rep, [case])
    for v in rep.violations:
        print("REPLAY still fails:", json.dumps(core.jsonable(v["detail"]))[:700])
    if not rep.violations:
        print("REPLAY: no longer fails")
    return 1 if rep.violations else 0
