# -*- coding: utf-8 -*-
"""C09 - Visibility: hidden iff asked, pruned iff empty by unweighted counts.

Obligations: coq/Props/C09.v (models Model/Collator.v, Model/OrderPruning.v).

Check = (a) correspondence: the UNWEIGHTED respondent counts u[i][s1][j][s2] are computed by
the harness from the survey behind the response (respondent by respondent, no weights); the
model computes the empty vectors from them (Model/OrderPruning.v), the hidden set, the
subtotal-pruning decision and the display order (payload / explicit / label-sorted), and
this is compared with row_order()/column_order() (both formats), codes, labels, shape and
is_empty of slices and strands;  (b) oracle on the implementation alone: a base element
is shown  <=>  not hidden (by the generator's own record of what it hid) and not (prune and
empty), emptiness decided in Python directly from the respondents; subtotals are shown all
or none.  Surveys have zero and fractional weights, categories whose respondents all have
weight 0 (weighted-empty but not unweighted-empty), items nobody answered, items answered
but never selected.

Derived multiple-response items ("MR insertions": elements with "derived": true carrying a
top / bottom / before / after anchor, named after the any_selected insertion of the
variable's view) are base elements like any other: 0..2 of them are generated per MR
dimension, displayed in payload order, under an EXPLICIT order (where collator.py positions
them through the separate `_derived_element_orderings` list) and under a sort by label
(SortByValueCollator), each crossed with hide flags - an element transform under the item's
alias / id, or a copy of the item's insertion carrying "hide": true in the transforms'
"insertions" list - with prune and with items nobody answered.  The oracle (b) is the same:
shown <=> not hidden and not (prune and empty).

Subtotal insertions flagged hidden: the "hide" key (true / false / absent / a truthy value that
is not the JSON boolean: 1, "true", 1.0) is generated on the insertions of the variable VIEW
(references.view.transform.insertions) and on the transforms' "insertions" list alike, with and
without a transforms "insertions" key that overrides the view (complete copies, subsets, an
empty list, other insertions).  Oracle (slices and strands, by NAME from the generator's own
record of what it flagged): a subtotal of the list in force is shown iff it is not flagged
"hide": true (and the opposing dimension does not prune everything away); the model is fed the
flag of every insertion of both lists (`i_hide` of Model/Collator.v).
"""
import copy
import json
import random
from fractions import Fraction

from harness import core, gen, impl
from harness.core import g_list, g_nat
from harness.props import order_util as ou

PID = "C09"
IMPORTS = ou.IMPORTS + "\nFrom CC Require Import Model.OrderPruning."

SEL, OTH, MIS = gen.SEL, gen.OTH, gen.MIS


# ------------------------------------------------------------------------------------
# survey -> unweighted eligibility counts
# ------------------------------------------------------------------------------------


def valid_positions(v):
    """payload positions of the valid categories of a cat / ca variable"""
    return [k for k, c in enumerate(v.cats) if not c["missing"]]


def axis_cells(v, ans, role):
    """cells (element index, state) a respondent's answer is eligible for on the axis that
    variable v contributes in `role` ('elements' of a cat / items of mr)."""
    if v.kind in ("cat", "cat_date"):
        vp = valid_positions(v)
        return [(vp.index(ans), 0)] if ans in vp else []
    if v.kind == "mr":
        return [(k, s) for k, s in enumerate(ans) if s != MIS]
    raise ValueError(v.kind)


def axis_size(v):
    if v.kind in ("cat", "cat_date"):
        return len(valid_positions(v)), 1
    if v.kind == "mr":
        return len(v.items), 2
    raise ValueError(v.kind)


def unweighted_tensor(survey, aliases):
    """u[i][s1][j][s2] (slice) or u[i][s] (strand) from the respondents; weights ignored."""
    vs = [survey.var(a) for a in aliases]
    if len(vs) == 1 and vs[0].kind == "ca":
        v = vs[0]
        vp = valid_positions(v)
        u = [[[[0] for _ in vp]] for _ in v.items]
        for r in survey.resp:
            for k, a in enumerate(r["ans"][v.alias]):
                if a in vp:
                    u[k][0][vp.index(a)][0] += 1
        return u
    if len(vs) == 1:
        n, ns = axis_size(vs[0])
        u = [[0] * ns for _ in range(n)]
        for r in survey.resp:
            for (i, s) in axis_cells(vs[0], r["ans"][vs[0].alias], "rows"):
                u[i][s] += 1
        return u
    rv, cv = vs
    nr, ns1 = axis_size(rv)
    nc, ns2 = axis_size(cv)
    u = [[[[0] * ns2 for _ in range(nc)] for _ in range(ns1)] for _ in range(nr)]
    for r in survey.resp:
        for (i, s1) in axis_cells(rv, r["ans"][rv.alias], "rows"):
            for (j, s2) in axis_cells(cv, r["ans"][cv.alias], "columns"):
                u[i][s1][j][s2] += 1
    return u


def g_t4(u):
    return g_list([g_list([g_list([g_list([g_nat(x) for x in c]) for c in b]) for b in a]) for a in u])


def g_t2(u):
    return g_list([g_list([g_nat(x) for x in a]) for a in u])


def py_empties(u, strand, mrxmr):
    """the emptiness rule of the property, in Python, from the same respondent counts"""
    if strand:
        return [[i for i, row in enumerate(u) if sum(row) == 0]]
    nr = len(u)
    nc = len(u[0][0]) if nr else 0
    rows = []
    for i in range(nr):
        planes = u[i][:1] if mrxmr else u[i]
        if sum(x for p in planes for c in p for x in c) == 0:
            rows.append(i)
    cols = []
    for j in range(nc):
        tot = 0
        for i in range(nr):
            for p in u[i]:
                tot += sum(p[j][:1] if mrxmr else p[j])
        if tot == 0:
            cols.append(j)
    return [rows, cols]


# ------------------------------------------------------------------------------------
# cases
# ------------------------------------------------------------------------------------


def shape_survey(rng, sv, variables):
    """make empties of every flavour"""
    for v in variables:
        if v.kind in ("cat", "cat_date"):
            n = len(v.cats)
            dead = set(k for k in range(n) if rng.random() < 0.3)
            alive = [k for k in range(n) if k not in dead] or [0]
            for r in sv.resp:
                if r["ans"][v.alias] in dead:
                    r["ans"][v.alias] = rng.choice(alive)
            # a category whose respondents all weigh nothing
            if sv.weighted and rng.random() < 0.5:
                z = rng.choice(alive)
                for r in sv.resp:
                    if r["ans"][v.alias] == z:
                        r["w"] = Fraction(0)
        elif v.kind == "mr":
            for k in range(len(v.items)):
                x = rng.random()
                for r in sv.resp:
                    a = r["ans"][v.alias]
                    if x < 0.2:
                        a[k] = MIS                       # nobody eligible
                    elif x < 0.45 and a[k] == SEL:
                        a[k] = OTH                       # answered, never selected
                    elif x < 0.55 and a[k] == SEL and sv.weighted:
                        r["w"] = Fraction(0)             # selected only by weightless respondents
        elif v.kind == "ca":
            for r in sv.resp:
                a = r["ans"][v.alias]
                for k in range(len(a)):
                    if rng.random() < 0.3:
                        a[k] = 0


def add_mr_insertions(rng, v, n_derived):
    """Turn `n_derived` items of the MR variable into derived items, the way zz9 delivers the
    any_selected insertions of the variable's view: the element is flagged "derived", carries the
    insertion's anchor in its references and is named (value.id AND name) after the insertion;
    the insertion itself is listed in references.view.transform.insertions."""
    n = len(v.items)
    ks = sorted(rng.sample(range(n), min(n_derived, n)))
    plain = [it["alias"] for k, it in enumerate(v.items) if k not in ks]
    view = []
    for k in ks:
        it = v.items[k]
        name = "%s any %d" % (v.alias, k)
        it["derived"] = True
        it["name"] = name
        it["subvar_id"] = name
        r = rng.random()
        if r < 0.2:
            anchor = "top"
        elif r < 0.4:
            anchor = "bottom"
        elif r < 0.5:
            anchor = None                                   # no anchor at all
        else:
            others = plain + [v.items[j]["alias"] for j in ks if j != k] + ["nope"]
            anchor = {"alias": rng.choice(plain or others) if rng.random() < 0.75 else rng.choice(others),
                      "position": rng.choice(["before", "after", "after"])}
        if anchor is not None:
            it["anchor"] = anchor
        ins = {"function": "any_selected", "name": name,
               "kwargs": {"variable": v.alias,
                          "subvariable_ids": rng.sample(plain, min(len(plain), 2)) if plain else []}}
        if anchor is not None:
            ins["anchor"] = anchor
        view.append(ins)
    if view:
        v.view_insertions = view
    v.derived_idxs = ks


HIDE_OTHER = [1, "true", 1.0, "yes"]


def flag_insertion_hides(rng, ins, p_true):
    """put a "hide" key on the subtotal insertion dicts of `ins` (in place): true with
    probability p_true, else false (12%), a truthy non-boolean (10%) or no key at all"""
    for d in ins:
        if not isinstance(d, dict):
            continue
        r = rng.random()
        if r < p_true:
            d["hide"] = True
        elif r < p_true + 0.12:
            d["hide"] = False
        elif r < p_true + 0.22:
            d["hide"] = rng.choice(HIDE_OTHER)
        else:
            d.pop("hide", None)
    return ins


def hide_kind(d):
    if "hide" not in d:
        return "absent"
    h = d["hide"]
    return "true" if h is True else "false" if h is False else "truthy-non-bool" if h else "falsy-non-bool"


def dim_transforms(rng, v, role, truth):
    """transforms dict for the dimension v contributes in `role`; records what it hides"""
    t = {}
    if role == "items":
        ids = [it["id"] for it in v.items]
        aliases = [it["alias"] for it in v.items]
        derived = list(getattr(v, "derived_idxs", []))
        hidden = [k for k in range(len(ids)) if rng.random() < (0.35 if k in derived else 0.2)]
        how = {}
        flagged = []
        if hidden:
            t["elements"] = {}
            for k in hidden:
                if k in derived and rng.random() < 0.45:
                    flagged.append(k)                        # hidden through its insertion, below
                    how[k] = "insertion-flag"
                    continue
                key = rng.choice([str(ids[k]), aliases[k]]) if v.kind == "mr" else str(ids[k])
                t["elements"][key] = {"hide": True}
                how[k] = "element-transform"
            if rng.random() < 0.3:
                k = rng.randrange(len(ids))
                if k not in hidden:
                    t["elements"][str(ids[k])] = {"hide": rng.choice([False, None])}
            if not t["elements"]:
                del t["elements"]
        if derived and (flagged or rng.random() < 0.25):
            # transforms "insertions" of an MR dimension: complete copies of the variable's
            # insertions; the ones carrying "hide": true suppress their derived item, the others
            # (no flag, "hide": false, a name that is no item of the dimension) change nothing
            tins = []
            for d in v.view_insertions:
                k = [j for j in derived if v.items[j]["subvar_id"] == d["name"]][0]
                c = copy.deepcopy(d)
                if k in flagged:
                    c["hide"] = True
                elif rng.random() < 0.3:
                    c["hide"] = False
                elif rng.random() < 0.3:
                    continue
                tins.append(c)
            if rng.random() < 0.3:
                tins.append({"function": "any_selected", "name": "no such item", "anchor": "top",
                             "kwargs": {"variable": v.alias, "subvariable_ids": []}, "hide": True})
            rng.shuffle(tins)
            t["insertions"] = tins
        r = rng.random()
        p_explicit = 0.5 if derived else 0.3
        if r < p_explicit:
            pool = ids if rng.random() < 0.7 or v.kind != "mr" else ids + aliases
            t["order"] = {"type": "explicit",
                          "element_ids": rng.sample(pool, rng.randint(0, len(ids)))}
        elif r < p_explicit + 0.2 and v.kind == "mr":
            t["order"] = {"type": "label", "direction": rng.choice(["ascending", "descending"])}
            if rng.random() < 0.4:
                t["order"]["fixed"] = {rng.choice(["top", "bottom"]): rng.sample(ids, 1)}
        truth["how"] = {str(k): h for k, h in how.items()}
        truth["derived"] = derived
    else:
        valid = gen.valid_cat_ids(v)
        hidden = [k for k in range(len(valid)) if rng.random() < 0.2]
        if hidden:
            t["elements"] = {}
            for k in hidden:
                key = str(valid[k]) if rng.random() < 0.8 else valid[k]
                t["elements"][key] = {"hide": True}
        if rng.random() < 0.2 and valid:
            k = rng.randrange(len(valid))
            if k not in hidden:
                t.setdefault("elements", {})[str(valid[k])] = {"hide": rng.choice([False, None, 1, "true"])}
        if rng.random() < 0.6:
            v.view_insertions = ou.random_insertion_list(rng, v, [valid[k] for k in hidden], max_n=3)
            if rng.random() < 0.6:
                # hide flags on the insertions of the variable VIEW
                flag_insertion_hides(rng, v.view_insertions, rng.choice([0.25, 0.5, 1.0]))
        if rng.random() < 0.3:
            # a transforms "insertions" key is in force INSTEAD of the view (flagged or not)
            r2 = rng.random()
            if r2 < 0.12:
                t["insertions"] = []
            elif r2 < 0.3 and v.view_insertions:
                # complete copies of the view's insertions with flags of their own
                t["insertions"] = flag_insertion_hides(
                    rng, copy.deepcopy(v.view_insertions), rng.choice([0.0, 0.3, 0.6]))
            else:
                t["insertions"] = ou.derive_transform_insertions(rng, v.view_insertions or [], v)
                if rng.random() < 0.4:
                    flag_insertion_hides(rng, t["insertions"], 0.35)
        truth["insertions_from"] = "transforms" if "insertions" in t else "view"
        # the generator's own record: which insertions of the list in force it flagged hidden and
        # which subtotals (by name) the property says are shown
        src = t["insertions"] if "insertions" in t else (v.view_insertions or [])
        truth["subtotals_flagged"] = [d["name"] for d in src if d.get("hide") is True]
        truth["subtotals_expected"] = [d["name"] for d in src if d.get("hide") is not True
                                       and any(x in valid for x in ou.ins_terms(d))]
        truth["view_hide_kinds"] = [hide_kind(d) for d in (v.view_insertions or [])]
        truth["tins_hide_kinds"] = [hide_kind(d) for d in t["insertions"]] if "insertions" in t else None
        r = rng.random()
        if r < 0.25:
            t["order"] = {"type": "explicit", "element_ids": ou.random_explicit_ids(rng, valid)}
        elif r < 0.45:
            t["order"] = {"type": "label", "direction": rng.choice(["ascending", "descending"])}
            if rng.random() < 0.5 and valid:
                t["order"]["fixed"] = {rng.choice(["top", "bottom"]): rng.sample(valid, 1)}
    pr = rng.random()
    if pr < 0.65:
        t["prune"] = True
    elif pr < 0.75:
        t["prune"] = rng.choice([False, "true", 1, None])
    truth["hidden"] = sorted(hidden)
    truth["prune"] = t.get("prune") is True
    return t


def make_mr(rng, alias, n_items):
    v = gen.make_mr(rng, alias, n_items=n_items)
    add_mr_insertions(rng, v, rng.choice([0, 0, 1, 1, 2, 2]))
    return v


def gen_case(rng, k):
    strand = rng.random() < 0.25
    if strand:
        kind = rng.choice(["cat", "cat", "mr"])
        v = (gen.make_cat(rng, "r", n_valid=rng.randint(1, 6)) if kind == "cat"
             else make_mr(rng, "r", rng.randint(1, 5)))
        variables, aliases, roles = [v], ["r"], ["elements" if kind == "cat" else "items"]
    else:
        x = rng.random()
        if x < 0.1:
            v = gen.make_ca(rng, "a", n_items=rng.randint(1, 4), n_valid=rng.randint(1, 4))
            variables, aliases, roles = [v], ["a"], ["items", "elements"]
        else:
            rk = rng.choice(["cat", "cat", "mr"])
            ck = rng.choice(["cat", "cat", "mr"])
            rv = (gen.make_cat(rng, "r", n_valid=rng.randint(1, 5)) if rk == "cat"
                  else make_mr(rng, "r", rng.randint(1, 5)))
            cv = (gen.make_cat(rng, "c", n_valid=rng.randint(1, 5)) if ck == "cat"
                  else make_mr(rng, "c", rng.randint(1, 5)))
            variables, aliases = [rv, cv], ["r", "c"]
            roles = ["elements" if rk == "cat" else "items", "elements" if ck == "cat" else "items"]
    truth = [{} for _ in roles]
    transforms = {}
    keys = ["rows_dimension", "columns_dimension"]
    for n, role in enumerate(roles):
        v = variables[0] if len(variables) == 1 else variables[n]
        transforms[keys[n]] = dim_transforms(rng, v, role, truth[n])
    sv = gen.Survey(variables, rng.choice([0, 2, 5, 10, 20, 40]), rng,
                    weighted=rng.random() < 0.7)
    shape_survey(rng, sv, variables)
    resp = gen.cube_response(sv, aliases, measures=("count",))
    u = unweighted_tensor(sv, aliases)
    _, wc = gen.tabulate(sv, aliases, weight=True)
    _, uc = gen.tabulate(sv, aliases, weight=False)
    differ = any((a == 0) != (b == 0) for a, b in zip(wc, uc))
    mrxmr = (not strand and len(variables) == 2 and variables[0].kind == "mr"
             and variables[1].kind == "mr")
    return {"k": k, "strand": strand, "response": resp, "transforms": transforms,
            "u": u, "truth": truth, "mrxmr": mrxmr, "weighted_differs": differ,
            "kinds": [v.kind for v in variables]}


# ------------------------------------------------------------------------------------


def valid_sources(m):
    """positions of the valid subtotal dicts (mirror of ins_valid, for the label values)"""
    out = []
    ids = set(m.ids)
    for k, d in enumerate(m.source_list() or []):
        if not isinstance(d, dict) or d.get("function") != "subtotal":
            continue
        if d.get("hide") is True or "anchor" not in d or "name" not in d:
            continue
        if not any(t in ids for t in ou.ins_terms(d)):
            continue
        out.append(k)
    return out


def ordering_term(m):
    od = m.order_dict
    if od.get("type") == "label":
        subl = [] if m.array else [m.source_list()[k].get("name") or "" for k in valid_sources(m)]
        return ou.value_ordering_term(od, (m.labels, subl))
    return ou.anchored_ordering_term(od)


def prepare(case):
    strand = case["strand"]
    r = impl.guarded(lambda: impl.partition(case["response"], case["transforms"]))
    if r[0] != "ok":
        return ("skip", "partition-raises:%s" % r[1])
    part = r[1]
    obs = ou.observe(part, strand)
    try:
        ms = ou.dim_models(part, case["response"], case["transforms"], strand)
    except ou.Unsupported as e:
        return ("skip", "unsupported:%s" % e)
    u = case["u"]
    b = "true" if case["mrxmr"] else "false"
    terms = []
    if strand:
        emp = ["(empty_strand_rows %s [])" % g_t2(u)]
        psubs = ["false"]
    else:
        nc = ms[1].n
        er = "(empty_rows %s %s [])" % (b, g_t4(u))
        ec = "(empty_columns %s %s %s [])" % (b, g_nat(nc), g_t4(u))
        emp = [er, ec]
        psubs = ["(prune_subtotals %s %s %s)" % (core.g_bool(ms[1].prune), ec, g_nat(ms[1].n)),
                 "(prune_subtotals %s %s %s)" % (core.g_bool(ms[0].prune), er, g_nat(ms[0].n))]
    for k, m in enumerate(ms):
        terms.append("run_dim_full %s %s %s %s" % (m.term, ordering_term(m), emp[k], psubs[k]))
    return {"obs": obs, "models": ms, "terms": terms}


def oracle(case, prep):
    """shown <=> not hidden and not (prune and empty by unweighted counts); subtotals all or none"""
    out = []
    obs, ms = prep["obs"], prep["models"]
    strand = case["strand"]
    emp = py_empties(case["u"], strand, case["mrxmr"])
    axes = ["row"] if strand else ["row", "column"]
    for k, axis in enumerate(axes):
        o = obs[axis + "_order"]
        if o[0] != "ok":
            out.append((axis + ".visible_iff", {"impl": o}))
            continue
        tr = case["truth"][k]
        n = ms[k].n
        want = [i for i in range(n)
                if i not in tr["hidden"] and not (tr["prune"] and i in emp[k])]
        got = sorted(z for z in o[1] if z >= 0)
        if got != want or len(got) != len(set(got)):
            out.append((axis + ".visible_iff",
                        {"shown": got, "expected": want, "hidden": tr["hidden"],
                         "prune": tr["prune"], "empty_unweighted": emp[k]}))
        all_empty = False
        if not strand:
            opp = 1 - k
            all_empty = case["truth"][opp]["prune"] and len(emp[opp]) == ms[opp].n
            nsub = len(valid_sources(ms[k])) if not ms[k].array else 0
            subs = sorted(z for z in o[1] if z < 0)
            wsub = [] if all_empty else list(range(-nsub, 0))
            if subs != wsub:
                out.append((axis + ".subtotal_pruning",
                            {"shown": subs, "expected": wsub, "opposing_all_empty": all_empty}))
        if "subtotals_expected" in tr and not ms[k].array:
            # by NAME, from the generator's record: shown iff not flagged "hide": true (and not
            # pruned away by the opposing dimension); strands never prune subtotals
            lab = obs[axis + "_labels"]
            if lab[0] != "ok" or len(lab[1]) != len(o[1]):
                out.append((axis + ".subtotal_hidden_iff", {"impl_labels": lab, "order": o[1]}))
            else:
                shown = sorted(l for l, z in zip(lab[1], o[1]) if z < 0)
                want = [] if all_empty else sorted(tr["subtotals_expected"])
                if shown != want:
                    out.append((axis + ".subtotal_hidden_iff",
                                {"shown": shown, "expected": want, "flagged_hidden": tr["subtotals_flagged"],
                                 "insertions_from": tr.get("insertions_from"),
                                 "opposing_all_empty": all_empty}))
    return out


def check_case(case, prep, results):
    out = []
    obs, ms = prep["obs"], prep["models"]
    strand = case["strand"]
    axes = ["row"] if strand else ["row", "column"]
    shape = []
    for k, (axis, m) in enumerate(zip(axes, ms)):
        dec = ou.decode_run_dim(results[k])
        for what, detail in ou.compare_dim(axis, m, dec, obs, strand):
            out.append(("impl-vs-model", what, detail))
        shape.append(("ok", len(dec["signed"][1])) if dec["signed"][0] == "ok" else dec["signed"])
    if all(s[0] == "ok" for s in shape):
        want = ("ok", [s[1] for s in shape])
        if obs["shape"] != want:
            out.append(("impl-vs-model", "shape", {"model": want, "impl": obs["shape"]}))
        we = ("ok", any(s[1] == 0 for s in shape))
        if obs["is_empty"] != we:
            out.append(("impl-vs-model", "is_empty", {"model": we, "impl": obs["is_empty"]}))
    for what, detail in oracle(case, prep):
        out.append(("visibility-oracle", what, detail))
    return out


def _replayable(case):
    return {k: case[k] for k in ("response", "transforms", "strand", "u", "truth", "mrxmr",
                                 "kinds", "weighted_differs", "k")}


def run_cases(rep, cases):
    preps, terms = [], []
    for case in cases:
        p = prepare(case)
        preps.append(p)
        if isinstance(p, dict):
            terms.extend(p["terms"])
    results, coq_s = core.run_coq_cases(PID, IMPORTS, terms) if terms else ([], 0.0)
    pos = 0
    for case, p in zip(cases, preps):
        if not isinstance(p, dict):
            rep.count_case(_replayable(case), False)
            rep.dist("skipped:" + p[1].split(":")[0])
            rep.violation("impl-exception", _replayable(case), {"why": p[1]},
                          {"what": "partition-raises"})
            continue
        res = results[pos:pos + len(p["terms"])]
        pos += len(p["terms"])
        anyprune = any(t["prune"] for t in case["truth"])
        emp = py_empties(case["u"], case["strand"], case["mrxmr"])
        nontriv = anyprune and any(emp) or any(t["hidden"] for t in case["truth"]) or \
            any(t.get("subtotals_flagged") for t in case["truth"])
        rep.count_case(_replayable(case), nontriv)
        rep.dist("strand" if case["strand"] else "slice")
        rep.dist("kinds:" + "x".join(case["kinds"]))
        if anyprune and any(emp):
            rep.dist("prune-with-empty-vectors")
        if case["weighted_differs"]:
            rep.dist("weighted-and-unweighted-emptiness-differ")
        if any(t["hidden"] for t in case["truth"]):
            rep.dist("explicit-hides")
        if not case["strand"] and any(case["truth"][k]["prune"] and len(emp[k]) == p["models"][k].n
                                      for k in (0, 1)):
            rep.dist("all-opposing-empty(subtotals pruned)")
        for m in p["models"]:
            rep.dist("order:" + str(m.order_dict.get("type", "payload")))
        sk = "strand" if case["strand"] else "slice"
        for tr in case["truth"]:
            if "insertions_from" not in tr:
                continue
            for hk in tr.get("view_hide_kinds") or []:
                rep.dist("view-insertion:hide=" + hk)
            for hk in tr.get("tins_hide_kinds") or []:
                rep.dist("transforms-insertion:hide=" + hk)
            vflag = "true" in (tr.get("view_hide_kinds") or [])
            if tr["insertions_from"] == "view":
                if vflag:
                    rep.dist("view-insertion-hidden,no-transforms-insertions-key")
                    rep.dist("view-insertion-hidden,no-transforms-insertions-key:" + sk)
                    if len(tr["subtotals_flagged"]) < len(tr.get("view_hide_kinds") or []):
                        rep.dist("view:some-hidden-some-shown")
            else:
                rep.dist("transforms-insertions-key-overrides-view" +
                         (":view-had-hidden" if vflag else ""))
                if tr.get("tins_hide_kinds") == []:
                    rep.dist("transforms-insertions-key:empty-list")
                if tr["subtotals_flagged"]:
                    rep.dist("transforms-insertion-hidden:" + sk)
            if tr["subtotals_flagged"]:
                rep.dist("subtotal-flagged-hidden(list in force)")
        for kk, (tr, m) in enumerate(zip(case["truth"], p["models"])):
            der = tr.get("derived")
            if der is None:
                continue
            if not m.array or case["kinds"][min(kk, len(case["kinds"]) - 1)] != "mr":
                continue
            rep.dist("mr-dim:derived-items=%d" % len(der))
            if not der:
                continue
            otype = str(m.order_dict.get("type", "payload"))
            rep.dist("derived:order:" + otype)
            how = tr.get("how", {})
            gone = []
            for i in der:
                if how.get(str(i)) == "element-transform":
                    rep.dist("derived:hidden-by-element-transform")
                    rep.dist("derived:%s+hidden-by-element-transform" % otype)
                    gone.append(i)
                elif how.get(str(i)) == "insertion-flag":
                    rep.dist("derived:hidden-by-insertion-flag")
                    rep.dist("derived:%s+hidden-by-insertion-flag" % otype)
                    gone.append(i)
                elif tr["prune"] and i in emp[kk]:
                    rep.dist("derived:pruned-empty")
                    rep.dist("derived:%s+pruned-empty" % otype)
                    gone.append(i)
                elif i in emp[kk]:
                    rep.dist("derived:empty-not-pruned")
            if "insertions" in (case["transforms"].get(["rows_dimension", "columns_dimension"][kk]) or {}):
                rep.dist("derived:transforms-insertions-list")
            if gone and len(gone) < len(der):
                rep.dist("derived:one-gone-one-shown")
        rep.sample({"transforms": case["transforms"], "kinds": case["kinds"], "u": case["u"]})
        for kind, what, detail in check_case(case, p, res):
            rep.violation(kind, _replayable(case), dict(detail, what=what),
                          {"what": what.split(".")[-1], "kinds": "x".join(case["kinds"])})
    return coq_s, len(terms)


def run(tier, seed):
    rep = core.Report(PID, tier, seed)
    ob = core.obligations_gate(rep, PID)
    n_cases = 400 if tier == "quick" else 6000
    rng = random.Random(seed)
    cases = [gen_case(rng, k) for k in range(n_cases)]
    coq_s, n_terms = run_cases(rep, cases)
    rep.cov["rule"] = (
        "cases from random.Random(seed): CAT/MR x CAT/MR slices, CA slices, CAT/MR strands of 1..6 "
        "elements; surveys of 0..40 respondents, 70% weighted with dyadic weights incl. 0, with dead "
        "categories, categories whose respondents all have weight 0, MR items nobody answered / "
        "answered but never selected / selected only by weightless respondents; prune on 65% of the "
        "dimensions (plus non-True spellings), hides by int / str / alias keys (plus hide: False/None/1), "
        "insertions (60% of the categorical dimensions carry VIEW insertions, 60% of those with hide keys: "
        "true 25/50/100%, false 12%, truthy non-boolean 10%, absent; 30% of the categorical dimensions have a "
        "transforms 'insertions' key in force instead - empty, flagged copies of the view's, subsets / "
        "shuffles / other insertions, 12-35% flagged; see the view-insertion:* / transforms-insertion:* "
        "keys), explicit and label-sorted orders with fixed lists; every MR dimension carries 0, 1 "
        "or 2 DERIVED items (any_selected insertions of the view: derived flag, anchor top / bottom / "
        "before / after an item / stale / absent, value.id = insertion name), shown in payload order, "
        "under an explicit order (50%; ids or aliases) and under a label sort (20%), hidden (35% each) "
        "through an element transform (alias / id key) or through a copy of their insertion carrying "
        "hide: true in transforms.insertions (next to copies with hide: false / without flag / of no "
        "item), pruned when nobody answered them (see the derived:* distribution keys). non-trivial = "
        "prune with an empty vector or an explicit hide; distinct by content hash")
    rep.cov["coq_eval_seconds"] = round(coq_s, 2)
    rep.cov["model_terms_evaluated"] = n_terms
    rep.assumptions = [
        "unweighted counts are natural numbers (counts of respondents); valid-count measures not generated",
        "for array dimensions the shimmed ids / hidden set are taken from the implementation for the MODEL "
        "run (C19 owns the id translation); the ORACLE uses the generator's own record of what it hid",
        "the translation of an MR insertion carrying hide: true into a hide flag on its derived item "
        "(dimension.py Elements._hidden_transforms) is not modelled: the model is fed the hidden set the "
        "implementation reports, only the ORACLE (generator's record of the flagged insertions) decides it; "
        "conflicting instructions (insertion flagged hidden AND an element transform hide: false on the same "
        "item) and truthy non-boolean flags ON MR INSERTIONS are not generated",
        "a subtotal insertion is 'flagged hidden' when its \"hide\" value is the JSON boolean true (view and "
        "transforms insertions alike); false, an absent key and truthy non-booleans (1, \"true\", 1.0, \"yes\") "
        "are not a flag - the same reading as for element hides",
    ]
    return rep.finish("proof", ob, trusted_base=core.TRUSTED_BASE_COMMON + [
        "Model/OrderPruning.v and Model/Collator.v are hand-written; tied to collator.py, dimension.py and the "
        "assembler order helpers by this correspondence run only; the emptiness criterion of the pruning masks "
        "of the nine class pairs (through the factory dict) and of the stripe pruning bases is ALSO tied to the "
        "text of matrix/cubemeasure.py and stripe/cubemeasure.py by the C09_gen_* obligations "
        "(Proofs/GenAgreePruning.v)",
        core.TRUSTED_BASE_TRANSLATOR,
        "the hidden set and the `if idx not in hidden_idxs` filters of the three collators (collator.py _hidden_idxs, "
        "_display_order, payload_order, display_order) are ALSO tied to the source text by the C09_gen_* obligations of "
        "Section GenAgreeCollator_C09 (Proofs/GenAgreeCollatorAnchored.v, GenAgreeCollatorSbv.v)",
        _collator_trusted_base(),
        "the harness' own tabulation of the survey into unweighted eligibility counts (unweighted_tensor)"])


def _collator_trusted_base():
    try:
        from harness.translate import x_collator
        return x_collator.TRUSTED_BASE
    except Exception:  # the translator module is missing: the obligations gate reports it
        return "collator translator harness/translate/x_collator.py not importable"


def replay(path):
    d = json.load(open(path))
    if d["violation"].get("kind") in core.OBLIGATION_KINDS:  # a broken obligation, no input to re-run
        return core.replay_obligations(PID, d)
    case = d["violation"]["case"]
    rep = core.Report(PID, "quick", d.get("seed", 0))
    rep.findings = []
    run_cases(rep, [case])
    for v in rep.violations:
        print("REPLAY still fails:", json.dumps(core.jsonable(v["detail"]))[:700])
    if not rep.violations:
        print("REPLAY: no longer fails")
    return 1 if rep.violations else 0
