# -*- coding: utf-8 -*-
"""C13 - correspondence leg for the p-values UP TO the CDF (model: coq/Model/PairwiseP.v).

The p-value theorems and the GenAgree lemmas of the pairwise translator are statements for EVERY
function standing for scipy's `t.cdf`.  This leg instantiates that function on both sides with the
same exact rational stand-in

    cdf_probe(x, df) = x^2 / (x^2 + df^2 + 1)        (implementation side: x|x| / (x^2 + df^2 + 1), the
                                                      same for x >= 0 but odd in x: a dropped abs shows)

- in the model: `pw_pblock cdf_probe`, `welch_pblock cdf_probe`, `ov_pblock cdf_probe` evaluated in
  Coq on the implementation's own public proportions / bases / means / overlap counts;
- in the implementation: a FRESH partition is built and read while the name `t` of
  cr.cube.matrix.measure (its `from scipy.stats import t`) is replaced by an object whose `.cdf` is
  that function (restored afterwards; nothing else of the library is touched);
and compares pairwise_significance_p_vals(c) / pairwise_significance_means_p_vals(c) of every
displayed column cell by cell (absolute tolerance 1e-9).  So everything the code does around the
CDF call - abs of the statistic, WHICH t block and WHICH degrees of freedom are handed to it, 2(1-.),
the NaN guard of the means path, the p = 0 of the overlap path's own column - is compared exactly,
independently of scipy.  Zero-variance boundary cells (c13_util) are skipped and counted.
"""
import math

import numpy as np

from harness import core, impl
from harness.core import g_mat, g_Z, g_nat, g_list
from harness.props import c12_util as U

IMPORT_LINE = "From CC Require Import Model.PairwiseP."


class _ProbeT(object):
    """stand-in for scipy.stats.t: only `.cdf(x, df=df)`"""

    @staticmethod
    def cdf(x, df=None):
        with np.errstate(all="ignore"):
            x = np.asarray(x, dtype=float)
            d = np.asarray(df, dtype=float)
            # x * |x|: equal to x^2 for the x >= 0 the code hands over (abs(t_stats)), but NOT even in
            # x, so that a dropped abs shows
            xx = x * np.abs(x)
            return xx / (np.abs(xx) + d * d + 1.0)


def wanted(case):
    """a deterministic half of the cases (the case number is part of a replay)"""
    return case.get("k", 0) % 2 == 0


def probe_impl(case):
    """('ok', {"row_order", "column_order", "p": [guarded matrix per display column]}) | ('exc', ..)"""
    import cr.cube.matrix.measure as mm

    means = case["stream"] == "means"
    pn = "pairwise_significance_means_p_vals" if means else "pairwise_significance_p_vals"

    def f():
        old = mm.t
        mm.t = _ProbeT()
        try:
            part = impl.partition(case["response"], case["transforms"])
            out = {"row_order": impl.get(part, "row_order"), "column_order": impl.get(part, "column_order")}
            if out["column_order"][0] != "ok":
                return out
            out["p"] = [impl.get(part, pn, c) for c in range(len(out["column_order"][1]))]
            return out
        finally:
            mm.t = old

    return impl.guarded(f, seconds=60)


def matrix_term(p_blocks, n_blocks, sels):
    """p_blocks: 'P00 P01 P10 P11' (Gallina), n_blocks: list of the four base blocks (Gallina)"""
    return (
        "let n00 := %s in let n01 := %s in let n10 := %s in let n11 := %s in "
        "flat_map (fun sel => let A := pw_all sel %s n00 n01 n10 n11 in "
        "r_mat (pw_pblock cdf_probe (nth 0 A []) n00 (ref_col sel n00 n01)) ++ "
        "r_mat (pw_pblock cdf_probe (nth 1 A []) n01 (ref_col sel n00 n01)) ++ "
        "r_mat (pw_pblock cdf_probe (nth 2 A []) n10 (ref_col sel n10 n11)) ++ "
        "r_mat (pw_pblock cdf_probe (nth 3 A []) n11 (ref_col sel n10 n11))) %s"
        % (n_blocks[0], n_blocks[1], n_blocks[2], n_blocks[3], p_blocks, g_list([g_Z(s) for s in sels]))
    )


def welch_term(M, S, N, sels):
    return ("flat_map (fun sel => r_mat (welch_pblock cdf_probe sel %s %s %s)) %s"
            % (g_mat(M), g_mat(S), g_mat(N), g_list([g_Z(s) for s in sels])))


def overlap_term(cp0, gS, gN, cp1, gS1, gN1, sels):
    return ("flat_map (fun a => r_mat (ov_pblock cdf_probe a %s %s %s) ++ r_mat (ov_pblock cdf_probe a %s %s %s)) %s"
            % (g_mat(cp0), gS, gN, g_mat(cp1), gS1, gN1, g_list([g_nat(s) for s in sels])))


def _mf(m):
    """model cell (Fraction | 'nan' | 'inf' | '-inf') -> float"""
    if isinstance(m, str):
        return float(m)
    return float(m)


def _close(a, b, tol=1e-9):
    a = float("nan") if a is None else float(a)
    if math.isnan(a) or math.isnan(b):
        return math.isnan(a) and math.isnan(b)
    if math.isinf(a) or math.isinf(b):
        return a == b
    return abs(a - b) <= tol


def compare_full(io, c, p_full, fails, what, bd_full=None):
    """p_full: the model's payload-order full matrix for display column c of the probe run"""
    R = io["probe"]
    nr, nrs, nc, ncs = io["dims"]
    ro, co = R["row_order"][1], R["column_order"][1]
    if c >= len(R["p"]):
        fails.append((what + "-shape", {"display_col": c, "n_display_cols": len(R["p"])}))
        return
    Pv = R["p"][c]
    if Pv[0] != "ok":
        fails.append((what + "-exception", {"display_col": c, "p": Pv}))
        return
    Pv = np.asarray(Pv[1], dtype=float)
    if Pv.shape != (len(ro), len(co)):
        fails.append((what + "-shape", {"display_col": c, "p": list(Pv.shape)}))
        return
    try:
        mp = U.display_of(p_full, ro, co, nr + nrs, nc + ncs)
        bd = U.display_of(bd_full, ro, co, nr + nrs, nc + ncs) if bd_full is not None else None
    except IndexError:
        fails.append((what + "-shape", {"display_col": c, "model": "block shapes"}))
        return
    for i in range(len(ro)):
        for j in range(len(co)):
            if bd is not None and bd[i][j] is not None:
                io["probe_bd_skipped"] = io.get("probe_bd_skipped", 0) + 1
                continue
            io["probe_cells"] = io.get("probe_cells", 0) + 1
            if not _close(Pv[i, j], _mf(mp[i][j])):
                fails.append((what + "-p", {
                    "display_col": c, "cell": [i, j], "impl_p_under_probe_cdf": float(Pv[i, j]),
                    "model_p_under_probe_cdf": core.jsonable(mp[i][j]),
                    "selected_payload": int(co[c]), "payload": [int(ro[i]), int(co[j])],
                    "probe_cdf": "x^2 / (x^2 + df^2 + 1) in place of scipy.stats.t.cdf"}))
                return
