# -*- coding: utf-8 -*-
"""C14 - Scale mean, median, standard deviation and error from category numeric values.

Obligations: coq/Props/C14.v (model: coq/Model/Scale.v, spec: coq/Spec/Stats.v).

Correspondence (local step).  For every vector (row / column, base or subtotal) of a slice
the implementation's own reported weighted counts, weighted bases and margin (blocks
recovered from a run WITHOUT display transforms) and the numeric values of the generated
categories are fed to the model (`scale_mean_vec`, `scale_var_vec`, `scale_stderr_sq_vec`,
`scale_median_vec`, the margins, the strand functions); the results are compared with
rows_/columns_scale_mean, _scale_mean_stddev (squared), _scale_mean_stderr (squared),
_scale_median, the four *_margin scalars and the strand's scale_mean / scale_median /
scale_std_dev / scale_std_err.

Property oracle (no model).  The reported counts of a vector are expanded into individual
respondents (integer counts) and mean / population variance / median are computed directly
with exact fractions; None / NaN conventions are checked against the property text.  The
margins are additionally compared between a run with hide / order / prune transforms and the
untransformed run (hidden elements still count).

MAGNITUDE / ZERO SPREAD (added after seeded change C14-9: the variance expanded to sum(c v^2) - 2 m sum(c v) +
m^2 sum(c), algebraically identical but cancelling catastrophically when the spread is tiny relative to the
values; every generated numeric value was in -6..12).  The property quantifies over ANY assignment of numeric
values: 60% of the dominant cases multiply every numeric value by 12500 / 100000 (income mid-points) or add an
offset of 30000 / 100000 (a spread of a few units on values of the order 1e5), and the vector pattern
`single_valued` puts every numeric-valued respondent of a vector in ONE category with the others in categories
without a value (stddev = stderr = 0 exactly).  Distribution keys `numeric values at magnitude *`,
`dominant vector pattern=single_valued`.
"""
import json
import random
import statistics
from fractions import Fraction

import numpy as np

from harness import core, gen, impl
from harness.core import g_bool, g_list, g_mat, g_nat, g_vec, g_xq, g_Z

PID = "C14"
IMPORTS = """From Coq Require Import QArith ZArith List Bool.
From CC Require Import Base.XQ Base.Render Base.ListX Spec.Stats Model.Scale Model.ScaleDisplay.
Import ListNotations."""

SLICE_VECS = ("scale_mean", "scale_mean_stddev", "scale_mean_stderr", "scale_median")
MARGINS = ("rows_scale_mean_margin", "columns_scale_mean_margin",
           "rows_scale_median_margin", "columns_scale_median_margin")
STRAND = ("scale_mean", "scale_median", "scale_std_dev", "scale_std_err")
# the display-order helpers of cubepart.py the legacy pairwise scale-means test reads (private: there is no
# public way to them; a missing attribute is counted, not a crash) - model: Model/ScaleDisplay.v
DISPLAY = ("_rows_dimension_numeric_values", "_columns_dimension_numeric_values", "_rows_have_numeric_value",
           "_columns_have_numeric_value", "_columns_scale_mean_variance", "_row_order_signed_indexes",
           "_column_order_signed_indexes", "has_scale_means")


# ------------------------------------------------------------------------------------
# generation
# ------------------------------------------------------------------------------------


def _numeric_var(rng, alias, date=False):
    mode = rng.choice(["all", "all", "partial", "partial", "partial", None])
    v = gen.make_cat(rng, alias, n_valid=rng.choice([1, 2, 3, 3, 4, 5, 6]), date=date, numeric=mode)
    if mode is not None and rng.random() < 0.35:
        # repeated values
        valued = [c for c in v.cats if c["numeric_value"] is not None]
        if len(valued) >= 2:
            a, b = rng.sample(valued, 2)
            a["numeric_value"] = b["numeric_value"]
    if mode is not None and rng.random() < 0.15:
        for c in v.cats:
            if c["numeric_value"] is not None and rng.random() < 0.5:
                c["numeric_value"] = Fraction(0)
    return v


def _thin_out(rng, sv, v):
    """Empty one or two categories of v (zero counts anywhere in the value order)."""
    if v.kind not in ("cat", "cat_date") or len(v.cats) < 2:
        return
    n = len(v.cats)
    dead = set(rng.sample(range(n), rng.randint(1, min(2, n - 1))))
    alive = [k for k in range(n) if k not in dead]
    for r in sv.resp:
        if r["ans"][v.alias] in dead:
            r["ans"][v.alias] = rng.choice(alive)


def _display_transforms(rng, variables):
    """hide / explicit order / prune on the (categorical) dimensions: run B."""
    t = {}
    hidden = {}
    for key, v in zip(("rows_dimension", "columns_dimension"), variables):
        d = {}
        if v.kind in ("cat", "cat_date"):
            ids = gen.valid_cat_ids(v)
            hide = [i for i in ids if rng.random() < 0.3]
            if hide:
                d["elements"] = {str(i): {"hide": True} for i in hide}
            hidden[key] = hide
            if rng.random() < 0.4:
                order = list(ids)
                rng.shuffle(order)
                d["order"] = {"type": "explicit", "element_ids": order}
            if rng.random() < 0.25:
                d["prune"] = True
        if d:
            t[key] = d
    return t, hidden


def gen_case(rng, k):
    if rng.random() < 0.12:
        return gen_large_case(rng, k)
    if rng.random() < 0.07:
        return gen_dominant_case(rng, k)
    r = rng.random()
    strand = r < 0.25
    if strand:
        kind = rng.choice(["cat", "cat", "cat", "cat_date", "mr"])
        if kind == "mr":
            variables = [gen.make_mr(rng, "rowv")]
        else:
            variables = [_numeric_var(rng, "rowv", date=(kind == "cat_date"))]
        aliases = ["rowv"]
        shape = kind
    else:
        rk = rng.random()
        if rk < 0.08:
            ca = gen.make_ca(rng, "arr")
            for c in ca.cats:
                if not c["missing"] and rng.random() < 0.7:
                    c["numeric_value"] = Fraction(rng.randint(-6, 12), rng.choice([1, 2]))
            variables = [ca]
            aliases = ["arr"]
            shape = "ca_subvar_x_ca_cat"
        else:
            if rk < 0.18:
                rowv = gen.make_mr(rng, "rowv")
            else:
                rowv = _numeric_var(rng, "rowv", date=rng.random() < 0.1)
            if rk >= 0.18 and rng.random() < 0.1:
                colv = gen.make_mr(rng, "colv")
            else:
                colv = _numeric_var(rng, "colv", date=rng.random() < 0.1)
            variables = [rowv, colv]
            aliases = ["rowv", "colv"]
            shape = "%s_x_%s" % (rowv.kind, colv.kind)
    for v in variables:
        if v.kind in ("cat", "cat_date") and rng.random() < 0.5:
            v.view_insertions = gen.random_insertions(rng, v)
    n_resp = rng.choice([0, 1, 2, 3, 4, 4, 5, 6, 6, 8, 8, 10, 12, 20, 40])
    int_w = rng.random() < 0.6
    sv = gen.Survey(variables, n_resp, rng, integer_weights=int_w,
                    weighted=None if rng.random() < 0.8 else False)
    for v in variables:
        if rng.random() < 0.5:
            _thin_out(rng, sv, v)
    resp = gen.cube_response(sv, aliases)
    transforms, hidden = ({}, {})
    if not strand and len(variables) == 2:
        transforms, hidden = _display_transforms(rng, variables)
    if len(variables) == 1 and not strand:
        dimvals = [[None] * len(variables[0].items), _vals_of(variables[0])]
    else:
        dimvals = [_vals_of(v) for v in variables]
    return {"k": k, "strand": strand, "shape": shape, "response": resp,
            "transforms": transforms, "hidden": hidden,
            "dimvals": [[None if x is None else str(x) for x in d] for d in dimvals],
            "integer_weights": int_w or not sv.weighted}


# ---- large-N near-tie stream (blind spot found by a seeded change: np.isclose instead of == 0.5) ----

LARGE_PATTERNS = ("last_of_category", "first_of_next", "exact_tie", "tie_plus_one", "tie_minus_one", "random")


def _composition(rng, total, k):
    """k non-negative integers summing to total"""
    cuts = sorted(rng.randint(0, total) for _ in range(k - 1))
    return [b - a for a, b in zip([0] + cuts, cuts + [total])]


def design_vector(rng, vals, pattern):
    """Integer counts (one per category, payload order) of 1e5 .. 1e6 numeric-valued respondents whose
    cumulative count IN VALUE ORDER passes N/2 as `pattern` says:
      last_of_category  N = 2m+1, cumulative m+1 at a category: the middle respondent is its last one
                        (cumulative share 1/2 + 1/(2N), i.e. within 5e-6 of 1/2: an approximate
                        'exactly 50%' test averages with the next value)
      first_of_next     N = 2m+1, cumulative m: the middle respondent is the first of the next category
      exact_tie         N = 2m,   cumulative m: the median is the mean of the two neighbouring values
      tie_plus_one / tie_minus_one   N = 2m, cumulative m+1 / m-1
    with zero-count categories anywhere (also right after the pivot)."""
    order = sort_order(vals)
    n = len(vals)
    if len(order) < 2 or pattern == "random":
        return [rng.randint(0, 120000) for _ in range(n)]
    m = int(10 ** rng.uniform(4.7, 5.7))      # N = 1e5 .. 1e6: 1/(2N) between 5e-6 and 5e-7
    N = 2 * m + 1 if pattern in ("last_of_category", "first_of_next") else 2 * m
    target = {"last_of_category": m + 1, "first_of_next": m, "exact_tie": m,
              "tie_plus_one": m + 1, "tie_minus_one": m - 1}[pattern]
    p = rng.randint(0, len(order) - 2)
    pre = _composition(rng, target - 1, p + 1)
    pre[-1] += 1                      # the pivot category is not empty
    if p >= 1 and rng.random() < 0.3:
        q = rng.randrange(p)
        pre[-1] += pre[q]
        pre[q] = 0
    suf = _composition(rng, N - target, len(order) - p - 1)
    if len(suf) >= 2 and rng.random() < 0.4:
        suf[1] += suf[0]              # nobody holds the value right after the pivot
        suf[0] = 0
    counts = [rng.randint(0, 60000) for _ in range(n)]   # categories without a value: anything
    for pos, c in zip(order, pre + suf):
        counts[pos] = c
    return counts


def gen_large_case(rng, k):
    strand = rng.random() < 0.2
    patterns = []

    def valued(alias):
        for _ in range(20):
            v = _numeric_var(rng, alias, date=rng.random() < 0.1)
            if sum(1 for c in v.cats if c["numeric_value"] is not None) >= 2:
                return v
        return gen.make_cat(rng, alias, n_valid=4, numeric="all")

    if strand:
        rowv = valued("rowv")
        variables, aliases = [rowv], ["rowv"]
        pat = rng.choice(LARGE_PATTERNS)
        patterns.append(pat)
        vec = design_vector(rng, _vals_of(rowv), pat)
        sv = gen.Survey(variables, 0, rng, weighted=True)
        valid = [i for i, c in enumerate(rowv.cats) if not c["missing"]]
        for i, n in zip(valid, vec):
            if n:
                sv.resp.append({"ans": {"rowv": i}, "w": Fraction(n), "num": {}})
        shape = "large_" + rowv.kind
    else:
        rowv, colv = valued("rowv"), valued("colv")
        variables, aliases = [rowv, colv], ["rowv", "colv"]
        rvals, cvals = _vals_of(rowv), _vals_of(colv)
        by_columns = rng.random() < 0.6          # design every column (values of the rows) or every row
        if by_columns:
            vecs = []
            for _ in cvals:
                pat = rng.choice(LARGE_PATTERNS)
                patterns.append(pat)
                vecs.append(design_vector(rng, rvals, pat))
            table = [[vecs[j][i] for j in range(len(cvals))] for i in range(len(rvals))]
        else:
            table = []
            for _ in rvals:
                pat = rng.choice(LARGE_PATTERNS)
                patterns.append(pat)
                table.append(design_vector(rng, cvals, pat))
        for v in variables:
            if rng.random() < 0.4:
                v.view_insertions = gen.random_insertions(rng, v)
        sv = gen.Survey(variables, 0, rng, weighted=True)
        ridx = [i for i, c in enumerate(rowv.cats) if not c["missing"]]
        cidx = [i for i, c in enumerate(colv.cats) if not c["missing"]]
        for i, row in enumerate(table):
            for j, n in enumerate(row):
                if n:
                    sv.resp.append({"ans": {"rowv": ridx[i], "colv": cidx[j]}, "w": Fraction(n), "num": {}})
        shape = "large_%s_x_%s" % (rowv.kind, colv.kind)
    resp = gen.cube_response(sv, aliases)
    transforms, hidden = ({}, {})
    if not strand and rng.random() < 0.3:
        transforms, hidden = _display_transforms(rng, variables)
    dv = [_vals_of(v) for v in variables]
    return {"k": k, "strand": strand, "shape": shape, "response": resp,
            "transforms": transforms, "hidden": hidden,
            "dimvals": [[None if x is None else str(x) for x in d] for d in dv],
            "integer_weights": True, "large": True, "patterns": patterns}


# ---- dominant-vector stream (round 3): a vector whose respondents nearly all sit in ONE valued category,
# ---- and a vector whose respondents ALL sit in categories WITHOUT a numeric value while its base is not 0

DOMINANT_PATTERNS = ("dominant_valued", "all_unvalued", "dominant_unvalued", "single_valued", "random")
# numeric values of real scales are often of the order 1e4..1e5 (income mid-points): with probability 0.5 a
# dominant case multiplies every numeric value by one of these
# (x), or adds an offset (+): a spread that is tiny relative to the values (years, ids of brackets, ...)
MAGNITUDES = (("x", 12500), ("x", 100000), ("+", 30000), ("+", 100000), ("+", 30000))


def dominant_vector(rng, vals, pattern):
    """Integer counts (payload order) of N = 2^20 .. 2^24 respondents:
      dominant_valued    N - r respondents (r <= N * 1e-6, r >= 1) in one numeric-valued category, the r others
                         spread over the rest: mean within 1e-6 * range of that value, variance O(1e-6)
      all_unvalued       everybody in categories without a numeric value (needs one): the weighted base is
                         N > 0, the valued total 0 -> scale mean / stddev / stderr NaN, median NaN (never 0)
      dominant_unvalued  N - r in an unvalued category, r >= 1 in valued ones: statistics of the r only"""
    n = len(vals)
    valued = [i for i, v in enumerate(vals) if v is not None]
    unvalued = [i for i, v in enumerate(vals) if v is None]
    N = 2 ** rng.randint(20, 24)
    r = rng.randint(1, max(1, N // 10 ** 6))
    counts = [0] * n
    if pattern == "dominant_valued" and valued:
        big = rng.choice(valued)
        counts[big] = N - r
        others = [i for i in range(n) if i != big] or [big]
        for _ in range(r):
            counts[rng.choice(others)] += 1
    elif pattern == "all_unvalued" and unvalued:
        for i, c in zip(unvalued, _composition(rng, N, len(unvalued))):
            counts[i] = c
    elif pattern == "dominant_unvalued" and unvalued and valued:
        counts[rng.choice(unvalued)] = N - r
        for _ in range(r):
            counts[rng.choice(valued)] += 1
    elif pattern == "single_valued" and unvalued and valued:
        # ZERO SPREAD (after seeded change C14-9: the variance expanded to sum(c v^2) - 2 m sum(c v) + m^2 sum(c),
        # which cancels catastrophically when the spread is tiny relative to the values): every numeric-valued
        # respondent in ONE category, the others in categories without a value (so that the mean is a quotient
        # of inexact proportions); an ordinary number of respondents.  stddev = stderr = 0, mean = that value
        n_val, n_unval = rng.randint(1, 60), rng.randint(1, 60)
        counts[rng.choice(valued)] = n_val
        for _ in range(n_unval):
            counts[rng.choice(unvalued)] += 1
    else:
        counts = [rng.randint(0, 50) for _ in range(n)]
    return counts


def gen_dominant_case(rng, k):
    strand = rng.random() < 0.25
    patterns = []

    def partial(alias):
        # at least one valued and one unvalued category
        for _ in range(30):
            v = _numeric_var(rng, alias, date=rng.random() < 0.1)
            vs = _vals_of(v)
            if any(x is not None for x in vs) and any(x is None for x in vs):
                return v
        v = gen.make_cat(rng, alias, n_valid=4, numeric="all")
        [c for c in v.cats if not c["missing"]][0]["numeric_value"] = None
        return v

    magnitude = rng.choice(MAGNITUDES) if rng.random() < 0.6 else ("x", 1)
    _partial = partial

    def partial(alias):  # noqa: F811
        v = _partial(alias)
        for c in v.cats:
            if c.get("numeric_value") is not None:
                c["numeric_value"] = (c["numeric_value"] * magnitude[1] if magnitude[0] == "x"
                                      else c["numeric_value"] + magnitude[1])
        return v

    if strand:
        rowv = partial("rowv")
        variables, aliases = [rowv], ["rowv"]
        pat = rng.choice(DOMINANT_PATTERNS[:4])
        patterns.append(pat)
        vec = dominant_vector(rng, _vals_of(rowv), pat)
        sv = gen.Survey(variables, 0, rng, weighted=True)
        valid = [i for i, c in enumerate(rowv.cats) if not c["missing"]]
        for i, n in zip(valid, vec):
            if n:
                sv.resp.append({"ans": {"rowv": i}, "w": Fraction(n), "num": {}})
        shape = "dominant_" + rowv.kind
    else:
        rowv, colv = partial("rowv"), partial("colv")
        variables, aliases = [rowv, colv], ["rowv", "colv"]
        rvals, cvals = _vals_of(rowv), _vals_of(colv)
        if rng.random() < 0.5:          # design every column (values of the rows)
            vecs = []
            for _ in cvals:
                pat = rng.choice(DOMINANT_PATTERNS)
                patterns.append(pat)
                vecs.append(dominant_vector(rng, rvals, pat))
            table = [[vecs[j][i] for j in range(len(cvals))] for i in range(len(rvals))]
        else:
            table = []
            for _ in rvals:
                pat = rng.choice(DOMINANT_PATTERNS)
                patterns.append(pat)
                table.append(dominant_vector(rng, cvals, pat))
        for v in variables:
            if rng.random() < 0.4:
                v.view_insertions = gen.random_insertions(rng, v)
        sv = gen.Survey(variables, 0, rng, weighted=True)
        ridx = [i for i, c in enumerate(rowv.cats) if not c["missing"]]
        cidx = [i for i, c in enumerate(colv.cats) if not c["missing"]]
        for i, row in enumerate(table):
            for j, n in enumerate(row):
                if n:
                    sv.resp.append({"ans": {"rowv": ridx[i], "colv": cidx[j]}, "w": Fraction(n), "num": {}})
        shape = "dominant_%s_x_%s" % (rowv.kind, colv.kind)
    resp = gen.cube_response(sv, aliases)
    dv = [_vals_of(v) for v in variables]
    # "large": the model's medians use the cumulative rule (no expansion of 1e6 .. 1e7 respondents)
    return {"k": k, "strand": strand, "shape": shape, "response": resp,
            "transforms": {}, "hidden": {},
            "dimvals": [[None if x is None else str(x) for x in d] for d in dv],
            "integer_weights": True, "large": True, "dominant": True, "patterns": patterns, "magnitude": list(magnitude)}


def exhaustive_cases(tier):
    """All count vectors with entries <= 3 over 4 categories (256 vectors), as the columns of
    CAT x CAT cubes (32 columns each), for several value assignments of the row categories."""
    import itertools
    assignments = [[1, 2, 3, 4], [3, 1, 2, 1], [None, -2, 5, 0]]
    if tier != "quick":
        assignments += [[2, 2, 2, 2], [4, 3, 2, 1], [0, None, None, 7], [Fraction(1, 2), Fraction(-1, 2), 3, 3]]
    vectors_ = list(itertools.product(range(4), repeat=4))
    cases = []
    rng = random.Random(0)
    for a_no, assign in enumerate(assignments):
        for chunk in range(0, len(vectors_), 32):
            cols = vectors_[chunk:chunk + 32]
            rowv = gen.make_cat(rng, "rowv", n_valid=4, n_missing=0, numeric="all", ids=[1, 2, 3, 4])
            for c, val in zip(rowv.cats, assign):
                c["numeric_value"] = None if val is None else Fraction(val)
            colv = gen.make_cat(rng, "colv", n_valid=len(cols), n_missing=0, numeric=None,
                                ids=list(range(1, len(cols) + 1)))
            for c in colv.cats:
                c["numeric_value"] = None
            sv = gen.Survey([rowv, colv], 0, rng, weighted=False)
            for j, vec in enumerate(cols):
                for i, n in enumerate(vec):
                    for _ in range(n):
                        sv.resp.append({"ans": {"rowv": i, "colv": j}, "w": Fraction(1), "num": {}})
            resp = gen.cube_response(sv, ["rowv", "colv"])
            dv = [_vals_of(rowv), _vals_of(colv)]
            cases.append({"k": "exh-%d-%d" % (a_no, chunk), "strand": False, "shape": "exhaustive_cat_x_cat",
                          "response": resp, "transforms": {}, "hidden": {},
                          "dimvals": [[None if x is None else str(x) for x in d] for d in dv],
                          "integer_weights": True})
    return cases


def _vals_of(v):
    """numeric value (Fraction or None) of every valid element of the dimension, payload order"""
    if v.kind in ("cat", "cat_date", "ca"):
        return [c["numeric_value"] for c in v.cats if not c["missing"]]
    return [None] * len([it for it in v.items if not it.get("missing")])


def dimvals(case):
    return [[None if x is None else Fraction(x) for x in d] for d in case["dimvals"]]


# ------------------------------------------------------------------------------------
# implementation
# ------------------------------------------------------------------------------------


def impl_run(case):
    A = impl.partition(case["response"], None)
    out = {"dims": impl.dims_info(A)}
    if case["strand"]:
        out["A"] = {n: impl.get(A, n) for n in ("counts", "row_order", "has_scale_means") + STRAND}
        return out
    names = ["counts", "row_weighted_bases", "column_weighted_bases", "rows_margin",
             "columns_margin", "row_order", "column_order", "diff_row_idxs", "diff_column_idxs"]
    names += ["rows_" + s for s in SLICE_VECS] + ["columns_" + s for s in SLICE_VECS]
    names += list(MARGINS)
    out["A"] = {n: impl.get(A, n) for n in names}
    if isinstance(case.get("k"), int) and not case.get("large"):
        out["D"] = {n: impl.get(A, n) for n in DISPLAY}
    if case["transforms"]:
        B = impl.partition(case["response"], case["transforms"])
        out["B"] = {n: impl.get(B, n) for n in MARGINS + ("row_order", "column_order")}
    return out


def sort_order(vals):
    """`_values_sort_order` recomputed with numpy on the numeric values of the case."""
    arr = np.array([np.nan if v is None else float(v) for v in vals], dtype=np.float64)
    if arr.size == 0:
        return []
    sort_idx = arr.argsort()
    nan_idx = np.argwhere(np.isnan(arr))
    return [int(i) for i in np.setdiff1d(sort_idx, nan_idx, assume_unique=True)]


def g_vals(vals):
    return g_vec([None if v is None else v for v in vals])


def _ok(r):
    return r[0] == "ok"


def vectors(case, io):
    """Per orientation the list of vectors (dicts) with everything the model needs."""
    A = io["A"]
    nr, nrs, nc, ncs = io["dims"]
    ro, co = list(A["row_order"][1]), list(A["column_order"][1])
    cnt = impl.blocks2d(A["counts"][1], ro, co, nr, nc, nrs, ncs)
    rwb = impl.blocks2d(A["row_weighted_bases"][1], ro, co, nr, nc, nrs, ncs)
    cwb = impl.blocks2d(A["column_weighted_bases"][1], ro, co, nr, nc, nrs, ncs)
    vals = dimvals(case)
    diff_r = set(nrs + ro[p] for p in A["diff_row_idxs"][1])
    diff_c = set(ncs + co[p] for p in A["diff_column_idxs"][1])
    rm = np.asarray(A["rows_margin"][1], dtype=float)
    cm = np.asarray(A["columns_margin"][1], dtype=float)
    rmv = impl.blocks1d(rm, ro, nr, nrs) if rm.ndim == 1 else None
    cmv = impl.blocks1d(cm, co, nc, ncs) if cm.ndim == 1 else None
    out = {"rows": [], "columns": []}
    for i in range(nr + nrs):
        sub = i >= nr
        out["rows"].append({
            "counts": (cnt[1][0][i - nr] if sub else cnt[0][0][i]),
            "bases": (rwb[1][0][i - nr] if sub else rwb[0][0][i]),
            "margin": None if rmv is None else (rmv[1][i - nr] if sub else rmv[0][i]),
            "is_diff": sub and (i - nr) in diff_r, "sub": sub, "vals": vals[1]})
    for j in range(nc + ncs):
        sub = j >= nc
        blk_c = cnt[0][1] if sub else cnt[0][0]
        blk_b = cwb[0][1] if sub else cwb[0][0]
        jj = j - nc if sub else j
        out["columns"].append({
            "counts": [blk_c[i][jj] for i in range(nr)],
            "bases": [blk_b[i][jj] for i in range(nr)],
            "margin": None if cmv is None else (cmv[1][jj] if sub else cmv[0][jj]),
            "is_diff": sub and jj in diff_c, "sub": sub, "vals": vals[0]})
    # margin vectors the *_margin scalars are computed from (payload order, base elements):
    # first displayed column of row_weighted_bases / first displayed row of column bases
    full_r = np.block([[np.array(rwb[0][0]).reshape(nr, nc), np.array(rwb[0][1]).reshape(nr, ncs)]])
    full_c = np.block([[np.array(cwb[0][0]).reshape(nr, nc)], [np.array(cwb[1][0]).reshape(nrs, nc)]])
    mvec = {}
    if nc + ncs > 0 and len(co) > 0:
        c0 = co[0] if co[0] >= 0 else nc + ncs + co[0]
        mvec["columns"] = full_r[:, c0].tolist()       # pairs with the ROW values
    if nr + nrs > 0 and len(ro) > 0:
        r0 = ro[0] if ro[0] >= 0 else nr + nrs + ro[0]
        mvec["rows"] = full_c[r0, :].tolist()          # pairs with the COLUMN values
    out["margin_vec"] = mvec
    out["margin_1d"] = {"columns": None if rmv is None else rmv[0], "rows": None if cmv is None else cmv[0]}
    return out


def vec_term(v):
    ord_ = sort_order(v["vals"])
    c, b, vals = g_vec(v["counts"]), g_vec(v["bases"]), g_vals(v["vals"])
    d = g_bool(v["is_diff"])
    g_ord = g_list([g_nat(i) for i in ord_])
    m = g_xq(v["margin"]) if v["margin"] is not None else "NaN"
    return ("(r_bool (any_value %s) ++ r_xq (scale_mean_vec %s %s %s) ++ r_xq (scale_var_vec %s %s %s %s)"
            " ++ r_xq (scale_stderr_sq_vec %s %s %s %s %s) ++ r_bool (valid_order %s %s)"
            " ++ r_xq (scale_median_vec %s %s %s %s))"
            % (vals, c, b, vals, d, c, b, vals, d, c, b, vals, m, vals, g_ord, g_ord, d, c, vals))


def _cum_median(order, g_counts, g_values):
    """Gallina `option xq`: the cumulative-count median (Model/Scale.v weighted_median through
    scale_median_vec, no expansion into respondents) with NaN (nobody) as None"""
    return ("match scale_median_vec %s false %s %s with NaN => @None xq | m => Some m end"
            % (g_list([g_nat(i) for i in order]), g_counts, g_values))


def display_term(case, io):
    """Gallina term of the display-order leg (Model/ScaleDisplay.v) + what the comparison needs; (None, None)
    when the leg does not apply (strand, large case, a private attribute that is missing / raises)."""
    D = io.get("D")
    A = io["A"]
    if D is None:
        return None, None
    if any(not _ok(D[n]) for n in DISPLAY) or not _ok(A["columns_scale_mean"]) or not _ok(A["counts"]):
        return None, {"skipped": {n: D[n] for n in DISPLAY if not _ok(D[n])}}
    try:
        ro = [int(x) for x in D["_row_order_signed_indexes"][1]]
        co = [int(x) for x in D["_column_order_signed_indexes"][1]]
        counts = np.asarray(A["counts"][1], dtype=float)
        if counts.ndim != 2 or counts.shape != (len(ro), len(co)):
            return None, {"skipped": {"counts.shape": list(counts.shape)}}
        csm = A["columns_scale_mean"][1]
        means = [] if csm is None else [float(x) for x in np.asarray(csm, dtype=float)]
    except (TypeError, ValueError) as ex:
        return None, {"skipped": {"exception": repr(ex)}}
    vals = dimvals(case)
    rv, cv = g_vals(vals[0]), g_vals(vals[1])
    g_ro, g_co = g_list([g_Z(i) for i in ro]), g_list([g_Z(i) for i in co])
    t = ("(r_vec (display_values %s %s) ++ r_vec (display_values %s %s) ++ r_bool (display_have_value %s %s)"
         " ++ r_bool (display_have_value %s %s) ++ r_opt r_vec (display_scale_variance %d%%nat %s (display_values %s %s) %s))"
         % (rv, g_ro, cv, g_co, rv, g_ro, cv, g_co, len(co), g_mat(counts.tolist()), rv, g_ro, g_vec(means)))
    return t, {"ro": ro, "co": co}


def build_term(case, io):
    """One Gallina term per case.  None when the implementation raised on an input read."""
    A = io["A"]
    if case["strand"]:
        need = ("counts", "row_order")
        if any(not _ok(A[n]) for n in need):
            return None, None
        n, nsub = io["dims"]
        base, _subs = impl.blocks1d(A["counts"][1], A["row_order"][1], n, nsub)
        vals = dimvals(case)[0]
        c, v = g_vec(base), g_vals(vals)
        med = "strand_scale_median %s %s" % (c, v)
        if case.get("large"):
            # 1e5 .. 1e6 respondents: the model's expansion (repeat + insertion sort) is infeasible;
            # the cumulative rule needs none and IS the respondents' median (C14_median_eq,
            # C14_median_sorted_categories); NaN (nobody) is the strand's None
            med = _cum_median(sort_order(vals), c, v)
        t = ("(r_opt r_xq (strand_scale_mean %s %s) ++ r_opt r_xq (%s)"
             " ++ r_opt r_xq (strand_scale_stddev_sq %s %s) ++ r_opt r_xq (strand_scale_stderr_sq %s %s))"
             % (c, v, med, c, v, c, v))
        return t, {"base": base, "vals": vals}
    need = ("counts", "row_weighted_bases", "column_weighted_bases", "rows_margin", "columns_margin",
            "row_order", "column_order", "diff_row_idxs", "diff_column_idxs")
    if any(not _ok(A[n]) for n in need):
        return None, None
    vs = vectors(case, io)
    parts = []
    for o in ("rows", "columns"):
        for v in vs[o]:
            parts.append(vec_term(v))
    vals = dimvals(case)
    for o, vv in (("rows", vals[1]), ("columns", vals[0])):
        mv = vs["margin_vec"].get(o)
        if mv is None:
            parts.append("[]")
        elif case.get("large"):
            parts.append("(r_xq (scale_mean_margin %s %s) ++ r_opt r_xq (%s))"
                         % (g_vec(mv), g_vals(vv), _cum_median(sort_order(vv), g_vec(mv), g_vals(vv))))
        else:
            parts.append("(r_xq (scale_mean_margin %s %s) ++ r_opt r_xq (scale_median_margin %s %s))"
                         % (g_vec(mv), g_vals(vv), g_vec(mv), g_vals(vv)))
    dt, dinfo = display_term(case, io)
    vs["display"] = dinfo if dt is not None else None
    vs["display_skipped"] = dinfo.get("skipped") if (dt is None and dinfo) else None
    if dt is not None:
        parts.append(dt)
    return "(" + " ++ ".join(parts) + ")", vs


# ------------------------------------------------------------------------------------
# comparison
# ------------------------------------------------------------------------------------


def _is_int(x):
    return x == x and abs(x) != float("inf") and float(x).is_integer()


def oracle_vector(counts, vals, is_diff):
    """Respondent-level statistics of one vector from its reported (non-negative) counts.
    Returns dict(total, mean, var, median (None unless integer counts; "nan" for nobody))."""
    pairs = [(v, Fraction(c)) for v, c in zip(vals, counts) if v is not None and c == c]
    if is_diff or any(c != c for v, c in zip(vals, counts) if v is not None):
        return None
    tot = sum(c for _v, c in pairs)
    res = {"total": tot, "mean": "nan", "var": "nan", "median": None}
    if any(c < 0 for _v, c in pairs):
        return None
    if tot > 0:
        mean = sum(v * c for v, c in pairs) / tot
        res["mean"] = mean
        res["var"] = sum(c * (v - mean) ** 2 for v, c in pairs) / tot
    if all(c.denominator == 1 for _v, c in pairs):
        res["median"] = median_of_counts(pairs)
        if 0 < tot <= 64:
            # harness self-check of the arithmetic on small vectors: the literal expansion
            expanded = []
            for v, c in pairs:
                expanded.extend([v] * int(c))
            if statistics.median(expanded) != res["median"]:
                raise AssertionError("median_of_counts disagrees with statistics.median: %r" % (pairs,))
    if tot > 0:
        res["near_half"] = near_half(pairs)
    return res


def median_of_counts(pairs):
    """Median of the individual respondents behind (value, integer count) pairs, computed
    arithmetically: the respondents sorted by value occupy ranks 1..N, category by category; the
    median is the mean of the values at ranks (N+1)//2 and N//2 + 1 (the same rank when N is odd).
    'nan' for nobody.  No respondent is materialised, so N may be 1e5 or 1e15."""
    items = sorted((v, int(c)) for v, c in pairs if c > 0)
    N = sum(c for _v, c in items)
    if N == 0:
        return "nan"
    lo, hi = (N + 1) // 2, N // 2 + 1
    vlo = vhi = None
    cum = 0
    for v, c in items:
        cum += c
        if vlo is None and cum >= lo:
            vlo = v
        if cum >= hi:
            vhi = v
            break
    return (vlo + vhi) / 2


def near_half(pairs):
    """True when some cumulative share (value order) is within 1e-9 of 1/2 WITHOUT being 1/2: the
    float64 decisions `cum / total >= 0.5` and `== 0.5` are then within rounding of their
    threshold (integer counts: the distance is >= 1 / (2 N), so this needs N > 5e8)."""
    items = sorted((v, c) for v, c in pairs if c > 0)
    N = sum(c for _v, c in items)
    cum = 0
    for _v, c in items:
        cum += c
        d = abs(Fraction(cum) / N - Fraction(1, 2))
        if 0 < d <= Fraction(1, 10 ** 9):
            return True
    return False


def sq(x):
    if x is None:
        return None
    x = float(x)
    return x * x


def _skip_near_half(rep):
    """a median whose cumulative share is within 1e-9 of (but not at) 1/2: skipped AND counted"""
    if rep is not None:
        rep.cov["skipped_near_threshold"] += 1
        rep.dist("medians_skipped_cumulative_share_within_1e-9_of_half")


def compare(case, io, toks, aux, rep=None):
    fails = []

    def fail(what, detail, **ctx):
        fails.append((what, detail, ctx))

    A = io["A"]
    d = core.Dec(toks)
    if case["strand"]:
        m_mean, m_med, m_var, m_se = (d.opt(d.xq) for _ in range(4))
        got = {n: A[n] for n in STRAND}
        for n, r in got.items():
            if not _ok(r):
                fail("strand." + n, {"impl": r}, exception=r[1])
        if fails:
            return fails
        i_mean, i_med, i_sd, i_se = (got[n][1] for n in STRAND)
        hs = A.get("has_scale_means")
        if hs is not None and _ok(hs) and bool(hs[1]) != (i_mean is not None):
            fail("strand.has_scale_means.none", {"impl": hs[1], "scale_mean": i_mean})
        so = oracle_vector(aux["base"], aux["vals"], False)
        s_near = so is not None and so.get("near_half")
        if s_near:
            _skip_near_half(rep)
        for name, iv, mv, squared in (("scale_mean", i_mean, m_mean, False), ("scale_median", i_med, m_med, False),
                                      ("scale_std_dev", i_sd, m_var, True), ("scale_std_err", i_se, m_se, True)):
            if name == "scale_median" and s_near:
                continue
            if (iv is None) != (mv is None):
                fail("strand." + name, {"impl": iv, "model": mv})
            elif iv is not None:
                x = sq(iv) if squared else iv
                if not core.close(x, mv) or (squared and float(iv) < 0):
                    fail("strand." + name, {"impl": iv, "model(squared)" if squared else "model": mv})
        # property oracle: integer counts
        base, vals = aux["base"], aux["vals"]
        o = oracle_vector(base, vals, False)
        has_values = any(v is not None for v in vals)
        if o is not None:
            if not has_values or o["total"] == 0:
                # None when no category has a value / no numeric-valued respondent
                for name, iv in zip(STRAND, (i_mean, i_med, i_sd, i_se)):
                    if iv is not None:
                        fail("strand-none." + name, {"impl": iv, "expected": None, "counts": base,
                                                     "vals": vals, "has_values": has_values})
            else:
                if not core.close(i_mean, o["mean"]):
                    fail("strand-oracle.scale_mean", {"impl": i_mean, "respondents": o["mean"]})
                if not core.close(sq(i_sd), o["var"]):
                    fail("strand-oracle.scale_std_dev", {"impl": i_sd, "respondents_var": o["var"]})
                if not core.close(sq(i_se), o["var"] / o["total"]):
                    fail("strand-oracle.scale_std_err", {"impl": i_se})
                if o["median"] is not None and not s_near and not core.close(i_med, o["median"]):
                    fail("strand-oracle.scale_median", {"impl": i_med, "respondents": o["median"]})
        return fails

    nr, nrs, nc, ncs = io["dims"]
    vs = aux
    for o, n_base, n_sub, order_name in (("rows", nr, nrs, "row_order"), ("columns", nc, ncs, "column_order")):
        order = A[order_name][1]
        got = {}
        for s in SLICE_VECS:
            r = A["%s_%s" % (o, s)]
            if not _ok(r):
                fail("%s_%s" % (o, s), {"impl": r}, exception=r[1])
                got[s] = "exc"
            elif r[1] is None:
                got[s] = None
            else:
                b, sb = impl.blocks1d(r[1], order, n_base, n_sub)
                got[s] = b + sb
        for idx, v in enumerate(vs[o]):
            defined = d.bool()
            m_mean, m_var, m_se = d.xq(), d.xq(), d.xq()
            valid = d.bool()
            m_med = d.xq()
            if not valid:
                fail("harness.sort-order-invalid", {"vals": v["vals"]})
                continue
            has_values = any(x is not None for x in v["vals"])
            if defined != has_values:
                fail("model.any_value", {"vals": v["vals"]})
            orc = oracle_vector(v["counts"], v["vals"], v["is_diff"]) if has_values else None
            for s, mv, squared in (("scale_mean", m_mean, False), ("scale_mean_stddev", m_var, True),
                                   ("scale_mean_stderr", m_se, True), ("scale_median", m_med, False)):
                g = got[s]
                name = "%s_%s" % (o, s)
                if g == "exc":
                    continue
                exp_none = (not defined) or (s == "scale_mean_stderr" and v["margin"] is None)
                if g is None or exp_none:
                    if (g is None) != exp_none:
                        fail(name + ".none", {"impl_is_none": g is None, "model_none": exp_none,
                                              "vals": v["vals"]})
                    continue
                iv = g[idx]
                x = sq(iv) if squared else iv
                if s == "scale_median" and orc is not None and orc.get("near_half"):
                    _skip_near_half(rep)
                    continue
                if not core.close(x, mv) or (squared and iv == iv and iv < 0):
                    fail(name, {"vector": idx, "subtotal": v["sub"], "is_diff": v["is_diff"], "impl": iv,
                                "model(squared)" if squared else "model": mv, "counts": v["counts"],
                                "bases": v["bases"], "vals": v["vals"], "margin": v["margin"]},
                         subtotal=v["sub"], is_diff=v["is_diff"])
                    continue
                # property oracle
                if orc is None:
                    continue
                if s == "scale_mean":
                    exp = orc["mean"]
                elif s == "scale_mean_stddev":
                    exp = orc["var"]
                elif s == "scale_mean_stderr":
                    m = v["margin"]
                    if orc["var"] == "nan" or m is None or not (m == m) or m <= 0:
                        continue
                    exp = orc["var"] / Fraction(m)
                else:
                    exp = orc["median"]
                    if exp is None:
                        continue
                if not core.close(x, exp):
                    fail(name + ".respondents", {"vector": idx, "subtotal": v["sub"], "impl": iv,
                                                 "respondent_level" + ("(squared)" if squared else ""): exp,
                                                 "counts": v["counts"], "vals": v["vals"]})
    # margins (run A: model ; run B: unchanged by display transforms)
    vals = dimvals(case)
    model_margin = {}
    for o, vv in (("rows", vals[1]), ("columns", vals[0])):
        mv = vs["margin_vec"].get(o)
        if mv is None:
            continue
        mm = d.xq()
        md = d.opt(d.xq)
        has_values = any(x is not None for x in vv)
        model_margin[o] = (mm, md, has_values)
        morc = oracle_vector(mv, vv, False) if has_values else None
        for name, m in (("%s_scale_mean_margin" % o, mm), ("%s_scale_median_margin" % o, md)):
            if "median" in name and morc is not None and morc.get("near_half"):
                _skip_near_half(rep)
                continue
            r = A[name]
            if not _ok(r):
                fail(name, {"impl": r}, exception=r[1])
                continue
            iv = r[1]
            if not has_values:
                if iv is not None:
                    fail(name + ".none", {"impl": iv})
                continue
            if (iv is None) != (m is None) or (iv is not None and not core.close(iv, m)):
                fail(name, {"impl": iv, "model": m, "margin_vector": mv, "vals": vv})
        # respondent level: margin vector expanded
        orc = morc
        if orc is not None and _ok(A["%s_scale_mean_margin" % o]) and _ok(A["%s_scale_median_margin" % o]):
            im = A["%s_scale_mean_margin" % o][1]
            if im is not None and not core.close(im, orc["mean"]):
                fail("%s_scale_mean_margin.respondents" % o, {"impl": im, "respondents": orc["mean"]})
            imd = A["%s_scale_median_margin" % o][1]
            if orc["median"] is not None and not orc.get("near_half"):
                exp = None if orc["median"] == "nan" else orc["median"]
                if (imd is None) != (exp is None) or (imd is not None and not core.close(imd, exp)):
                    fail("%s_scale_median_margin.respondents" % o, {"impl": imd, "respondents": exp})
    # display-order helpers of cubepart.py (Model/ScaleDisplay.v): values, have-value flags, scale-mean variance
    if vs.get("display") is not None:
        D = io["D"]
        m_rv, m_cv = d.vec(), d.vec()
        m_rh, m_ch = d.bool(), d.bool()
        m_var = d.opt(d.vec)
        for name, mv in (("_rows_dimension_numeric_values", m_rv), ("_columns_dimension_numeric_values", m_cv)):
            iv = D[name][1]
            if iv is None or not core.close_vec(np.asarray(iv, dtype=float).tolist(), mv):
                fail(name, {"impl": iv, "model": mv})
        for name, mb in (("_rows_have_numeric_value", m_rh), ("_columns_have_numeric_value", m_ch)):
            if bool(D[name][1]) != mb:
                fail(name, {"impl": D[name][1], "model": mb})
        iv = D["_columns_scale_mean_variance"][1]
        if (iv is None) != (m_var is None) or (
                iv is not None and not core.close_vec(np.asarray(iv, dtype=float).tolist(), m_var)):
            fail("_columns_scale_mean_variance", {"impl": iv, "model": m_var})
        csm = A["columns_scale_mean"][1]
        if bool(D["has_scale_means"][1]) != (csm is not None):
            fail("has_scale_means.none", {"impl": D["has_scale_means"][1], "columns_scale_mean_is_none": csm is None})
    if "B" in io:
        B = io["B"]
        rem = {"rows": None, "columns": None}
        if _ok(B["row_order"]) and _ok(B["column_order"]):
            bro, bco = list(B["row_order"][1]), list(B["column_order"][1])
            rows_removed = len(set(int(x) for x in bro if x >= 0)) < nr
            cols_removed = len(set(int(x) for x in bco if x >= 0)) < nc
            # columns_*_margin pairs the ROW values with the first displayed column of the row
            # bases: it can only move when a row was removed or no column is displayed at all
            rem["columns"] = rows_removed or len(bco) == 0
            rem["rows"] = cols_removed or len(bro) == 0
        for o in ("rows", "columns"):
            if o not in model_margin or vs["margin_1d"]["rows"] is None or vs["margin_1d"]["columns"] is None:
                continue   # an array dimension: the scalar depends on which vector is shown first
            for name in ("%s_scale_mean_margin" % o, "%s_scale_median_margin" % o):
                a, b = A[name], B[name]
                if not _ok(a):
                    continue
                ctx = {"sig": "margin-under-display-transforms", "removed": rem[o]}
                if not _ok(b):
                    fail(name + ".transformed", {"untransformed": a[1], "transformed": b,
                                                 "transforms": case["transforms"]}, exception=b[1], **ctx)
                    continue
                same = (a[1] is None and b[1] is None) or (
                    a[1] is not None and b[1] is not None and core.close(b[1], core.to_exact(a[1])))
                if not same:
                    fail(name + ".transformed", {"untransformed": a[1], "transformed": b[1],
                                                 "transforms": case["transforms"]}, **ctx)
    return fails


def nontrivial(case):
    return any(any(x is not None for x in d) for d in case["dimvals"])


def _replayable(case):
    d = {k: case[k] for k in ("k", "strand", "shape", "response", "transforms", "hidden", "dimvals",
                              "integer_weights")}
    if case.get("large"):
        d["large"], d["patterns"] = True, case.get("patterns", [])
    if case.get("dominant"):
        d["dominant"] = True
        d["magnitude"] = case.get("magnitude")
    return d


PROPERTY_MARKS = (".respondents", "oracle", "none", ".transformed")


def check_case(case, rep, toks=None, io=None, aux=None):
    fails = compare(case, io, toks, aux, rep)
    live = []
    for what, detail, ctx in fails:
        c = {"what": what}
        c.update(ctx)
        kind = "impl-vs-property" if any(m in what for m in PROPERTY_MARKS) else "impl-vs-model"
        if rep.violation(kind, _replayable(case), dict(detail, what=what), c) != "known":
            live.append((what, detail, ctx))
    return live


def late_read_leg(case, io, rep, force=False):
    """READ-ORDER LEG (common_cases.late_reads; every third generated case, not the large / exhaustive ones):
    every scale output read AFTER all the other public reads of a second partition must be the one of the fresh
    partition `io["A"]` compared with the model above."""
    k = case.get("k")
    if case.get("large") or not isinstance(k, int) or (k % 3 != 0 and not force):
        return 0
    from harness.props import common_cases as cc
    if case["strand"]:
        names = list(STRAND)
    else:
        names = ["rows_" + s for s in SLICE_VECS] + ["columns_" + s for s in SLICE_VECS] + list(MARGINS)
    population, late = cc.late_reads(case, names, io["A"], transforms=None)
    rep.dist("late-reads:" + ("strand" if case["strand"] else "slice"))
    for n, a, b, culprits in late[:1]:
        rep.violation("impl-vs-property", _replayable(case),
                      {"what": "%s depends on what was read before" % n, "fresh": a, "after_other_reads": b,
                       "population": population, "single_earlier_reads_that_change_it": culprits},
                      {"what": n + ".order_independent", "oracle": "order_independent"})
    return len(late)


def run(tier, seed):
    rep = core.Report(PID, tier, seed)
    ob = core.obligations_gate(rep, PID)
    n_cases = 560 if tier == "quick" else 6800
    rng = random.Random(seed)
    todo, terms = [], []
    all_cases = [gen_case(rng, k) for k in range(n_cases)] + exhaustive_cases(tier)
    for case in all_cases:
        io = impl_run(case)
        term, aux = build_term(case, io)
        if term is None:
            excs = {n: v for n, v in io["A"].items() if v[0] == "exc"}
            rep.count_case(_replayable(case), nontrivial(case))
            rep.violation("impl-exception", _replayable(case), {"exceptions": excs},
                          {"what": "exception-on-input-read"})
            continue
        todo.append((case, io, aux))
        terms.append(term)
    results, coq_s = core.run_coq_cases(PID, IMPORTS, terms, shard=25) if terms else ([], 0.0)
    n_vec = 0
    for (case, io, aux), toks in zip(todo, results):
        nt = nontrivial(case)
        rep.count_case(_replayable(case), nt)
        rep.dist("strand" if case["strand"] else "slice")
        rep.dist("shape=" + case["shape"])
        rep.dist("valued" if nt else "no-numeric-values")
        rep.dist("integer-counts" if case["integer_weights"] else "fractional-counts")
        if case.get("dominant"):
            rep.dist("dominant-vector (2^20..2^24 respondents, all but <= 1e-6 in one category)")
            for pat in case.get("patterns", []):
                rep.dist("dominant vector pattern=" + pat)
            if tuple(case.get("magnitude") or ("x", 1)) != ("x", 1):
                rep.dist("numeric values at magnitude %s%d" % tuple(case["magnitude"]))
        elif case.get("large"):
            rep.dist("large-N (1e5..1e6 respondents per designed vector)")
            for pat in case.get("patterns", []):
                rep.dist("large-N vector pattern=" + pat)
        if not case["strand"] and aux.get("display") is not None:
            rep.dist("display-order leg (cubepart numeric values / scale-mean variance)")
        elif not case["strand"] and aux.get("display_skipped"):
            rep.dist("display-order leg skipped (private attribute missing / raises)")
        if not case["strand"]:
            n_vec += len(aux["rows"]) + len(aux["columns"])
            if case["transforms"]:
                rep.dist("run-B-with-display-transforms")
            if any(v["sub"] for v in aux["rows"] + aux["columns"]):
                rep.dist("has-subtotal-vectors")
            if any(v["is_diff"] for v in aux["rows"] + aux["columns"]):
                rep.dist("has-difference-vectors")
        if nt:
            rep.sample({"shape": case["shape"], "dimvals": case["dimvals"], "strand": case["strand"]})
        check_case(case, rep, toks, io, aux)
        late_read_leg(case, io, rep)
    rep.cov["rule"] = (
        "cases from random.Random(seed): CAT|CAT_DATE|MR x CAT|CAT_DATE|MR slices, CA_SUBVAR x CA_CAT, and "
        "CAT|CAT_DATE|MR strands; numeric values all/partial/none, repeated, negative, zero, unsorted; "
        "0..40 respondents, integer (60%) or dyadic weights, one or two categories emptied in half of the "
        "cases; view subtotals incl. differences; run B with hide/explicit order/prune for the margins; "
        "non-trivial = some category has a numeric value; distinct by content hash; plus the exhaustive "
        "small scope: every count vector with entries <= 3 over 4 categories (256 columns) for 3 (quick) / 7 "
        "(thorough) value assignments; 12% large-N near-tie cases; ~6% DOMINANT-VECTOR cases (2^20..2^24 "
        "respondents: all but <= 1e-6 of a vector in one valued category / everybody in categories WITHOUT a "
        "value while the base is not 0 (scale mean, stddev, stderr NaN, never 0) / all but <= 1e-6 unvalued / `single_valued`: every numeric-valued respondent in ONE category, others in categories without a value - theorem C14_zero_spread), 60% of them with every numeric value multiplied by 12500 / 100000 or shifted by 30000 / 100000; "
        "READ-ORDER leg on every third small case (common_cases.late_reads: all scale outputs of slices and "
        "strands re-read after every other public read of a second partition); DISPLAY-ORDER leg on every small "
        "slice (cubepart._rows_/_columns_dimension_numeric_values, _have_numeric_value, "
        "_columns_scale_mean_variance against Model/ScaleDisplay.v on the implementation's own signed display "
        "order, assembled counts and columns_scale_mean; has_scale_means)")
    rep.cov["coq_eval_seconds"] = round(coq_s, 2)
    rep.cov["vectors_compared"] = n_vec
    rep.assumptions = [
        "counts, weighted bases and margins fed to the model are the implementation's own public values "
        "(owned by C01/C02/C04); numeric values are the generator's",
        "np.sqrt outputs are compared through their squares and sign; float64 vs exact: rel. tol. 1e-9",
        "the order of equal numeric values in numpy's argsort is taken from numpy (model input, validated "
        "by valid_order)",
    ]
    from harness.props import dimtype_legs   # legs of Model/DimValues.v + trusted base (workstream dimtype)
    dimtype_legs.run(rep, PID, tier, seed)
    return rep.finish("proof", ob, trusted_base=core.TRUSTED_BASE_COMMON + [
        "Model/Scale.v, ScaleOrient.v (margins) and ScaleDisplay.v are tied to matrix/measure.py, "
        "stripe/measure.py and cubepart.py by the translator obligations C14_gen_* (harness/translate/x_scale.py, "
        "Base/VecExp.v) and by this correspondence run; the display-order leg reads private attributes of _Slice",
        dimtype_legs.trusted_base()])


def replay(path):
    d = json.load(open(path))
    case = d["violation"]["case"]
    if isinstance(case, dict) and case.get("dimtype_leg"):   # a case of harness/props/dimtype_legs.py
        from harness.props import dimtype_legs
        return dimtype_legs.replay_main(PID, case)
    rep = core.Report(PID, "quick", d.get("seed", 0))
    io = impl_run(case)
    term, aux = build_term(case, io)
    if term is None:
        print("REPLAY: implementation raises on an input read: still failing")
        return 1
    results, _ = core.run_coq_cases(PID, IMPORTS, [term], tag="replay")
    fails = check_case(case, rep, results[0], io, aux)
    if late_read_leg(case, io, rep, force=True):
        fails = list(fails) + [("read-order", {}, {})]
    for f in fails[:10]:
        print("REPLAY still fails:", json.dumps(core.jsonable(f))[:700])
    if rep.known:
        print("REPLAY: known findings hit:", rep.known)
    if not rep.violations:
        print("REPLAY: no (unknown) failure")
    return 1 if rep.violations else 0
