# -*- coding: utf-8 -*-
"""C11 - Variance, standard error and margin of error of proportions.

Obligations: coq/Props/C11.v (model: coq/Model/Variance.v).
Correspondence (local steps): variance blocks from the implementation's own proportion
blocks, weighted base blocks and weighted counts (+ the library's subtotal offsets);
std-err^2 from the reported variance and base; MoE^2 from the reported std-err; std-dev^2 =
variance.  Radicals are compared through their squares and must be non-negative.
Property oracle (independent of the model): (Np+Nn)/Nt - p^2 in exact fractions for base
cells and inserted rows/columns.
"""
import json
import math
import random
from fractions import Fraction

from harness import core, impl
from harness.core import g_mat, g_nat, g_subtotals, g_vec
from harness.props import common_cases as cc

PID = "C11"
IMPORTS = """From Coq Require Import QArith ZArith List Bool.
From CC Require Import Base.XQ Base.Render Base.ListX Model.Subtotals Model.Proportions Model.Variance Model.RenderBlocks.
Import ListNotations."""

DIRS = ("row", "column", "table")
N2 = ["counts", "row_order", "column_order"]
for _d in DIRS:
    N2 += ["%s_proportions" % _d, "%s_weighted_bases" % _d, "%s_proportion_variances" % _d,
           "%s_std_dev" % _d, "%s_std_err" % _d,
           "%s_proportions_moe" % _d]
N1 = ["counts", "weighted_bases", "table_proportions", "table_proportion_stddevs",
      "table_proportion_stderrs", "table_proportion_moes", "row_order"]
BLOCKNAMES = [["base", "inserted_columns"], ["inserted_rows", "intersections"]]


def g_blocks(b):
    return "(mkB %s %s %s %s)" % (g_mat(b[0][0]), g_mat(b[0][1]), g_mat(b[1][0]), g_mat(b[1][1]))


def flat(blk):
    return [x for a in range(2) for b in range(2) for r in blk[a][b] for x in r]


def impl_run(case):
    p = impl.partition(case["response"], case["transforms"])
    io = {"ndim": p.ndim, "dims": impl.dims_info(p), "subs": impl.subtotal_idxs(p),
          "types": [str(t).split(".")[-1] for t in p.dimension_types]}
    io["v"] = cc.read(p, N1 if p.ndim == 1 else N2)
    return io


def build_term(case, io):
    v = io["v"]
    if cc.any_exc(v):
        return None
    if io["ndim"] == 1:
        n, ns = io["dims"]
        ro = v["row_order"][1]
        b = {name: impl.blocks1d(v[name][1], ro, n, ns) for name in N1 if name != "row_order"}
        io["blk"] = b
        cb = b["counts"][0]
        pb, ps = b["table_proportions"]
        bb, bs = b["weighted_bases"]
        # reported std-dev^2 is the variance the std-err step starts from
        sd = [x * x if not math.isnan(x) else x for x in b["table_proportion_stddevs"][0] + b["table_proportion_stddevs"][1]]
        se = b["table_proportion_stderrs"][0] + b["table_proportion_stderrs"][1]
        se2 = [Fraction(x) ** 2 if not (math.isnan(x) or math.isinf(x)) else x for x in se]
        return ("r_vec (strand_var_base %s) ++ r_vec (strand_var_subtotals %s %s %s %s) ++ "
                "r_vec (vmap2 stderr_sq %s %s) ++ r_vec (map moe_sq %s)") % (
            g_vec(pb), g_vec(cb), g_subtotals(io["subs"][0]), g_vec(ps), g_vec(bs),
            g_vec([Fraction(x) ** 2 if not (math.isnan(x) or math.isinf(x)) else x
                   for x in b["table_proportion_stddevs"][0] + b["table_proportion_stddevs"][1]]),
            g_vec(bb + bs), g_vec(se2))
    nr, nrs, nc, ncs = io["dims"]
    ro, co = v["row_order"][1], v["column_order"][1]
    blk = {}
    for name in N2:
        if name.endswith("_order"):
            continue
        blk[name] = impl.blocks2d(v[name][1], ro, co, nr, nc, nrs, ncs)
    io["blk"] = blk
    common = "%s %s %s %s %s" % (g_mat(blk["counts"][0][0]), g_nat(nr), g_nat(nc),
                                 g_subtotals(io["subs"][0]), g_subtotals(io["subs"][1]))
    parts = []
    for d in DIRS:
        parts.append("r_blocks (variance_blocks %s %s %s)" % (
            common, g_blocks(blk[d + "_proportions"]), g_blocks(blk[d + "_weighted_bases"])))
        var = flat(blk[d + "_proportion_variances"])
        base = flat(blk[d + "_weighted_bases"])
        se = flat(blk[d + "_std_err"])
        se2 = [Fraction(x) ** 2 if not (math.isnan(x) or math.isinf(x)) else x for x in se]
        parts.append("r_vec (vmap2 stderr_sq %s %s)" % (g_vec(var), g_vec(base)))
        parts.append("r_vec (map moe_sq %s)" % g_vec(se2))
    return " ++ ".join(parts)


def sq(x):
    e = core.to_exact(x)
    if isinstance(e, str):
        return "inf" if e in ("inf", "-inf") else e
    return e * e


def close_sq(impl_val, model_sq):
    """impl_val**2 vs model square; the implementation's value must be >= 0 (or NaN/inf)."""
    if isinstance(impl_val, float) and not math.isnan(impl_val) and impl_val < 0:
        return False
    return core.close(sq(impl_val), model_sq, inf_sign=False)


def oracle_var(io, d, fails):
    """(Np+Nn)/Nt - p^2 on base cells and inserted rows/columns, from reported values."""
    blk = io["blk"]
    nr, nrs, nc, ncs = io["dims"]
    C = blk["counts"][0][0]
    P, T, V = blk[d + "_proportions"], blk[d + "_weighted_bases"], blk[d + "_proportion_variances"]
    rs, cs = io["subs"]

    def check(a, b, i, j, Np, Nn):
        p, t, v = core.to_exact(P[a][b][i][j]), core.to_exact(T[a][b][i][j]), V[a][b][i][j]
        if isinstance(p, str) or isinstance(t, str) or t == 0:
            exp = "nan"
        else:
            exp = (Np + Nn) / t - p * p
            # the identity needs p = (Np-Nn)/Nt; on cat-date differences p is a percentage
            # difference instead, so use the defining three-term formula there
            Ni = t - Np - Nn
            exp = (1 - p) ** 2 * Np / t + p ** 2 * Ni / t + (1 + p) ** 2 * Nn / t
        if not core.close(v, exp, inf_sign=False):
            fails.append(("%s_proportion_variances.%s impl-vs-property" % (d, BLOCKNAMES[a][b]),
                          {"cell": [i, j], "impl": v, "property": exp},
                          {"measure": d + "_proportion_variances", "block": BLOCKNAMES[a][b]}))
            return False
        return True

    for i in range(nr):
        for j in range(nc):
            if not check(0, 0, i, j, Fraction(C[i][j]), Fraction(0)):
                return
    for k, s in enumerate(rs):
        for j in range(nc):
            Np = sum(Fraction(C[i][j]) for i in s[0])
            Nn = sum(Fraction(C[i][j]) for i in s[1])
            if not check(1, 0, k, j, Np, Nn):
                return
    for l, s in enumerate(cs):
        for i in range(nr):
            Np = sum(Fraction(C[i][j]) for j in s[0])
            Nn = sum(Fraction(C[i][j]) for j in s[1])
            if not check(0, 1, i, l, Np, Nn):
                return


def compare(case, io, toks):
    fails = []
    d = core.Dec(toks)
    if io["ndim"] == 1:
        n, ns = io["dims"]
        b = io["blk"]
        mvb, mvs, mse, mmoe = d.vec(), d.vec(), d.vec(), d.vec()
        sdb, sds = b["table_proportion_stddevs"]
        if not all(close_sq(x, m) for x, m in zip(sdb, mvb)) or len(sdb) != len(mvb):
            fails.append(("strand stddev^2.base", {"impl": sdb, "model_var": mvb}, {"measure": "table_proportion_stddevs", "block": "base"}))
        if not all(close_sq(x, m) for x, m in zip(sds, mvs)) or len(sds) != len(mvs):
            fails.append(("strand stddev^2.subtotals", {"impl": sds, "model_var": mvs, "subs": io["subs"]},
                          {"measure": "table_proportion_stddevs", "block": "inserted_rows"}))
        se = b["table_proportion_stderrs"][0] + b["table_proportion_stderrs"][1]
        if not all(close_sq(x, m) for x, m in zip(se, mse)):
            fails.append(("strand stderr^2", {"impl": se, "model": mse}, {"measure": "table_proportion_stderrs"}))
        moe = b["table_proportion_moes"][0] + b["table_proportion_moes"][1]
        if not all(close_sq(x, m) for x, m in zip(moe, mmoe)):
            fails.append(("strand moe^2", {"impl": moe, "model": mmoe}, {"measure": "table_proportion_moes"}))
        return fails
    blk = io["blk"]
    for dr in DIRS:
        V = blk[dr + "_proportion_variances"]
        for a in range(2):
            for b in range(2):
                mm = d.mat()
                target = V[a][b]
                if not target or not target[0]:
                    continue
                diff = core.first_diff_mat(target, mm, inf_sign=False)
                if diff is not None:
                    fails.append(("%s_proportion_variances.%s impl-vs-model" % (dr, BLOCKNAMES[a][b]),
                                  {"first_diff(i,j,impl,model)": diff, "subs": io["subs"], "types": io["types"]},
                                  {"measure": dr + "_proportion_variances", "block": BLOCKNAMES[a][b]}))
        mse = d.vec()
        mmoe = d.vec()
        se = flat(blk[dr + "_std_err"])
        moe = flat(blk[dr + "_proportions_moe"])
        sd = flat(blk[dr + "_std_dev"])
        var = flat(V)
        for idx, (x, m) in enumerate(zip(se, mse)):
            if not close_sq(x, m):
                fails.append(("%s_std_err^2 != variance/base" % dr, {"flat_idx": idx, "impl": x, "model_sq": m},
                              {"measure": dr + "_std_err"}))
                break
        for idx, (x, m) in enumerate(zip(moe, mmoe)):
            if not close_sq(x, m):
                fails.append(("%s_proportions_moe^2 != Z^2 stderr^2" % dr, {"flat_idx": idx, "impl": x, "model_sq": m},
                              {"measure": dr + "_proportions_moe"}))
                break
        for idx, (x, vv) in enumerate(zip(sd, var)):
            if not close_sq(x, core.to_exact(vv)):
                fails.append(("%s_std_dev^2 != variance" % dr, {"flat_idx": idx, "impl": x, "variance": vv},
                              {"measure": dr + "_std_dev"}))
                break
        for idx, vv in enumerate(var):
            if not math.isnan(vv) and vv < -1e-12:
                fails.append(("%s variance negative" % dr, {"flat_idx": idx, "variance": vv},
                              {"measure": dr + "_proportion_variances", "oracle": "nonneg"}))
                break
        oracle_var(io, dr, fails)
    return fails


def nontrivial(io):
    if io["ndim"] == 1:
        return io["dims"][0] >= 2
    nr, nrs, nc, ncs = io["dims"]
    return nr >= 1 and nc >= 1 and nr * nc >= 2


def evaluate(cases, rep, tag="cases"):
    ios, terms, kept = [], [], []
    for case in cases:
        io = impl_run(case)
        t = build_term(case, io)
        if t is None:
            rep.count_case(cc.replayable(case), False)
            rep.violation("impl-exception", cc.replayable(case), {"exceptions": cc.any_exc(io["v"])},
                          {"what": "exception"})
            continue
        ios.append(io)
        terms.append(t)
        kept.append(case)
    results, coq_s = core.run_coq_cases(PID, IMPORTS, terms, tag=tag, shard=60) if terms else ([], 0.0)
    for case, io, toks in zip(kept, ios, results):
        nt = nontrivial(io)
        rep.count_case(cc.replayable(case), nt)
        rep.dist("x".join(io["types"]))
        rep.dist("weighted" if case.get("weighted") else "unweighted")
        if case.get("filter_fraction"):
            rep.dist("filtered-query(population fraction != 1)")
        if case.get("weights_scaled"):
            rep.dist("weights-scaled-down(weighted bases between 0 and 1)")
        if case.get("pairwise_alpha"):
            rep.dist("pairwise-alpha-in-transforms")
        if any(len(s[1]) > 0 for dd in io["subs"] for s in dd):
            rep.dist("has_difference")
        if io["ndim"] == 2 and io["dims"][1] and io["dims"][3]:
            rep.dist("has_intersections")
        if nt:
            rep.sample({"types": io["types"], "dims": io["dims"], "subs": io["subs"]})
        for what, detail, ctx in compare(case, io, toks):
            rep.violation("impl-vs-model" if "impl-vs-model" in what else "impl-vs-property",
                          cc.replayable(case), dict(detail, what=what), dict(ctx, types="x".join(io["types"])))
        # READ-ORDER LEG (after seeded change C11-6: the population MoE wrote NaN into the cached strand
        # standard errors, visible only when population_counts_moe is read before table_proportion_stderrs):
        # the variances / standard deviations / standard errors / margins of error read after every other
        # public read must be the ones of the fresh partition the model was compared with.
        if int(case.get("k", 0)) % 3 == 0 or case.get("dominant") or case.get("empty_wave"):
            for n, a, b in cc.warnings_as_errors(case, N1 if io["ndim"] == 1 else N2)[:1]:
                rep.violation("impl-vs-property", cc.replayable(case),
                              {"what": n + " differs when warnings are errors", "normal": a,
                               "warnings_as_errors": b},
                              {"measure": n, "oracle": "warnings_as_errors", "types": "x".join(io["types"])})
            rep.dist("warnings-as-errors")
        population, late = cc.late_reads(case, N1 if io["ndim"] == 1 else N2, io["v"])
        rep.dist("late-reads:" + ("strand" if io["ndim"] == 1 else "slice"))
        rep.dist("late-reads:population=%s" % ("yes" if population is not None else "none"))
        for n, a, b, culprits in late[:1]:
            rep.violation("impl-vs-property", cc.replayable(case),
                          {"what": "%s depends on what was read before" % n, "fresh": a, "after_other_reads": b,
                           "population": population, "single_earlier_reads_that_change_it": culprits},
                          {"measure": n, "oracle": "order_independent", "types": "x".join(io["types"])})
    return coq_s, len(terms)


def run(tier, seed):
    rep = core.Report(PID, tier, seed)
    ob = core.obligations_gate(rep, PID)
    n_cases = 250 if tier == "quick" else 4000
    rng = random.Random(seed)
    cases = [cc.gen_slice_case(rng, k) for k in range(n_cases)]
    # dominant-cell stream (see common_cases.dominate): variances / standard errors of proportions that
    # are 1 - O(1e-6) and O(1e-6), where tolerance-style edits (np.isclose, clipping) become visible
    cc.dominate_some(cases, seed)
    cc.empty_wave_some(cases, seed, p=0.3)
    # FILTERED QUERIES (after seeded change C11-8: the proportion margins of error were multiplied by the
    # cube's population fraction): one response in five carries filter statistics with a fraction != 1
    # (old-style filtered / unfiltered weighted n, or filter_stats.filtered_complete.weighted); variance,
    # standard deviation, standard error and margin of error do not depend on them
    # SMALL WEIGHTS and a PAIRWISE ALPHA (after seeded changes C11-9 / C11-10: the standard error divided by
    # max(base, 1); the margin of error took its z quantile from transforms.pairwise_indices.alpha): one
    # weighted case in six has all weights divided by 32 / 64 / 1024 (weighted bases between 0 and 1), one
    # case in six carries a pairwise alpha other than 0.05 - no variance / std-dev / std-err / MoE depends on it
    from fractions import Fraction
    srng = random.Random(seed * 131 + 9)
    for case in cases:
        if case.get("weighted") and not case.get("dominant") and srng.random() < 0.17:
            cc.scale_weights(case, Fraction(1, srng.choice([32, 64, 1024])))
        if srng.random() < 0.17:
            tr = dict(case.get("transforms") or {})
            tr["pairwise_indices"] = {"alpha": srng.choice([[0.01], [0.1], [0.05, 0.01], [0.2, 0.001]])}
            case["transforms"] = tr
            case["pairwise_alpha"] = True
    frng = random.Random(seed * 613 + 3)
    for case in cases:
        if frng.random() < 0.2:
            res = case["response"]["result"]
            a, b = frng.choice([(50, 200), (3, 7), (1, 1000), (0, 40), (120, 100)])
            if frng.random() < 0.5:
                res["filtered"] = {"unweighted_n": a, "weighted_n": a}
                res["unfiltered"] = {"unweighted_n": b, "weighted_n": b}
            else:
                res["filter_stats"] = {"filtered_complete": {"weighted": {"selected": a, "other": b - a if b > a else 1,
                                                                          "missing": 0}},
                                       "is_cat_date": False}
            case["filter_fraction"] = [a, b]
    coq_s, nterms = evaluate(cases, rep)
    rep.cov["rule"] = (
        "random.Random(seed): same survey/insertion generator as C03 (all CAT|CAT_DATE|MR|CA pairings, strands, "
        "differences, intersections, weighted/unweighted, zero weights); non-trivial = at least 2 base cells; "
        "distinct by content hash")
    rep.cov["coq_eval_seconds"] = round(coq_s, 2)
    rep.cov["model_terms_evaluated"] = nterms
    rep.assumptions = [
        "proportion, base and count blocks fed to the model are the implementation's own public values (C03/C02/C01/C04 own them)",
        "std-dev, std-err, MoE are compared through their squares; np.sqrt is trusted to return the non-negative root",
    ]
    return rep.finish("proof", ob, trusted_base=core.TRUSTED_BASE_COMMON + [
        "Model/Variance.v is hand-written; tied to matrix/measure.py (_ProportionVariances, _*StandardError), "
        "matrix/subtotals.py (Positive/NegativeTermSubtotals), stripe/measure.py and cubepart.py (Z_975) by this "
        "correspondence run only"])


def replay(path):
    d = json.load(open(path))
    case = d["violation"]["case"]
    rep = core.Report(PID, "quick", d.get("seed", 0))
    evaluate([case], rep, tag="replay")
    for v in rep.violations:
        print("REPLAY still fails:", json.dumps(v["detail"])[:600])
    if not rep.violations and not rep.known:
        print("REPLAY: no longer fails")
    return 1 if (rep.violations or rep.known) else 0
