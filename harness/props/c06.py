# -*- coding: utf-8 -*-
"""C06 - Partitioning of 3-D and multi-cube responses restricts to the right respondents.

Obligations: coq/Props/C06.v (Spec/Restrict.v, Model/Partition.v, Proofs/Partition*.v, building
on Model/CubeCounts.v + Proofs/CubeCounts*.v).

(a) Correspondence Model/Partition.v vs implementation on generated single cubes (0-D .. 3-D,
    CA-as-0th through cube_idx=0 / is_single_col_cube) and cube sets: number and kind of the
    partitions, table_name / tab_label (the element whose label is used), counts /
    unweighted counts and the three weighted bases of every partition (the slice of the raw
    payload each partition sees), shape of CubeSet.partition_sets.
(b) Relational oracles on the implementation alone, from respondent-level surveys
    (harness/gen.py):
      rel      3-D cube: EVERY public attribute of Cube(resp3d).partitions[k] (introspection)
               equals the same attribute of the only partition of the 2-D cube of the survey
               restricted to the members of table element k (categorical table variable with
               missing categories anywhere, MR table variable: who selected item k,
               CA table variable: sub-variable k as a categorical variable); square shapes;
      tabbook  CubeSet partition_sets[k][j] == Cube(resp_j, cube_idx=j, ...).partitions[k]
               (1-D + 2-D tabbooks, stacks of square 3-D cubes, unequal stacks: truncation);
      ca0      CA-as-0th leading cube: strand k == the 1-D cube of sub-variable k, slice k of
               every other cube == the 2-D cube of sub-variable k x column variable;
      numeric  0-D / 1-D numeric-measure responses are inflated: values unchanged vs the lone
               Cube (nub -> one-row strand, strand -> one-row slice);
      augment  is_single_col_cube filter cube with dropped zero-count elements == the
               full-shape cube of the filtered survey.
      shared   (after seeded change C06-11: CubeSet.partition_sets cached the partitions by
               id(response), "partition each distinct response only once", so the second position of
               a repeated response got the partitions - transforms, cube_index, CA-as-0th decision -
               of the first.)  Multi-cube sets in which ONE response OBJECT (the very same dict, not
               a copy: a tabbook repeats a column variable once per banner) is passed at two
               positions, with DIFFERENT per-cube transforms (column subtotal / hidden column /
               explicit or label order on one of them) or with EQUAL ones: tabbooks with a repeated
               column cube or a repeated summary cube, CA-as-0th sets with a repeated column cube or
               the array response itself repeated, stacks with a repeated 3-D cube.  Oracle as for
               `tabbook`, with the transforms of position j: partition_sets[k][j] ==
               Cube(resp_j, cube_idx=j, transforms=t_j, ...).partitions[k], every public attribute
               (incl. cube_index).  `cube_set` deep-copies every response, so this section builds
               the set with `cube_set_shared` (one object per distinct response).
    Attributes excluded from a comparison are listed in SKIP_* below with the reason and are
    recorded in the evidence.

Repaired finding (fixed in /repo; theorem C06_augment_weighted_former_witness, first case of
every run = its witness): known_findings.d/C06-augment-overwrites-weighted-count.json - an augmented
WEIGHTED single-column cube gets its count measure overwritten by the unweighted counts; only that
class (section augment, relational oracle, weighted, augmented) is reported as KNOWN-FINDING.
The 3-D column_index baseline defect (C16-3d-baseline-wrong-table) is repaired in /repo: the `rel`
oracle requires equality of column_index as of every other attribute.
"""
import copy
import json
import random

import numpy as np

from harness import core, gen, impl
from harness.core import g_bool, g_list, g_nat, g_opt, g_xq
from harness.props import cube_util as cu
from harness.props import c06_util as u

PID = "C06"

IMPORTS = """From Coq Require Import QArith ZArith List Bool.
From CC Require Import Base.XQ Base.Render Base.ListX Spec.Survey Model.CubeCounts
     Model.CubeCountsRender Model.Partition Model.PartitionRender.
Import ListNotations."""

POP = 1000

# attributes that name the TABLE a partition came from: a 2-D cube has no table
SKIP_REL = {"table_name": "3-D only: '<cube name>: <table element label>' (checked against the model)",
            "tab_label": "names the table element (CA sub-variable)",
            "tab_alias": "names the table element (CA sub-variable)"}
# sub-variable k of an array analysed on its own is a CAT dimension, inside the array a CA_CAT one
SKIP_CA = dict(SKIP_REL, **{
    "dimension_types": "CA_CAT inside the array vs CAT for the sub-variable on its own",
    "rows_dimension_type": "CA_CAT inside the array vs CAT for the sub-variable on its own"})
SKIP_CUBE_IDX = {"cube_index": "position of the cube in its set (the lone cube is built with cube_idx 0)"}

# numeric-measure inflation: attributes whose VALUE must survive the added one-row dimension
INFLATE_SAME = ["counts", "unweighted_counts", "weighted_counts", "means", "sums", "stddev",
                "medians", "table_proportions", "table_percentages", "table_base_range",
                "table_margin_range", "population_counts", "population_counts_moe",
                "population_proportions", "is_empty", "population_fraction",
                "selected_category_labels"]
# (attribute of the lone strand, attribute of the one-row slice): rows become columns
INFLATE_CROSS = [("rows_base", "columns_base"), ("rows_margin", "columns_margin"),
                 ("row_labels", "column_labels"), ("rows_dimension_type", "columns_dimension_type"),
                 ("rows_dimension_name", "columns_dimension_name")]


# ------------------------------------------------------------------------------------
# generators
# ------------------------------------------------------------------------------------

def make_var(rng, alias, kind, n):
    if kind in ("cat", "cat_date"):
        return gen.make_cat(rng, alias, n_valid=n, n_missing=rng.choice([0, 1, 1, 2]),
                            date=(kind == "cat_date"), missing_anywhere=True)
    if kind == "mr":
        return gen.make_mr(rng, alias, n_items=n)
    if kind == "ca":
        return gen.make_ca(rng, alias, n_items=n, n_valid=n, n_missing=rng.choice([0, 1]))
    return gen.make_enum(rng, alias, kind, n_valid=n)


def missing_first(v):
    """put a missing category BEFORE a valid one on a categorical variable"""
    if v.kind in ("cat", "cat_date") and len(v.cats) >= 2:
        if not any(c["missing"] for c in v.cats):
            v.cats.insert(0, {"id": max(c["id"] for c in v.cats) + 1, "missing": True,
                              "name": "%s_miss" % v.alias, "numeric_value": None})
        else:
            k = [n for n, c in enumerate(v.cats) if c["missing"]][0]
            v.cats.insert(0, v.cats.pop(k))


def survey_case(section, k, sv, **kw):
    case = {"section": section, "k": k, "survey": cu.survey_to_json(sv)}
    case.update(kw)
    return case


def gen_rel(rng, k):
    n = rng.choice([2, 3, 3])
    layout = rng.choice(["cat", "cat", "mr", "mr", "ca_table", "x_ca"])
    if layout == "ca_table":
        vs = [make_var(rng, "v0", "ca", n), make_var(rng, "v1", rng.choice(["cat", "mr"]), n)]
    elif layout == "x_ca":
        vs = [make_var(rng, "v0", rng.choice(["cat", "mr"]), n), make_var(rng, "v1", "ca", n)]
    else:
        vs = [make_var(rng, "v0", layout, n),
              make_var(rng, "v1", rng.choice(["cat", "cat", "mr", "cat_date"]), n),
              make_var(rng, "v2", rng.choice(["cat", "cat", "mr"]), n)]
    if vs[0].kind == "cat" and rng.random() < 0.5:
        missing_first(vs[0])
    if vs[0].kind == "cat" and rng.random() < 0.06:
        for c in vs[0].cats:          # no valid table element at all: no partition
            c["missing"], c["numeric_value"] = True, None
    for v in vs[1:]:
        if v.kind == "cat" and rng.random() < 0.35:
            v.view_insertions = gen.random_insertions(rng, v, max_n=2, stale=False)
    numeric = rng.random() < 0.3
    sv = gen.Survey(vs, rng.choice([0, 4, 10, 20, 30]), rng, numvars=["x"] if numeric else [])
    transforms = None
    r = rng.random()
    if r < 0.15:
        transforms = {"rows_dimension": {"prune": True}, "columns_dimension": {"prune": True}}
    elif r < 0.3:
        transforms = {"rows_dimension": {"order": {"type": "label", "direction": "descending"}},
                      "columns_dimension": {"order": {"type": "label", "direction": "ascending"}}}
    elif r < 0.4:
        transforms = {"pairwise_indices": {"alpha": [0.05, 0.2], "only_larger": False}}
    return survey_case("rel", k, sv, aliases=[v.alias for v in vs], layout=layout,
                       meas=u.pick_measures(rng, numeric), mask_size=rng.choice([0, 2, 5]), n=n,
                       transforms=transforms, overlaps=(k % 3 != 0))


def gen_single(rng, k):
    """single cube for the model correspondence (any shape, any dimension kinds)"""
    r = rng.random()
    sc = ("0d" if r < 0.06 else "1d" if r < 0.2 else "2d" if r < 0.4 else "3d" if r < 0.7
          else "ca" if r < 0.85 else "ca3")
    if sc == "0d":
        sv = gen.Survey([], rng.choice([0, 3, 9]), rng, numvars=["x"])
        case = {"k": k, "shape_class": "0d", "survey": cu.survey_to_json(sv), "aliases": [],
                "perm": None, "measures": ["count", "mean"], "numvar": "x", "valid_counts": False,
                "unavailable": [], "mask_size": 0, "ca_as_0th": False}
        cu.finish_case(case)
    else:
        case = cu.gen_case(rng, k, shape_class=sc, numeric=(rng.random() < 0.15), permute=False,
                           missing_table_first=(sc == "3d" and rng.random() < 0.5),
                           n_resp=rng.choice([0, 3, 8, 15, 25]))
    if sc == "3d" and rng.random() < 0.06 and case["survey"]["vars"][0]["kind"] == "cat":
        for c in case["survey"]["vars"][0]["cats"]:      # no valid table element: no partition
            c["missing"], c["numeric_value"] = True, None
        cu.finish_case(case)
    case["section"] = "single"
    case["cube_idx"] = rng.choice([None, None, 0, 0, 1])
    case["single_col"] = rng.random() < 0.15
    return case


def gen_tabbook(rng, k):
    n = rng.choice([2, 3, 3])
    mode = rng.choice(["tabbook", "tabbook", "stack", "stack", "unequal", "solo"])
    if mode == "solo":
        # a single response in a sequence: not a multi-cube set (no cube_idx, no CA-as-0th)
        vs = [make_var(rng, "v0", rng.choice(["ca", "ca", "cat", "mr"]), n),
              make_var(rng, "v1", rng.choice(["cat", "mr"]), n)]
        sv = gen.Survey(vs, rng.choice([5, 15]), rng)
        cubes = [["v0"] if vs[0].kind == "ca" and rng.random() < 0.6 else ["v0", "v1"]]
    elif mode == "tabbook":
        rowv = make_var(rng, "v0", rng.choice(["cat", "mr", "cat_date", "text"]), n)
        cols = [make_var(rng, "v%d" % (j + 1), rng.choice(["cat", "mr", "cat"]), n)
                for j in range(rng.randint(1, 3))]
        sv = gen.Survey([rowv] + cols, rng.choice([5, 15, 30]), rng)
        cubes = [["v0"]] + [["v0", c.alias] for c in cols]
    else:
        tv = make_var(rng, "v0", rng.choice(["cat", "mr"]), n)
        if mode == "stack" and rng.random() < 0.5:
            missing_first(tv)
        rowv = make_var(rng, "v1", rng.choice(["cat", "mr"]), n)
        cols = [make_var(rng, "v%d" % (j + 2), rng.choice(["cat", "mr", "cat"]), n)
                for j in range(n)]       # as many cubes as tables: a wrong transposition is visible
        vs = [tv, rowv] + cols
        cubes = [["v0", "v1", c.alias] for c in cols]
        if mode == "unequal":
            t2 = make_var(rng, "w0", "cat", n + 1)
            vs.append(t2)
            cubes[rng.randrange(len(cubes))][0] = "w0"
        sv = gen.Survey(vs, rng.choice([5, 15, 30]), rng)
    return survey_case("tabbook", k, sv, cubes=cubes, mode=mode,
                       meas=u.pick_measures(rng, False), mask_size=rng.choice([0, 3]))


def gen_ca0(rng, k):
    n = rng.choice([2, 3, 3])
    ca = make_var(rng, "v0", "ca", n)
    cols = [make_var(rng, "v%d" % (j + 1), rng.choice(["cat", "mr", "cat"]), n)
            for j in range(rng.randint(1, 2))]
    sv = gen.Survey([ca] + cols, rng.choice([5, 15, 30]), rng)
    return survey_case("ca0", k, sv, cubes=[["v0"]] + [["v0", c.alias] for c in cols],
                       meas=u.pick_measures(rng, False), mask_size=rng.choice([0, 3]), n=n)


def dim_transform(rng, v, kind=None):
    """a display / insertion transform of the dimension of variable `v`: column subtotal, hidden element,
    explicit order (categorical, >= 2 valid categories) or label order (any kind)"""
    ids = [c["id"] for c in (v.cats or []) if not c["missing"]] if v.kind in ("cat", "ca") else []
    kind = kind or (rng.choice(["subtotal", "hide", "explicit", "label"]) if len(ids) >= 2 else "label")
    if kind == "subtotal":
        return {"insertions": [{"function": "subtotal", "name": "sub %s" % v.alias, "args": ids[:2],
                                "anchor": rng.choice(["top", "bottom", ids[0]])}]}
    if kind == "hide":
        return {"elements": {str(rng.choice(ids)): {"hide": True}}}
    if kind == "explicit":
        return {"order": {"type": "explicit", "element_ids": list(reversed(ids))}}
    return {"order": {"type": "label", "direction": "descending"}}


def gen_shared(rng, k):
    """a multi-cube set in which one response OBJECT sits at two positions (see module docstring)"""
    n = rng.choice([2, 3, 3])
    mode = ["tabbook_dup", "summary_dup", "ca0_dup", "ca_lead_dup", "stack_dup", "tabbook_dup"][k % 6]
    if mode in ("tabbook_dup", "summary_dup"):
        rowv = make_var(rng, "v0", rng.choice(["cat", "mr", "cat", "text"]), n)
        cols = [make_var(rng, "v%d" % (j + 1), rng.choice(["cat", "cat", "mr"]), n)
                for j in range(rng.randint(1, 2))]
        vs = [rowv] + cols
        cubes = [["v0"]] + [["v0", c.alias] for c in cols]
        dup = 0 if mode == "summary_dup" else rng.randrange(1, len(cubes))
    elif mode in ("ca0_dup", "ca_lead_dup"):
        ca = make_var(rng, "v0", "ca", n)
        cols = [make_var(rng, "v%d" % (j + 1), rng.choice(["cat", "mr", "cat"]), n)
                for j in range(rng.randint(1, 2))]
        vs = [ca] + cols
        cubes = [["v0"]] + [["v0", c.alias] for c in cols]
        dup = 0 if mode == "ca_lead_dup" else rng.randrange(1, len(cubes))
    else:
        tv = make_var(rng, "v0", rng.choice(["cat", "mr"]), n)
        rowv = make_var(rng, "v1", rng.choice(["cat", "mr"]), n)
        cols = [make_var(rng, "v%d" % (j + 2), rng.choice(["cat", "cat", "mr"]), n)
                for j in range(rng.randint(1, 2))]
        vs = [tv, rowv] + cols
        cubes = [["v0", "v1", c.alias] for c in cols]
        dup = rng.randrange(len(cubes))
    sv = gen.Survey(vs, rng.choice([5, 15, 30]), rng)
    # positions: the distinct cubes in order, the repeated one inserted again at a later position
    share = list(range(len(cubes)))
    second = rng.randint(dup + 1, len(share))
    share.insert(second, dup)
    by_alias = {v.alias: v for v in vs}

    def a_transform(slot, kind=None):
        al = cubes[slot]
        v = by_alias[al[-1]]
        ndim = sum(2 if by_alias[a].kind == "ca" else 1 for a in al)
        key = "columns_dimension" if ndim >= 2 else "rows_dimension"
        return {key: dim_transform(rng, v, kind)}

    relation = "equal" if (k % 6 + k // 6) % 3 == 2 else "different"
    transforms = [a_transform(s) if rng.random() < 0.3 else {} for s in share]
    first = share.index(dup)
    if relation == "equal":
        transforms[first] = a_transform(dup) if rng.random() < 0.6 else {}
        transforms[second] = copy.deepcopy(transforms[first])
    else:
        t = a_transform(dup)
        r = rng.random()
        if r < 0.4:
            transforms[first], transforms[second] = {}, t
        elif r < 0.7:
            transforms[first], transforms[second] = t, {}
        else:
            t2 = a_transform(dup)
            if t2 == t:
                t2 = {}
            transforms[first], transforms[second] = t, t2
    return survey_case("shared", k, sv, cubes=[cubes[s] for s in share], share=share, mode=mode,
                       relation=relation, transforms=transforms,
                       meas=u.pick_measures(rng, False), mask_size=rng.choice([0, 3]))


def gen_numeric(rng, k):
    n = 3
    cols = [make_var(rng, "v%d" % (j + 1), rng.choice(["cat", "mr", "cat", "cat_date"]), n)
            for j in range(rng.randint(1, 3))]
    sv = gen.Survey(cols, rng.choice([0, 6, 20]), rng, numvars=["x"])
    meas = {"measures": ["count", "mean"] + rng.sample(["sum", "stddev", "median"], rng.randint(0, 2)),
            "numvar": "x", "valid_counts": rng.choice([False, True])}
    return survey_case("numeric", k, sv, cubes=[[]] + [[c.alias] for c in cols], meas=meas,
                       mask_size=rng.choice([0, 3]))


def gen_augment(rng, k):
    t = gen.make_enum(rng, "v0", "text", n_valid=rng.randint(2, 6), with_missing=rng.random() < 0.7)
    f = gen.make_cat(rng, "f", n_valid=2, n_missing=0)
    # 30% weighted: the weighted count of an augmented cube is overwritten by the unweighted one
    # (known finding C06-augment-overwrites-weighted-count)
    sv = gen.Survey([t, f], rng.choice([2, 5, 9, 14]), rng, weighted=(rng.random() < 0.3),
                    zero_weights=False)
    # mask_size > 0 in two cases out of three: the minimum-base mask of an augmented cube must be the
    # one of the full-shape cube built with the same threshold (seeded change C02-6: augment_response
    # rebuilt the cube without the threshold)
    return survey_case("augment", k, sv, n_filters=rng.randint(1, 2),
                       meas={"measures": ["count"], "numvar": None, "valid_counts": False},
                       mask_size=rng.choice([0, 2, 3, 6]), row_transforms=(k % 3 != 1))


def witness_augment_case():
    """the minimal input of finding C06-augment-overwrites-weighted-count (Props/C06.v
    C06_augment_weighted_count_refuted): weighted summary A:4.5 B:5, the filter keeps the two
    respondents answering B (weight 2.5 each), zz9 omits element A from the filter cube"""
    t = {"kind": "text", "alias": "v0", "name": "V0",
         "elements": [{"id": 0, "value": "A", "missing": False}, {"id": 1, "value": "B", "missing": False},
                      {"id": 2, "value": {"?": -1}, "missing": True}]}
    f = {"kind": "cat", "alias": "f", "name": "F",
         "cats": [{"id": 1, "missing": False, "name": "f_c1", "numeric_value": None},
                  {"id": 2, "missing": False, "name": "f_c2", "numeric_value": None}]}
    resp = ([{"ans": {"v0": 0, "f": 1}, "w": "3/2", "num": {}}] * 3
            + [{"ans": {"v0": 1, "f": 0}, "w": "5/2", "num": {}}] * 2)
    return {"section": "augment", "k": -1, "n_filters": 1,
            "survey": {"vars": [t, f], "weighted": True, "numvars": [], "resp": resp},
            "meas": {"measures": ["count"], "numvar": None, "valid_counts": False}}


# ------------------------------------------------------------------------------------
# running the implementation
# ------------------------------------------------------------------------------------

def lone(resp, cube_idx=None, mask_size=0, transforms=None):
    return impl.cube(resp, transforms=transforms, population=POP, mask_size=mask_size,
                     cube_idx=cube_idx)


def cube_set(resps, mask_size=0, transforms=None):
    return impl.CubeSet([copy.deepcopy(r) for r in resps],
                        [copy.deepcopy(transforms) if transforms else {} for _ in resps], POP, mask_size)


def cube_set_shared(resps, share, transforms, mask_size=0):
    """CubeSet in which positions with the same `share` slot receive the SAME response object (one private
    deep copy per distinct slot, so that nothing the set does to it reaches the stand-alone analyses); every
    position has its own transforms dict"""
    objs = {}
    for r, s in zip(resps, share):
        if s not in objs:
            objs[s] = copy.deepcopy(r)
    return impl.CubeSet([objs[s] for s in share], [copy.deepcopy(t or {}) for t in transforms], POP,
                        mask_size)


def augment_row_transforms(case, summary):
    """display transforms on the rows of an augment case (after seeded changes C06-8 / C09-8: the cube that
    augment_response rebuilds lost the analysis' transforms): explicit order = the valid element ids
    reversed, the first listed element hidden when there are more than two, prune in one case out of two"""
    if not case.get("row_transforms"):
        return None
    els = summary["result"]["dimensions"][0]["type"].get("elements") or \
        summary["result"]["dimensions"][0]["type"].get("categories") or []
    ids = [e["id"] for e in els if not e.get("missing")]
    if len(ids) < 2:
        return None
    d = {"order": {"type": "explicit", "element_ids": list(reversed(ids))}}
    if len(ids) > 2:
        d["elements"] = {str(ids[-1]): {"hide": True}}
    if int(case.get("k", 0)) % 2:
        d["prune"] = True
    return {"rows_dimension": d}


def fail(what, **kw):
    d = {"what": what}
    d.update(kw)
    return d


def compare_parts(p, q, skip, where):
    out = []
    for nm, a, b in u.diff_snapshots(u.snapshot(p), u.snapshot(q), skip=skip):
        out.append(fail(nm.split("(")[0], attr=nm, where=where, got=u.short(a), expected=u.short(b)))
    return out


def label_at(v, pos):
    if v.kind in ("cat", "cat_date"):
        return v.cats[pos]["name"]
    if v.kind in ("mr", "ca"):
        return v.items[pos]["name"]
    return None


# --- rel ---------------------------------------------------------------------------------

def check_rel(case, stats=None):
    sv = cu.survey_from_json(case["survey"])
    al, meas = case["aliases"], case["meas"]
    tv = sv.var(al[0])
    r3 = u.response(sv, al, meas)
    # OVERLAP MEASURES (after seeded change C06-6: the valid-overlap plane of an MR TABLE dimension): when
    # the columns variable is MR the 3-D response and every restricted 2-D response carry the overlap /
    # valid_overlap measures of that variable, so the subvariable pairwise test of partition k must be the
    # one of the restricted respondents
    with_ov = bool(case.get("overlaps")) and sv.var(al[-1]).kind == "mr" and tv.kind != "ca"
    if with_ov:
        from harness.props import c13_util as pu
        pu.add_overlaps(r3, sv, al, bool(sv.weighted))
    tf = case.get("transforms")
    res = impl.guarded(lambda: lone(r3, mask_size=case["mask_size"], transforms=tf).partitions)
    if res[0] != "ok":
        return [fail("exception", where="3-D partitions", got=res[1:])]
    parts = res[1]
    nv = u.n_valid(tv)
    fails = []
    if len(parts) != nv:
        fails.append(fail("n_partitions", got=len(parts), expected=nv))
    ca_table = tv.kind == "ca"
    skip = SKIP_CA if ca_table else SKIP_REL
    for k, p in enumerate(parts[:nv]):
        if type(p).__name__ != "_Slice":
            fails.append(fail("partition_type", part=k, got=type(p).__name__, expected="_Slice"))
            continue
        sv2 = u.subvar_survey(sv, al[0], k) if ca_table else u.restrict(sv, al[0], k)
        al2 = al if ca_table else al[1:]
        r2 = u.response(sv2, al2, meas)
        if with_ov:
            pu.add_overlaps(r2, sv2, al2, bool(sv.weighted))
        q = impl.guarded(lambda: lone(r2, mask_size=case["mask_size"], transforms=tf).partitions[0])
        if q[0] != "ok":
            fails.append(fail("exception", where="restricted 2-D cube", got=q[1:]))
            continue
        fs = compare_parts(p, q[1], skip, "partition %d vs 2-D cube of the restricted survey" % k)
        for f in fs:
            f["part"] = k
            f["table_rank_is_offset"] = (u.valid_positions_of(tv)[k] == k)
        fails.extend(fs)
        # names: '<cube name>: <label of the table element>'
        pos = u.valid_positions_of(tv)[k]
        tn = impl.get(p, "table_name")
        exp = "%s: %s" % (tv.name, label_at(tv, pos))
        if tn[0] != "ok" or tn[1] != exp:
            fails.append(fail("table_name", part=k, got=tn[1:], expected=exp))
        tl = impl.get(p, "tab_label")
        exp = label_at(tv, pos) if ca_table else ""
        if tl[0] != "ok" or tl[1] != exp:
            fails.append(fail("tab_label", part=k, got=tl[1:], expected=exp))
        # tab_alias: the alias of the table element (CA sub-variable), '' otherwise (a single-edit mutant
        # that read all_elements instead of valid_elements survived the suite and every check)
        ta = impl.get(p, "tab_alias")
        exp = (tv.items[pos].get("alias") if ca_table else "")
        if ta[0] != "ok" or ta[1] != exp:
            fails.append(fail("tab_alias", part=k, got=ta[1:], expected=exp))
        if stats is not None:
            stats["attributes_compared"] = stats.get("attributes_compared", 0) + len(u.public_names(p))
    return fails


# --- tabbook / stacks ------------------------------------------------------------------------

def check_tabbook(case, stats=None):
    sv = cu.survey_from_json(case["survey"])
    resps = [u.response(sv, al, case["meas"]) for al in case["cubes"]]
    res = impl.guarded(lambda: cube_set(resps, case["mask_size"]).partition_sets)
    if res[0] != "ok":
        return [fail("exception", where="CubeSet.partition_sets", got=res[1:])]
    psets = res[1]
    multi = len(resps) > 1
    lones = []
    for j, r in enumerate(resps):
        q = impl.guarded(lambda: lone(r, cube_idx=j if multi else None, transforms={},
                                      mask_size=case["mask_size"]).partitions)
        if q[0] != "ok":
            return [fail("exception", where="lone cube %d" % j, got=q[1:])]
        lones.append(q[1])
    fails = []
    n_sets = min(len(x) for x in lones)
    if len(psets) != n_sets:
        fails.append(fail("n_partition_sets", got=len(psets), expected=n_sets))
    for k, pset in enumerate(psets[:n_sets]):
        if len(pset) != len(resps):
            fails.append(fail("partition_set_size", part=k, got=len(pset), expected=len(resps)))
            continue
        for j, p in enumerate(pset):
            fs = compare_parts(p, lones[j][k], (), "partition_sets[%d][%d] vs cube %d partition %d"
                               % (k, j, j, k))
            for f in fs:
                f["part"], f["cube"] = k, j
            fails.extend(fs)
    return fails


# --- one response object at two positions of a set -----------------------------------------------

def check_shared(case, stats=None):
    sv = cu.survey_from_json(case["survey"])
    share, tfs, ms = case["share"], case["transforms"], case["mask_size"]
    by_slot = {}
    for al, s in zip(case["cubes"], share):
        if s not in by_slot:
            by_slot[s] = u.response(sv, al, case["meas"])
    resps = [by_slot[s] for s in share]
    # the stand-alone analyses first, on deep copies (impl.cube) of the pristine responses
    lones = []
    for j, r in enumerate(resps):
        q = impl.guarded(lambda: lone(r, cube_idx=j, transforms=tfs[j] or {}, mask_size=ms).partitions)
        if q[0] != "ok":
            return [fail("exception", where="lone cube %d" % j, got=q[1:])]
        lones.append(q[1])
    res = impl.guarded(lambda: cube_set_shared(resps, share, tfs, ms).partition_sets)
    if res[0] != "ok":
        return [fail("exception", where="CubeSet.partition_sets (shared response object)", got=res[1:])]
    psets = res[1]
    fails = []
    n_sets = min(len(x) for x in lones)
    if len(psets) != n_sets:
        fails.append(fail("n_partition_sets", got=len(psets), expected=n_sets))
    for k, pset in enumerate(psets[:n_sets]):
        if len(pset) != len(resps):
            fails.append(fail("partition_set_size", part=k, got=len(pset), expected=len(resps)))
            continue
        for j, p in enumerate(pset):
            fs = compare_parts(p, lones[j][k], (),
                               "partition_sets[%d][%d] vs cube %d (its own transforms, cube_idx %d) partition "
                               "%d; response object shared by positions %s"
                               % (k, j, j, j, k, [i for i, s in enumerate(share) if s == share[j]]))
            for f in fs:
                f["part"], f["cube"] = k, j
            fails.extend(fs)
        if stats is not None:
            stats["shared_partitions_compared"] = stats.get("shared_partitions_compared", 0) + len(pset)
    return fails


# --- CA as 0th ----------------------------------------------------------------------------

def check_ca0(case, stats=None):
    sv = cu.survey_from_json(case["survey"])
    meas = case["meas"]
    ca = sv.var("v0")
    resps = [u.response(sv, al, meas) for al in case["cubes"]]
    res = impl.guarded(lambda: cube_set(resps, case["mask_size"]).partition_sets)
    if res[0] != "ok":
        return [fail("exception", where="CubeSet.partition_sets", got=res[1:])]
    psets = res[1]
    nv = u.n_valid(ca)
    fails = []
    if len(psets) != nv:
        fails.append(fail("n_partition_sets", got=len(psets), expected=nv))
    for k, pset in enumerate(psets[:nv]):
        svk = u.subvar_survey(sv, "v0", k)
        pos = u.valid_positions_of(ca)[k]
        if len(pset) != len(resps):
            fails.append(fail("partition_set_size", part=k, got=len(pset), expected=len(resps)))
            continue
        for j, p in enumerate(pset):
            want = "_Strand" if j == 0 else "_Slice"
            if type(p).__name__ != want:
                fails.append(fail("partition_type", part=k, cube=j, got=type(p).__name__, expected=want))
                continue
            q = impl.guarded(lambda: lone(u.response(svk, case["cubes"][j], meas),
                                          mask_size=case["mask_size"]).partitions[0])
            if q[0] != "ok":
                fails.append(fail("exception", where="sub-variable cube", got=q[1:]))
                continue
            skip = dict(SKIP_CA, **SKIP_CUBE_IDX)
            fs = compare_parts(p, q[1], skip,
                               "partition_sets[%d][%d] vs analysis of sub-variable %d" % (k, j, k))
            for f in fs:
                f["part"], f["cube"] = k, j
            fails.extend(fs)
            exp = "%s: %s" % (ca.name, ca.items[pos]["name"])
            tn = impl.get(p, "table_name")
            if tn[0] != "ok" or tn[1] != exp:
                fails.append(fail("table_name", part=k, cube=j, got=tn[1:], expected=exp))
            tl = impl.get(p, "tab_label")
            if tl[0] != "ok" or tl[1] != ca.items[pos]["name"]:
                fails.append(fail("tab_label", part=k, cube=j, got=tl[1:], expected=ca.items[pos]["name"]))
            ta = impl.get(p, "tab_alias")
            if ta[0] != "ok" or ta[1] != ca.items[pos].get("alias"):
                fails.append(fail("tab_alias", part=k, cube=j, got=ta[1:], expected=ca.items[pos].get("alias")))
    return fails


# --- numeric measures: inflation --------------------------------------------------------------

def _squeeze_rows(v):
    if v[0] == "ok" and isinstance(v[1], list) and len(v[1]) == 1 and isinstance(v[1][0], list):
        return ["ok", v[1][0]]
    return v


def check_numeric(case, stats=None):
    sv = cu.survey_from_json(case["survey"])
    meas = case["meas"]
    resps = [u.response(sv, al, meas) for al in case["cubes"]]
    res = impl.guarded(lambda: cube_set(resps, case["mask_size"]).partition_sets)
    if res[0] != "ok":
        return [fail("exception", where="CubeSet.partition_sets", got=res[1:])]
    psets = res[1]
    fails = []
    if len(psets) != 1 or len(psets[0]) != len(resps):
        return [fail("n_partition_sets", got=[len(x) for x in psets], expected=[len(resps)])]
    kinds = [type(p).__name__ for p in psets[0]]
    if kinds != ["_Strand"] + ["_Slice"] * (len(resps) - 1):
        fails.append(fail("partition_type", got=kinds))
        return fails
    # 0-D: the nub's values in a one-row strand
    nub = lone(resps[0], mask_size=case["mask_size"]).partitions[0]
    st = psets[0][0]
    for a, b in (("means", "means"), ("unweighted_counts", "unweighted_count")):
        x, y = impl.get(st, a), impl.get(nub, b)
        if x[0] != y[0]:
            fails.append(fail(a, cube=0, got=x[:2], expected=y[:2]))
        elif x[0] == "ok":
            xv = u.canon(x[1])
            if not (isinstance(xv, list) and len(xv) == 1 and u.same(xv[0], u.canon(y[1]))):
                fails.append(fail(a, cube=0, got=u.short(xv), expected=u.short(u.canon(y[1]))))
    sh = impl.get(st, "shape")
    if sh[0] != "ok" or tuple(sh[1]) != (1,):
        fails.append(fail("shape", cube=0, got=sh[1:], expected=(1,)))
    # 1-D: the strand's values in a one-row slice
    for j in range(1, len(resps)):
        q = lone(resps[j], mask_size=case["mask_size"]).partitions[0]
        sq, sp = u.snapshot(q), u.snapshot(psets[0][j])
        tp = sq.get("table_proportions", ["exc"])
        degenerate = tp[0] != "ok" or any(x != x for x in tp[1])
        # a categorical-date strand reports the constant population share 1 (stripe/measure.py
        # _PopulationProportions), the one-row slice the column share x/x: they differ where x = 0
        rdt = sq.get("rows_dimension_type", ["exc"])
        degenerate = degenerate or (rdt[0] == "ok" and isinstance(rdt[1], dict)
                                    and rdt[1].get("name") == "CAT_DATE")
        for a in INFLATE_SAME:
            if degenerate and a.startswith("population_"):
                # 0/0 tables: _Strand and _Slice derive the population measures differently
                # (C17's business); the cell values themselves are compared in any case
                continue
            if a in sq and a in sp and not u.same(_squeeze_rows(sp[a]), sq[a]):
                fails.append(fail(a, cube=j, where="inflated one-row slice vs lone strand",
                                  got=u.short(sp[a]), expected=u.short(sq[a])))
        for a, b in INFLATE_CROSS:
            if a in sq and b in sp and not u.same(_squeeze_rows(sp[b]), sq[a]):
                fails.append(fail(b, cube=j, where="inflated one-row slice vs lone strand (.%s)" % a,
                                  got=u.short(sp[b]), expected=u.short(sq[a])))
        sh, shq = impl.get(psets[0][j], "shape"), impl.get(q, "shape")
        if sh[0] != "ok" or shq[0] != "ok" or tuple(sh[1]) != (1,) + tuple(shq[1]):
            fails.append(fail("shape", cube=j, got=sh[1:], expected=("1 x", shq[1:])))
    return fails


# --- single-column filter cubes: augmentation -----------------------------------------------------

def drop_zero_elements(resp):
    """what zz9 sends for a single-column filter cube: elements nobody answered are absent,
    the ids of the remaining ones are renumbered"""
    r = copy.deepcopy(resp)
    res = r["result"]
    els = res["dimensions"][0]["type"]["elements"]
    keep = [i for i, e in enumerate(els) if e["missing"] or res["counts"][i] != 0]
    new = []
    for n, i in enumerate(keep):
        e = copy.deepcopy(els[i])
        e["id"] = -1 if e["missing"] else n
        new.append(e)
    res["dimensions"][0]["type"]["elements"] = new
    res["counts"] = [res["counts"][i] for i in keep]
    for m in res["measures"].values():
        m["data"] = [m["data"][i] for i in keep]
    return r


def augment_responses(case):
    sv = cu.survey_from_json(case["survey"])
    meas = case["meas"]
    summary = u.response(sv, ["v0"], meas)
    fulls, filts = [], []
    for f in range(case["n_filters"]):
        svf = u.clone_survey(sv, resp=[r for r in sv.resp if r["ans"]["f"] == f])
        full = u.response(svf, ["v0"], meas)
        full["result"]["is_single_col_cube"] = True
        fulls.append(full)
        filts.append(drop_zero_elements(full))
    return summary, fulls, filts


def check_augment(case, stats=None):
    summary, fulls, filts = augment_responses(case)
    ms = case.get("mask_size", 0)
    tf = augment_row_transforms(case, summary)
    res = impl.guarded(lambda: cube_set([summary] + filts, ms, tf).partition_sets)
    if res[0] != "ok":
        return [fail("exception", where="CubeSet.partition_sets", got=res[1:])]
    psets = res[1]
    fails = []
    if len(psets) != 1 or len(psets[0]) != 1 + len(filts):
        return [fail("n_partition_sets", got=[len(x) for x in psets], expected=[1 + len(filts)])]
    fs = compare_parts(psets[0][0], lone(summary, cube_idx=0, mask_size=ms, transforms=tf).partitions[0], (),
                       "summary cube")
    fails.extend(fs)
    for j, full in enumerate(fulls):
        q = lone(full, cube_idx=j + 1, mask_size=ms, transforms=tf).partitions[0]
        fs = compare_parts(psets[0][j + 1], q, (),
                           "augmented filter cube %d vs full-shape cube of the filtered survey" % (j + 1))
        for f in fs:
            f["cube"] = j + 1
            f["augmented"] = len(filts[j]["result"]["counts"]) != len(summary["result"]["counts"])
        fails.extend(fs)
    if stats is not None and any(len(f["result"]["counts"]) != len(summary["result"]["counts"])
                                 for f in filts):
        stats["augmented_cubes"] = stats.get("augmented_cubes", 0) + 1
    return fails


# ------------------------------------------------------------------------------------
# (a) model correspondence
# ------------------------------------------------------------------------------------

KIND_NAMES = {0: "_Nub", 1: "_Strand", 2: "_Slice"}


def dec_part(d):
    o = {"kind": d.Z(), "name": d.opt(d.nat), "tab": d.opt(d.nat)}
    o["sw"] = d.opt(lambda: cu.dec_slice_out(d))
    o["su"] = d.opt(lambda: cu.dec_slice_out(d))
    o["tw"] = d.opt(lambda: cu.dec_strand_out(d))
    o["tu"] = d.opt(lambda: cu.dec_strand_out(d))
    o["nub"] = d.opt(d.xq)
    return o


def dec_cube_parts(toks):
    d = core.Dec(toks)
    ca0 = d.bool()
    parts = d.list(lambda: dec_part(d))
    assert d.done()
    return ca0, parts


def dec_partition_sets(toks):
    d = core.Dec(toks)
    out = d.opt(lambda: d.list(lambda: d.list(lambda: dec_part(d))))
    assert d.done()
    return out


def single_term(case):
    axes = case["_axes"]
    return "r_cube_parts %s %s %s %s %s" % (
        cu.g_dims(axes), cu.g_payload(case["response"]), g_opt(case["cube_idx"], g_nat),
        g_bool(case["single_col"]), g_xq(case.get("mask_size", 0)))


def dim0_labels(case):
    """labels of the elements of the first (apparent) dimension, by payload position; None when
    the label is not simply a name in the payload (datetime / text / binned elements)"""
    if not case["aliases"]:
        return None
    v = case["_sv"].var(case["_axes"][0]["alias"])
    role = case["_axes"][0]["role"]
    if role == "cat" and v.kind in ("cat", "cat_date"):
        return [c["name"] for c in v.cats]
    if role in ("mr_items", "ca_items"):
        return [it["name"] for it in v.items]
    if role == "ca_cats":
        return [c["name"] for c in v.cats]
    return None


def cmp_part_counts(mp, p, k):
    """model part_out vs implementation partition: counts, unweighted counts, weighted bases"""
    fails = []
    tn = type(p).__name__
    if tn == "_Slice":
        pairs = [("counts", mp["sw"], "counts"), ("unweighted_counts", mp["su"], "counts"),
                 ("row_weighted_bases", mp["sw"], "row_bases"),
                 ("column_weighted_bases", mp["sw"], "column_bases"),
                 ("table_weighted_bases", mp["sw"], "table_bases"),
                 ("table_unweighted_bases", mp["su"], "table_bases")]
    elif tn == "_Strand":
        pairs = [("counts", mp["tw"], "counts"), ("unweighted_counts", mp["tu"], "counts"),
                 ("weighted_bases", mp["tw"], "bases"), ("unweighted_bases", mp["tu"], "bases")]
    else:
        r = impl.get(p, "unweighted_count")
        if r[0] != "ok" or mp["nub"] is None or not core.close(float(r[1]), mp["nub"]):
            fails.append(fail("unweighted_count", part=k, got=r[1:], model=mp["nub"]))
        return fails
    for pub, mo, key in pairs:
        r = impl.get(p, pub)
        if mo is None:
            fails.append(fail(pub + ":model-undefined", part=k))
        elif r[0] != "ok":
            fails.append(fail(pub, part=k, got=r[1:]))
        else:
            d = cu.mat_mismatch(impl.tolist(r[1]), mo[key], pub)
            if d:
                fails.append(dict(d, part=k))
    return fails


def check_single(case, toks):
    resp = copy.deepcopy(case["response"])
    if case["single_col"]:
        resp["result"]["is_single_col_cube"] = True
    res = impl.guarded(lambda: (lambda c: (c.partitions, c.name))(
        impl.cube(resp, mask_size=case.get("mask_size", 0), cube_idx=case["cube_idx"],
                  population=POP)))
    ca0, model = dec_cube_parts(toks)
    fails = []
    if res[0] != "ok":
        # CA-as-0th of a cube with more than the two array dimensions is not a supported input
        if ca0 and len([a for a in case["_axes"] if a["role"] != "mr_sel"]) > 2:
            return []
        return [fail("exception", got=res[1:])]
    parts, cname = res[1]
    if len(parts) != len(model):
        return [fail("n_partitions", got=len(parts), model=len(model))]
    labels = dim0_labels(case)
    for k, (mp, p) in enumerate(zip(model, parts)):
        if type(p).__name__ != KIND_NAMES[mp["kind"]]:
            fails.append(fail("partition_type", part=k, got=type(p).__name__,
                              model=KIND_NAMES[mp["kind"]]))
            continue
        tn = impl.get(p, "table_name")
        if tn[0] != "ok":
            fails.append(fail("table_name", part=k, got=tn[1:]))
        elif (tn[1] is None) != (mp["name"] is None):
            fails.append(fail("table_name", part=k, got=tn[1], model=mp["name"]))
        elif labels is not None and mp["name"] is not None:
            exp = "%s: %s" % (cname, labels[mp["name"]])
            if tn[1] != exp:
                fails.append(fail("table_name", part=k, got=tn[1], model=exp))
        if type(p).__name__ != "_Nub":
            tl = impl.get(p, "tab_label")
            exp = "" if mp["tab"] is None else (labels[mp["tab"]] if labels is not None else None)
            if tl[0] != "ok" or (exp is not None and tl[1] != exp):
                fails.append(fail("tab_label", part=k, got=tl[1:], model=exp))
        if ca0 and len([a for a in case["_axes"] if a["role"] != "mr_sel"]) > 2:
            continue
        fails.extend(cmp_part_counts(mp, p, k))
    return fails


# --- cube sets through the model ---------------------------------------------------------------

def g_cube_desc(sv, aliases, resp, shared_codes=None):
    axes = cu.natural_axes(sv, aliases)
    dims = resp["result"]["dimensions"]
    els = "[]"
    if dims and dims[0]["type"].get("class") == "enum" and dims[0]["type"].get(
            "subtype", {}).get("class") == "text":
        # element values -> codes shared by all cubes of the set
        out = []
        for e in dims[0]["type"]["elements"]:
            v = e.get("value")
            key = None
            if isinstance(v, (int, str)) and not isinstance(v, bool):
                key = shared_codes.setdefault((type(v).__name__, v), len(shared_codes))
            out.append("(mkElem %s %s %s)" % (core.g_Z(e["id"]), g_bool(bool(e.get("missing"))),
                                              g_opt(key, g_nat)))
        els = g_list(out)
        axes = [dict(axes[0], missing=[bool(e.get("missing")) for e in dims[0]["type"]["elements"]])
                ] + axes[1:]
    return "(mkCube %s %s %s %s)" % (cu.g_dims(axes), els,
                                     g_bool(bool(resp["result"].get("is_single_col_cube"))),
                                     cu.g_payload(resp))


def set_term(case):
    sv = cu.survey_from_json(case["survey"])
    if case["section"] == "augment":
        summary, _fulls, filts = augment_responses(case)
        resps = [summary] + filts
        cubes = [["v0"]] * len(resps)
    else:
        resps = [u.response(sv, al, case["meas"]) for al in case["cubes"]]
        cubes = case["cubes"]
    codes = {}
    descs = [g_cube_desc(sv, al, r, codes) for al, r in zip(cubes, resps)]
    return resps, "r_partition_sets %s %s" % (g_list(descs), g_xq(case.get("mask_size", 0)))


def check_set_model(case, toks):
    resps, _ = set_term(case)
    res = impl.guarded(lambda: cube_set(resps, case.get("mask_size", 0)).partition_sets)
    model = dec_partition_sets(toks)
    if res[0] != "ok":
        if model is None:
            return []
        return [fail("exception", where="CubeSet.partition_sets (model gives a value)", got=res[1:])]
    if model is None:
        return [fail("model-raises", where="CubeSet.partition_sets")]
    psets = res[1]
    fails = []
    if len(psets) != len(model):
        return [fail("n_partition_sets", got=len(psets), model=len(model))]
    for k, (ms, ps) in enumerate(zip(model, psets)):
        if len(ms) != len(ps):
            fails.append(fail("partition_set_size", part=k, got=len(ps), model=len(ms)))
            continue
        for j, (mp, p) in enumerate(zip(ms, ps)):
            if type(p).__name__ != KIND_NAMES[mp["kind"]]:
                fails.append(fail("partition_type", part=k, cube=j, got=type(p).__name__,
                                  model=KIND_NAMES[mp["kind"]]))
                continue
            for f in cmp_part_counts(mp, p, k):
                f["cube"] = j
                fails.append(f)
    return fails


# ------------------------------------------------------------------------------------
# driver
# ------------------------------------------------------------------------------------

REL_CHECKS = {"rel": check_rel, "tabbook": check_tabbook, "ca0": check_ca0,
              "numeric": check_numeric, "augment": check_augment, "shared": check_shared}
SET_SECTIONS = ("tabbook", "ca0", "numeric", "augment")


def ctx_of(case, f, oracle):
    return {"section": case["section"], "oracle": oracle, "what": f.get("what"),
            "layout": case.get("layout") or case.get("mode"),
            "table_rank_is_offset": f.get("table_rank_is_offset"),
            "weighted": bool(case["survey"].get("weighted")) if "survey" in case else None,
            "augmented": f.get("augmented")}


def run(tier, seed):
    rep = core.Report(PID, tier, seed)
    ob = core.obligations_gate(rep, PID)
    quick = tier == "quick"
    counts = {"single": 150 if quick else 2500, "rel": 70 if quick else 1200,
              "tabbook": 24 if quick else 400, "ca0": 14 if quick else 250,
              "numeric": 16 if quick else 250, "augment": 24 if quick else 400,
              "shared": 24 if quick else 400}
    rng = random.Random(seed + 6)
    gens = {"single": gen_single, "rel": gen_rel, "tabbook": gen_tabbook, "ca0": gen_ca0,
            "numeric": gen_numeric, "augment": gen_augment, "shared": gen_shared}
    cases = [witness_augment_case()]
    for sec in ("single", "rel", "tabbook", "ca0", "numeric", "augment", "shared"):
        for k in range(counts[sec]):
            cases.append(gens[sec](rng, k))
    # --- model terms
    terms, owners = [], []
    for n, case in enumerate(cases):
        if case["section"] == "single":
            terms.append(single_term(case))
            owners.append(n)
        elif case["section"] in SET_SECTIONS:
            terms.append(set_term(case)[1])
            owners.append(n)
    results, coq_s = core.run_coq_cases(PID, IMPORTS, terms, shard=40) if terms else ([], 0.0)
    by_case = dict(zip(owners, results))
    stats = {}
    for n, case in enumerate(cases):
        sec = case["section"]
        rcase = cu.replayable(case)
        if sec == "single":
            nt = len(case["_sv"].resp) > 0
            rep.count_case(rcase, nt)
            rep.dist("single:" + cu.class_pair(case) if case["aliases"] else "single:0d")
            rep.dist("single:cube_idx=%s" % case["cube_idx"])
            for f in check_single(case, by_case[n]):
                rep.violation("impl-vs-model", rcase, f, ctx_of(case, f, "model"))
            continue
        sv_n = len(case["survey"]["resp"])
        rep.count_case(rcase, sv_n > 0)
        rep.dist("%s:%s" % (sec, case.get("layout") or case.get("mode") or ""))
        if sec == "augment":
            rep.dist("augment:weighted" if case["survey"]["weighted"] else "augment:unweighted")
        if sec == "shared":
            rep.dist("shared:same response object at two positions, %s transforms" % case["relation"])
            sl = [s2 for s2 in case["share"] if case["share"].count(s2) > 1][0]
            for t in [t for t, s2 in zip(case["transforms"], case["share"]) if s2 == sl]:
                rep.dist("shared:transform of a repeated position=" + ("+".join(sorted(
                    k2 for d in t.values() for k2 in d)) or "none"))
        if sec == "rel":
            tv = [v for v in case["survey"]["vars"] if v["alias"] == case["aliases"][0]][0]
            flags = [c["missing"] for c in tv.get("cats", [])]
            if True in flags and False in flags[flags.index(True):]:
                rep.dist("rel:missing_table_category_before_valid")
            if case["meas"]["numvar"]:
                rep.dist("rel:numeric_measures")
            if flags and all(flags):
                rep.dist("rel:no_valid_table_element")
            if case.get("transforms"):
                rep.dist("rel:transforms=" + "+".join(sorted(
                    k2 for d in case["transforms"].values() for k2 in d)))
        if sv_n > 0:
            rep.sample({"section": sec, "layout": case.get("layout") or case.get("mode"),
                        "cubes": case.get("cubes") or case.get("aliases"), "n_resp": sv_n}, limit=6)
        for f in REL_CHECKS[sec](case, stats):
            rep.violation("impl-relational", rcase, f, ctx_of(case, f, "relational"))
        if n in by_case:
            for f in check_set_model(case, by_case[n]):
                rep.violation("impl-vs-model", rcase, f, ctx_of(case, f, "model"))
    rep.cov["rule"] = (
        "cases from random.Random(seed+6). single: surveys of 0..25 respondents over cat / cat_date / mr / "
        "ca / enum variables, 0-D..3-D, cube_idx in {None,0,1}, 15% is_single_col_cube, half of the 3-D "
        "cases with a missing table category before a valid one (model correspondence). rel: SQUARE 3-D "
        "cubes (n table elements = n rows = n columns in {2,3}) with table variable categorical (0-2 "
        "missing categories anywhere, 50% forced before a valid one), MR, CA items, or cat/MR x CA; 30% "
        "with mean/sum/stddev/median + valid counts, 35% of categorical rows/columns with subtotal "
        "insertions; weighted (dyadic, zero) or not; 0..30 respondents. tabbook: 1-D + 2-D tabbooks, "
        "stacks of n square 3-D cubes with n tables (wrong transposition visible), unequal stacks "
        "(truncation = malformed stream). ca0 / numeric / augment as described in the module docstring. "
        "shared: multi-cube sets (tabbook, CA-as-0th, 3-D stacks) in which one response OBJECT is passed at "
        "two positions, two thirds with different per-cube transforms (subtotal / hide / explicit order / "
        "label order on the last dimension), one third with equal ones; relational oracle only. "
        "non-trivial = at least one respondent; distinct by content hash")
    rep.cov["coq_eval_seconds"] = round(coq_s, 2)
    rep.cov["model_terms_evaluated"] = len(terms)
    rep.cov["relational_stats"] = stats
    rep.cov["attributes_excluded_from_relational_comparison"] = {
        "3-D vs restricted 2-D": SKIP_REL, "CA table / CA-as-0th (additionally)": SKIP_CA,
        "cube sets (additionally)": SKIP_CUBE_IDX,
        "numeric inflation": "only value attributes are compared: %s; rows of the lone strand are "
                             "columns of the one-row slice: %s" % (INFLATE_SAME, INFLATE_CROSS)}
    rep.assumptions = [
        "the restricted survey's 2-D response is produced by the same generator (harness/gen.py tabulate) "
        "as the 3-D response; the property is about the library, not about zz9",
        "augment_response: generated text dimensions have element ids equal to payload positions and the "
        "filter cube lists its elements in the summary's order (theorem C06_augment_places carries the "
        "same hypotheses); unweighted",
        "CA-as-0th strands with numeric measures are outside the generated inputs (the stripe means "
        "factory is not sliced)",
        "float64 vs exact rationals: relative tolerance 1e-9",
    ]
    return rep.finish("proof", ob, trusted_base=core.TRUSTED_BASE_COMMON + [
        "Model/Partition.v is hand-written; tied to cube.py / cubepart.py / _slice_idx_expr / the stripe "
        "factory by this correspondence run; the count extractors it calls are Model/CubeCounts.v (C01/C02)",
        "harness/gen.py as the environment model (survey -> Crunch response)",
        __import__("harness.props.cube_tb", fromlist=["cube_trusted_base"]).cube_trusted_base()])


def replay(path):
    d = json.load(open(path))
    case = d["violation"]["case"]
    sec = case["section"]
    fails = []
    if sec == "single":
        cu.finish_case(case)
        results, _ = core.run_coq_cases(PID, IMPORTS, [single_term(case)], tag="replay")
        fails = check_single(case, results[0])
    else:
        fails = REL_CHECKS[sec](case, None)
        if sec in SET_SECTIONS:
            results, _ = core.run_coq_cases(PID, IMPORTS, [set_term(case)[1]], tag="replay")
            fails += check_set_model(case, results[0])
    if sec == "augment" and case["survey"].get("weighted"):
        # the known finding is reported, not failed, on replay as well
        fails = [f for f in fails if not f.get("augmented")]
    for f in fails[:8]:
        print("REPLAY still fails:", json.dumps(core.jsonable(f))[:600])
    if not fails:
        print("REPLAY: no longer fails")
    return 1 if fails else 0
