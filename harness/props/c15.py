# -*- coding: utf-8 -*-
"""C15 - Share of sum divides by the base-cell total of the row, column or table.

Obligations: coq/Props/C15.v (model: coq/Model/Share.v over coq/Model/Subtotals.v).
Correspondence (local step): the base block of the implementation's own `sums` and the
library's own addend/subtrahend offsets are fed to the model; all four blocks of
row/column/total share (and the strand's share) are compared with the public outputs.
Property oracle (no model): sum / total over BASE rows/columns computed in Python with
exact fractions from the reported sums (slices AND strands).

Display transforms (hide / explicit order / prune on rows and/or columns): every case may carry a
`display` dict.  The partition is then built twice from the same response - (A) with the
insertions only, (B) with the insertions plus the display transforms.  The property's definition
does not mention the display: a hidden or pruned element is still a base row / column of the table
and still counts in every total (and in the subtotals it is an addend of).  So the share matrix /
vector of (B) must be exactly the selection by (B)'s own row_order() / column_order() of the FULL
(base + inserted) share computed (i) by the model and (ii) by the property oracle from the sums of
ALL base rows / columns as reported by (A).

Unit-of-measurement class (seeded change C15-11: `_TotalShareSum.blocks` guarded the table total with
`np.isclose(total, 0.0)`, whose ABSOLUTE tolerance of 1e-8 turns every total share of a table recorded in
very small units into NaN; the survey-sized sums of the other cases never have a non-zero total below 1):
a share is a quotient of two sums of the same variable, so the property text makes it independent of the
unit the variable is recorded in.  An extra population of cases (`scale_exp` in the case; same generator,
slices, strands and NUM_ARRAY rows, NaN sums, subtotals, display twin, read-order leg) has every numeric
sum of the response multiplied by a power of ten from 1e-12 .. 1e+9 before the library reads it.  The
scaled sums reported by the library are fed to the (exact) model and to the property oracle as they are,
and a third leg (`scale-invariance`) requires the shares of the scaled table to be the ones the property
prescribes for the sums of the UNSCALED twin.  Shares are of order 1, so `core.close` (relative, floor 1)
is the right comparator; the tiny sums themselves are never compared.  The class uses same-sign values
(numeric answers >= 0) and subtotals without subtrahends, so that no total is a float cancellation residue
(an exact 0 of the unscaled table would otherwise be a 1e-28 residue of the scaled one, which the model
cannot follow); mixed signs and differences stay covered by the unscaled population.
"""
import copy
import json
import random
from fractions import Fraction

from harness import core, gen, impl
from harness.core import g_mat, g_nat, g_subtotals, g_vec

PID = "C15"
IMPORTS = """From Coq Require Import QArith ZArith List Bool.
From CC Require Import Base.XQ Base.Render Base.ListX Model.Subtotals Model.Share.
Import ListNotations."""


def numarr_response(rng, nonneg=False):
    """NUM_ARRAY x CAT response with a sum measure, built directly (layout [cat][subvar])."""
    n_sub = rng.randint(1, 4)
    catv = gen.make_cat(rng, "colv", numeric=None)
    if rng.random() < 0.6:
        catv.view_insertions = gen.random_insertions(rng, catv, differences=not nonneg)
    ncat = len(catv.cats)
    data, vc = [], []
    for _ in range(ncat * n_sub):
        r = rng.random()
        x = Fraction(rng.randint(-8, 60), rng.choice([1, 2, 4]))
        data.append({"?": -8} if r < 0.12 else gen.fnum(abs(x) if nonneg else x))
        vc.append(rng.randint(0, 9))
    md = {"references": {"alias": "arr", "name": "ARR",
                         "subreferences": [{"alias": "arr_%d" % k, "name": "Arr %d" % k} for k in range(n_sub)]},
          "derived": True,
          "type": {"class": "numeric", "integer": False, "subvariables": ["S%d" % k for k in range(n_sub)]}}
    result = {"dimensions": gen.dimension_dicts(catv), "missing": 0, "n": 10,
              "counts": [rng.randint(0, 9) for _ in range(ncat)], "element": "crunch:cube",
              "measures": {"sum": {"data": data, "n_missing": 0, "metadata": md},
                           "valid_count_unweighted": {"data": vc, "n_missing": 0, "metadata": md}}}
    return {"query": {}, "result": result, "_catv": catv}


def dim_display(rng, v, role):
    """hide / explicit order / prune for the dimension variable v contributes in `role`
    ('elements': categories of a cat, 'items': items of an MR, 'numarr': numeric-array rows)."""
    t = {}
    if role == "numarr":
        if rng.random() < 0.4:
            t["prune"] = True
        return t
    if role == "items":
        ids = [it["id"] for it in v.items]
        keys = [rng.choice([str(it["id"]), it["alias"]]) for it in v.items]
    else:
        ids = gen.valid_cat_ids(v)
        keys = [str(i) if rng.random() < 0.8 else i for i in ids]
    r = rng.random()
    p_hide = 0.0 if r < 0.25 else 0.3 if r < 0.8 else 0.6
    hidden = [k for k in range(len(ids)) if rng.random() < p_hide]
    if hidden:
        t["elements"] = {keys[k]: {"hide": True} for k in hidden}
    r = rng.random()
    if r < 0.45 and ids:
        x = rng.random()
        if x < 0.4:
            listed = rng.sample(ids, len(ids))
        elif x < 0.8:
            listed = rng.sample(ids, rng.randint(0, len(ids)))
        else:
            listed = rng.sample(ids, rng.randint(0, len(ids))) + [999]
            rng.shuffle(listed)
        t["order"] = {"type": "explicit", "element_ids": listed}
    if rng.random() < 0.4:
        t["prune"] = True
    return t


def add_display(rng, case, roles_vars):
    """roles_vars: [(dimension key, variable, role)]"""
    if rng.random() >= 0.75:
        return
    disp = {}
    for key, v, role in roles_vars:
        t = dim_display(rng, v, role)
        if t:
            disp[key] = t
    if disp:
        case["display"] = disp


def merged_transforms(case):
    out = copy.deepcopy(case.get("transforms") or {})
    for key, t in (case.get("display") or {}).items():
        d = out.setdefault(key, {})
        d.update(copy.deepcopy(t))
    return out


SCALE_EXPS_SMALL = list(range(-12, -6))
SCALE_EXPS_OTHER = list(range(-6, 0)) + list(range(1, 10))


def scale_factor(e):
    return float("1e%d" % e)


def scaled_response(resp, e):
    """the same response with every numeric sum multiplied by 10**e (float product, as a data set
    whose variable is recorded in another unit would report it); NaN markers and counts stay"""
    out = copy.deepcopy(resp)
    f = scale_factor(e)
    m = out["result"]["measures"]["sum"]
    m["data"] = [x if isinstance(x, dict) or x is None else float(x) * f for x in m["data"]]
    return out


def effective(case):
    """the case as the library sees it (scaled cases: the response in the other unit)"""
    if case.get("scale_exp") is None:
        return case
    return dict(case, response=scaled_response(case["response"], case["scale_exp"]))


def gen_case(rng, k, scaled=False):
    """scaled=True: the unit-of-measurement class (module docstring) - numeric answers >= 0, no
    subtrahends, and a `scale_exp`; the stored response is the UNSCALED one"""
    r = rng.random()
    transforms = None
    diffs = not scaled
    if r < 0.15:
        resp = numarr_response(rng, nonneg=scaled)
        shape = "numarr_x_cat"
        strand = False
        roles_vars = [("rows_dimension", None, "numarr"),
                      ("columns_dimension", resp.pop("_catv"), "elements")]
    else:
        strand = r < 0.42
        rowv = gen.make_cat(rng, "rowv") if rng.random() < 0.8 else gen.make_mr(rng, "rowv")
        colv = gen.make_cat(rng, "colv") if rng.random() < 0.8 else gen.make_mr(rng, "colv")
        if rowv.kind == "cat" and rng.random() < 0.7:
            rowv.view_insertions = gen.random_insertions(rng, rowv, differences=diffs)
        if colv.kind == "cat" and rng.random() < 0.6:
            colv.view_insertions = gen.random_insertions(rng, colv, differences=diffs)
        variables = [rowv] if strand else [rowv, colv]
        sv = gen.Survey(variables, rng.randint(0, 30) if rng.random() < 0.95 else 0, rng, numvars=["x"])
        if scaled:
            for resp_ in sv.resp:
                if resp_["num"]["x"] is not None:
                    resp_["num"]["x"] = abs(resp_["num"]["x"])
        aliases = [v.alias for v in variables]
        shp, _ = gen.tabulate(sv, aliases)
        size = 1
        for s in shp:
            size *= s
        unavailable = set(i for i in range(size) if rng.random() < 0.08)
        resp = gen.cube_response(sv, aliases, measures=("count", "sum"), numvar="x",
                                 unavailable=unavailable, valid_counts=rng.random() < 0.3)
        shape = "%s%s" % (rowv.kind, "" if strand else "_x_" + colv.kind)
        if rng.random() < 0.25 and rowv.kind == "cat":
            # insertions given in the analysis transforms instead of the variable view
            transforms = {"rows_dimension": {"insertions": gen.random_insertions(rng, rowv, differences=diffs)}}
        roles_vars = [(key, v, "elements" if v.kind == "cat" else "items")
                      for key, v in zip(("rows_dimension", "columns_dimension"), variables)]
    case = {"k": k, "response": resp, "transforms": transforms, "strand": strand, "shape": shape}
    add_display(rng, case, roles_vars)
    if scaled:
        case["scale_exp"] = rng.choice(SCALE_EXPS_SMALL if rng.random() < 0.5 else SCALE_EXPS_OTHER)
    return case


def impl_run(case):
    unscaled = case
    case = effective(case)
    A = impl.partition(case["response"], case["transforms"])
    out = {"ndim": A.ndim}
    if unscaled is not case:
        # the twin in the original unit: only its sums are read (for the scale-invariance leg)
        out["vU"] = {"sums": impl.get(impl.partition(unscaled["response"], case["transforms"]), "sums")}
    if A.ndim == 1:
        names = ["sums", "share_sum", "row_order"]
    else:
        names = ["sums", "row_share_sum", "column_share_sum", "total_share_sum", "row_order",
                 "column_order"]
    out["v"] = {n: impl.get(A, n) for n in names}
    out["dims"] = impl.dims_info(A)
    out["subs"] = impl.subtotal_idxs(A)
    if case.get("display"):
        # (B) the same table under hide / explicit order / prune
        r = impl.guarded(lambda: impl.partition(case["response"], merged_transforms(case)))
        if r[0] != "ok":
            out["vB"] = {"partition": r}
        else:
            out["vB"] = {n: impl.get(r[1], n) for n in names if n != "sums"}
            dimsB = impl.guarded(lambda: impl.dims_info(r[1]))
            if dimsB != ("ok", out["dims"]):
                out["vB"]["dims"] = ("exc", "DimsDiffer", repr(dimsB))
    return out


def build_term(case, io):
    v = io["v"]
    if any(x[0] == "exc" for x in v.values()):
        return None
    if any(x[0] == "exc" for x in io.get("vB", {}).values()):
        return None
    if any(x[0] == "exc" for x in io.get("vU", {}).values()):
        return None
    if io["ndim"] == 1:
        n, ns = io["dims"]
        base, sub = impl.blocks1d(v["sums"][1], v["row_order"][1], n, ns)
        io["base"] = base
        io["sums_sub"] = sub
        return "r_vec (stripe_share_base %s) ++ r_vec (stripe_share_subtotals %s %s)" % (
            g_vec(base), g_vec(base), g_subtotals(io["subs"][0]))
    nr, nrs, nc, ncs = io["dims"]
    blk = impl.blocks2d(v["sums"][1], v["row_order"][1], v["column_order"][1], nr, nc, nrs, ncs)
    base = blk[0][0]
    io["base"] = base
    args = "%s %s %s %s %s" % (g_mat(base), g_nat(nr), g_nat(nc), g_subtotals(io["subs"][0]),
                               g_subtotals(io["subs"][1]))
    parts = []
    for f in ("row_share", "col_share", "total_share"):
        for b in ("b_base", "b_cols", "b_rows", "b_inter"):
            parts.append("r_mat (%s (%s %s))" % (b, f, args))
    return " ++ ".join(parts)


def exact(x):
    return core.to_exact(x)


def nansum(xs):
    tot = Fraction(0)
    for x in xs:
        e = exact(x)
        if e == "nan":
            continue
        if isinstance(e, str):
            return e
        tot += e
    return tot


def xdiv(a, b):
    a, b = exact(a), exact(b)
    if a == "nan" or b == "nan":
        return "nan"
    if isinstance(a, str) or isinstance(b, str):
        return None  # infinities do not occur in sums; not decided by the oracle
    if b == 0:
        return "nan" if a == 0 else ("inf" if a > 0 else "-inf")
    return a / b


def oracle_2d(io, blkS):
    """Property value of the three shares for all four blocks, from the reported sums blocks
    (each cell's sum divided by the total over BASE rows / columns of its row / column)."""
    nr, nrs, nc, ncs = io["dims"]
    full = [blkS[0][0][i] + blkS[0][1][i] for i in range(nr)] + \
           [blkS[1][0][k] + blkS[1][1][k] for k in range(nrs)]
    R, C = nr + nrs, nc + ncs
    col_tot = [nansum(full[i][j] for i in range(nr)) for j in range(C)]
    row_tot = [nansum(full[i][j] for j in range(nc)) for i in range(R)]
    tab_tot = nansum(full[i][j] for i in range(nr) for j in range(nc))
    res = {}
    res["row_share_sum"] = [[xdiv(full[i][j], row_tot[i]) for j in range(C)] for i in range(R)]
    res["column_share_sum"] = [[xdiv(full[i][j], col_tot[j]) for j in range(C)] for i in range(R)]
    res["total_share_sum"] = [[xdiv(full[i][j], tab_tot) for j in range(C)] for i in range(R)]
    return res


def oracle_1d(io, base=None, sub=None):
    """Property value of the strand share for base rows and subtotals: the row's sum divided by
    the total over ALL base rows.  A subtotal whose total is 0 is left undecided (None): the
    library adds the addends' shares, which are infinities there."""
    if base is None:
        base, sub = io["base"], io["sums_sub"]
    tot = nansum(base)
    out = [xdiv(x, tot) for x in base]
    for x in sub:
        out.append(None if tot == 0 else xdiv(x, tot))
    return out


def split_blocks(full, nr, nc):
    return [[[r[:nc] for r in full[:nr]], [r[nc:] for r in full[:nr]]],
            [[r[:nc] for r in full[nr:]], [r[nc:] for r in full[nr:]]]]


def join_blocks(b, nr, nrs):
    """[[base, cols], [rows, inter]] -> full (nr + nrs) x (nc + ncs) matrix"""
    def row(m, i):
        return list(m[i]) if i < len(m) else []
    return [row(b[0][0], i) + row(b[0][1], i) for i in range(nr)] + \
           [row(b[1][0], k) + row(b[1][1], k) for k in range(nrs)]


def pyidx(z, n):
    return z if z >= 0 else n + z


BLOCKNAMES = [["base", "inserted_columns"], ["inserted_rows", "intersections"]]


def block_of(r, c, nr, nc):
    return BLOCKNAMES[0 if r >= 0 else 1][0 if c >= 0 else 1]


def compare_displayed_2d(io, name, model_full, oracle_full):
    """(B): the displayed share must be the selection by (B)'s own orders of the full share."""
    fails = []
    nr, nrs, nc, ncs = io["dims"]
    vB = io["vB"]
    ro, co = [int(z) for z in vB["row_order"][1]], [int(z) for z in vB["column_order"][1]]
    got = [list(map(float, r)) for r in vB[name][1]]
    ctx_info = {"row_order": ro, "column_order": co, "sums_base": io["base"], "subs": io["subs"]}
    if len(got) != len(ro) or any(len(r) != len(co) for r in got):
        return [("%s.displayed impl-vs-property" % name,
                 dict(ctx_info, shape=[len(got), len(got[0]) if got else 0]),
                 {"measure": name, "block": "displayed-shape"})]
    for which, full in (("impl-vs-model", model_full), ("impl-vs-property", oracle_full)):
        for di, r in enumerate(ro):
            bad = None
            for dj, c in enumerate(co):
                want = full[pyidx(r, nr + nrs)][pyidx(c, nc + ncs)]
                if want is None:
                    continue
                if not core.close(got[di][dj], want, inf_sign=False):
                    bad = (dj, c, want)
                    break
            if bad is not None:
                dj, c, want = bad
                fails.append(("%s.displayed %s" % (name, which),
                              dict(ctx_info, cell=[di, dj], signed=[r, c], impl=got[di][dj],
                                   expected=want),
                              {"measure": name, "block": "displayed-" + block_of(r, c, nr, nc)}))
                break
    return fails


def compare(case, io, toks):
    fails = []
    v = io["v"]
    d = core.Dec(toks)
    if io["ndim"] == 1:
        n, ns = io["dims"]
        mb, msub = d.vec(), d.vec()
        ib, isub = impl.blocks1d(v["share_sum"][1], v["row_order"][1], n, ns)
        if not core.close_vec(ib, mb, inf_sign=False):
            fails.append(("share_sum.base", {"impl": ib, "model": mb}, {"measure": "share_sum", "block": "base"}))
        if not core.close_vec(isub, msub, inf_sign=False):
            fails.append(("share_sum.subtotals", {"impl": isub, "model": msub},
                          {"measure": "share_sum", "block": "inserted_rows"}))
        # property oracle (independent of the model)
        orc = oracle_1d(io)
        legs = [("", orc, io["base"])]
        if "vU" in io:
            # scale-invariance: the shares the property prescribes for the sums in the original unit
            bU, sU = impl.blocks1d(io["vU"]["sums"][1], v["row_order"][1], n, ns)
            legs.append(("scale-invariance ", oracle_1d(io, bU, sU), bU))
        for leg, orc_, sums_ in legs:
            for k, (x, o) in enumerate(zip(ib + isub, orc_)):
                if o is not None and not core.close(x, o, inf_sign=False):
                    fails.append(("share_sum.%s %simpl-vs-property" % ("base" if k < n else "subtotals", leg),
                                  {"row": k, "impl": x, "property": o, "sums_base": sums_,
                                   "scale_exp": case.get("scale_exp"), "subs": io["subs"]},
                                  {"measure": "share_sum", "block": "base" if k < n else "inserted_rows"}))
                    break
        if "vB" in io:
            vB = io["vB"]
            ro = [int(z) for z in vB["row_order"][1]]
            got = [float(x) for x in vB["share_sum"][1]]
            info = {"row_order": ro, "sums_base": io["base"], "sums_subtotals": io["sums_sub"],
                    "subs": io["subs"]}
            if len(got) != len(ro):
                fails.append(("share_sum.displayed impl-vs-property", dict(info, impl=got),
                              {"measure": "share_sum", "block": "displayed-shape"}))
            else:
                for which, full in (("impl-vs-model", mb + msub), ("impl-vs-property", orc)):
                    for dk, z in enumerate(ro):
                        want = full[pyidx(z, n + ns)]
                        if want is not None and not core.close(got[dk], want, inf_sign=False):
                            fails.append(("share_sum.displayed %s" % which,
                                          dict(info, position=dk, signed=z, impl=got, expected=want),
                                          {"measure": "share_sum",
                                           "block": "displayed-" + ("base" if z >= 0 else "inserted_rows")}))
                            break
        return fails
    nr, nrs, nc, ncs = io["dims"]
    ro, co = v["row_order"][1], v["column_order"][1]
    blkS = impl.blocks2d(v["sums"][1], ro, co, nr, nc, nrs, ncs)
    orc = oracle_2d(io, blkS)
    legs = [("", orc, io["base"])]
    if "vU" in io:
        # scale-invariance: the shares the property prescribes for the sums in the original unit
        blkU = impl.blocks2d(io["vU"]["sums"][1], ro, co, nr, nc, nrs, ncs)
        legs.append(("scale-invariance ", oracle_2d(io, blkU), blkU[0][0]))
    for name in ("row_share_sum", "column_share_sum", "total_share_sum"):
        ib = impl.blocks2d(v[name][1], ro, co, nr, nc, nrs, ncs)
        obs = [(leg, split_blocks(o_[name], nr, nc), sums_) for leg, o_, sums_ in legs]
        mblk = [[None, None], [None, None]]
        for a in range(2):
            for b in range(2):
                mm = d.mat()
                mblk[a][b] = mm
                blockname = BLOCKNAMES[a][b]
                target = ib[a][b]
                if (a == 0 and nr == 0) or (a == 1 and nrs == 0) or (b == 0 and nc == 0) or (b == 1 and ncs == 0):
                    continue
                diff = core.first_diff_mat(target, mm, inf_sign=False)
                if diff is not None:
                    fails.append(("%s.%s impl-vs-model" % (name, blockname),
                                  {"first_diff(i,j,impl,model)": diff, "sums_base": io["base"],
                                   "subs": io["subs"]},
                                  {"measure": name, "block": blockname}))
                # property oracle (independent of the model)
                for leg, ob, sums_ in obs:
                    for i, row in enumerate(target):
                        for j, x in enumerate(row):
                            o = ob[a][b][i][j]
                            if o is None:
                                continue
                            if not core.close(x, o, inf_sign=False):
                                fails.append(("%s.%s %simpl-vs-property" % (name, blockname, leg),
                                              {"cell": [i, j], "impl": x, "property": o,
                                               "sums_base": sums_, "scale_exp": case.get("scale_exp"),
                                               "subs": io["subs"]},
                                              {"measure": name, "block": blockname}))
                                break
                        else:
                            continue
                        break
        if "vB" in io:
            fails.extend(compare_displayed_2d(io, name, join_blocks(mblk, nr, nrs), orc[name]))
    return fails


def display_features(case, io):
    """distribution keys of the display twin (B)"""
    if "vB" not in io:
        return ["display:none"]
    f = ["display:any"]
    kind = "strand" if io["ndim"] == 1 else "slice"
    f.append("display:" + kind)
    for key, t in case["display"].items():
        ax = "rows" if key == "rows_dimension" else "columns"
        if "elements" in t:
            f.append("display:hide-" + ax)
        if "order" in t:
            f.append("display:explicit-order-" + ax)
        if t.get("prune"):
            f.append("display:prune-" + ax)
    vB = io["vB"]

    def nonzero(x):
        e = exact(x)
        return not isinstance(e, str) and e != 0

    def isnan(x):
        return exact(x) == "nan"

    if io["ndim"] == 1:
        n, ns = io["dims"]
        ro = [int(z) for z in vB["row_order"][1]]
        gone = [i for i in range(n) if i not in ro]
        if gone:
            f.append("display:%s-undisplayed-base-row" % kind)
        if any(nonzero(io["base"][i]) for i in gone):
            f.append("display:strand-undisplayed-row-with-nonzero-sum")
        if any(isnan(x) for x in io["base"]):
            f.append("display:strand-nan-sums")
        shown_subs = [pyidx(z, ns) for z in ro if z < 0]
        if any(set(io["subs"][0][k][0] + io["subs"][0][k][1]) & set(gone) for k in shown_subs):
            f.append("display:strand-shown-subtotal-with-undisplayed-addend")
        return f
    nr, nrs, nc, ncs = io["dims"]
    ro = [int(z) for z in vB["row_order"][1]]
    co = [int(z) for z in vB["column_order"][1]]
    gr = [i for i in range(nr) if i not in ro]
    gc = [j for j in range(nc) if j not in co]
    base = io["base"]
    if gr:
        f.append("display:slice-undisplayed-base-row")
    if gc:
        f.append("display:slice-undisplayed-base-column")
    if any(nonzero(base[i][j]) for i in gr for j in range(nc)) or \
            any(nonzero(base[i][j]) for i in range(nr) for j in gc):
        f.append("display:slice-undisplayed-vector-with-nonzero-sum")
    if any(isnan(x) for r in base for x in r):
        f.append("display:slice-nan-sums")
    if any(set(io["subs"][0][pyidx(z, nrs)][0] + io["subs"][0][pyidx(z, nrs)][1]) & set(gr)
           for z in ro if z < 0) or \
       any(set(io["subs"][1][pyidx(z, ncs)][0] + io["subs"][1][pyidx(z, ncs)][1]) & set(gc)
           for z in co if z < 0):
        f.append("display:slice-shown-subtotal-with-undisplayed-addend")
    return f


def scale_features(case, io):
    """distribution keys of the unit-of-measurement class"""
    e = case.get("scale_exp")
    if e is None:
        return []
    kind = "strand" if io["ndim"] == 1 else "slice"
    f = ["scaled:any", "scaled:" + kind, "scaled:1e%+03d" % e]
    base = io["base"] if io["ndim"] == 1 else [x for r in io["base"] for x in r]
    tot = nansum(base)
    if not isinstance(tot, str) and tot != 0:
        f.append("scaled:%s-nonzero-total-below-1e-8" % kind if abs(tot) < Fraction(1, 10 ** 8)
                 else "scaled:%s-total-above-1e+8" % kind if abs(tot) > 10 ** 8
                 else "scaled:%s-total-between" % kind)
    if io["ndim"] == 1:
        if io["dims"][1]:
            f.append("scaled:strand-with-subtotals")
    else:
        nr, nrs, nc, ncs = io["dims"]
        if nrs:
            f.append("scaled:slice-with-row-subtotals")
        if ncs:
            f.append("scaled:slice-with-column-subtotals")
        if nrs and ncs:
            f.append("scaled:slice-with-intersections")
    if any(exact(x) == "nan" for x in base):
        f.append("scaled:nan-sums")
    if "vB" in io:
        f.append("scaled:with-display-twin")
    return f


def nontrivial(io):
    if io["ndim"] == 1:
        return io["dims"][0] >= 2
    nr, nrs, nc, ncs = io["dims"]
    return nr >= 1 and nc >= 1 and (nrs + ncs) >= 1


def _replayable(case):
    out = {k: case[k] for k in ("response", "transforms", "strand", "shape", "k")}
    if case.get("display"):
        out["display"] = case["display"]
    if case.get("scale_exp") is not None:
        out["scale_exp"] = case["scale_exp"]
    return out


def evaluate(cases, rep, tag="cases"):
    ios, terms, kept = [], [], []
    for case in cases:
        io = impl_run(case)
        t = build_term(case, io)
        if t is None:
            excs = {n: x for n, x in io["v"].items() if x[0] == "exc"}
            excs.update({"display." + n: x for n, x in io.get("vB", {}).items() if x[0] == "exc"})
            excs.update({"unscaled." + n: x for n, x in io.get("vU", {}).items() if x[0] == "exc"})
            rep.count_case(case, False)
            rep.violation("impl-exception", _replayable(case), {"exceptions": excs},
                          {"what": "exception"})
            continue
        ios.append(io)
        terms.append(t)
        kept.append(case)
    results, coq_s = core.run_coq_cases(PID, IMPORTS, terms, tag=tag) if terms else ([], 0.0)
    nfail = 0
    for case, io, toks in zip(kept, ios, results):
        nt = nontrivial(io)
        rep.count_case(case, nt)
        rep.dist(case["shape"])
        if io["ndim"] == 2:
            rep.dist("row_subtotals=%d" % io["dims"][1])
            rep.dist("col_subtotals=%d" % io["dims"][3])
        for f in display_features(case, io):
            rep.dist(f)
        for f in scale_features(case, io):
            rep.dist(f)
        if nt:
            rep.sample({"shape": case["shape"], "dims": io["dims"], "subs": io["subs"],
                        "sums_base": io["base"]})
        for what, detail, ctx in compare(case, io, toks):
            nfail += 1
            rep.violation(what.split(" ")[-1] if " " in what else "impl-vs-model",
                          _replayable(case), dict(detail, what=what), ctx)
        # READ-ORDER LEG (common_cases.late_reads; every second case): the shares read after every other
        # public read of a second partition must be the ones of the fresh partition compared above
        if int(case.get("k", 0)) % 2 == 0:
            from harness.props import common_cases as cc
            seen = effective(case)  # scaled cases: the response the library was given
            for n, a, b in cc.warnings_as_errors(seen, list(io["v"]))[:1]:
                nfail += 1
                rep.violation("impl-vs-property", _replayable(case),
                              {"what": n + " differs when warnings are errors", "normal": a,
                               "warnings_as_errors": b}, {"measure": n, "oracle": "warnings_as_errors"})
            rep.dist("warnings-as-errors")
            population, late = cc.late_reads(seen, [n for n in io["v"] if n != "sums"] + ["sums"], io["v"])
            rep.dist("late-reads:" + ("strand" if io["ndim"] == 1 else "slice"))
            for n, a, b, culprits in late[:1]:
                nfail += 1
                rep.violation("impl-vs-property", _replayable(case),
                              {"what": "%s depends on what was read before" % n, "fresh": a,
                               "after_other_reads": b, "population": population,
                               "single_earlier_reads_that_change_it": culprits},
                              {"measure": n, "oracle": "order_independent"})
    return coq_s, len(terms), nfail


def run(tier, seed):
    rep = core.Report(PID, tier, seed)
    ob = core.obligations_gate(rep, PID)
    n_cases = 320 if tier == "quick" else 5000
    rng = random.Random(seed)
    cases = [gen_case(rng, k) for k in range(n_cases)]
    # the unit-of-measurement class: its own PRNG stream, so the population above is what it always was
    n_scaled = 120 if tier == "quick" else 1500
    rng_s = random.Random(1000003 * seed + 1511)
    cases += [gen_case(rng_s, n_cases + k, scaled=True) for k in range(n_scaled)]
    coq_s, nterms, _ = evaluate(cases, rep)
    rep.cov["rule"] = (
        "random.Random(seed): CAT|MR x CAT|MR slices, CAT|MR strands and NUM_ARRAY x CAT slices with a sum "
        "measure (8-12% unavailable cells => NaN sums), view or transform insertions incl. differences, "
        "overlapping/stale addends; 42% strands; 75% of the cases are ALSO run under display transforms "
        "(per dimension: hide flags on 0/30/60% of the elements by int / str / alias keys, explicit "
        "order (permutation, subset, stale id) 45%, prune 40%) and the displayed share is required to be "
        "the selection by the displayed partition's own row_order()/column_order() of the full share "
        "(model and property oracle) computed from the sums of ALL base rows/columns of the "
        "untransformed twin: hidden rows with non-zero sums, shown subtotals with hidden addends, NaN "
        "sums (see the display:* distribution keys); non-trivial = non-empty table with >= 1 subtotal "
        "(strand: >= 2 rows); distinct by content hash.  PLUS the unit-of-measurement class (120 quick / 1500 "
        "thorough cases from the same generator with numeric answers >= 0 and subtotals without subtrahends): "
        "every numeric sum of the response multiplied by 10**e, e in -12..-7 (50%) or -6..-1, 1..9, before "
        "the library reads it; model and property oracle on the library's own scaled sums, and the "
        "scale-invariance leg against the property's shares of the unscaled twin's sums (scaled:* keys)")
    rep.cov["coq_eval_seconds"] = round(coq_s, 2)
    rep.cov["model_terms_evaluated"] = nterms
    rep.assumptions = [
        "the sums fed to the model are the implementation's own public `sums` (owned by C01) of the partition "
        "WITHOUT display transforms (all base rows/columns present); the display twin's own `sums` are not read",
        "the display twin is read through its own row_order()/column_order() (which elements are shown, and "
        "where, is C09's / C07's / C05's); only the VALUES at those positions are C15's",
        "addend/subtrahend offsets of each subtotal are read from the library's Dimension objects (owned by C04)",
        "an infinity from a zero total is compared without its sign (signed zero is not modelled)",
        "unit-of-measurement class: same-sign sums and no subtrahends only, because an exactly-zero total of "
        "mixed-sign sums becomes a float residue after scaling, which the exact model cannot follow",
    ]
    return rep.finish("proof", ob, trusted_base=core.TRUSTED_BASE_COMMON + [
        "Model/Share.v and Model/Subtotals.v are hand-written; tied to matrix/measure.py, stripe/measure.py, "
        "matrix/subtotals.py, stripe/insertion.py by this correspondence run only",
        "Model/Assemble.v (selection by a signed order vector; C05's model) is used only to STATE the "
        "C15_*_displayed theorems; the run compares the displayed values directly"])


def replay(path):
    d = json.load(open(path))
    case = d["violation"]["case"]
    rep = core.Report(PID, "quick", d.get("seed", 0))
    _, _, nfail = evaluate([case], rep, tag="replay")
    for v in rep.violations:
        print("REPLAY still fails:", json.dumps(v["detail"])[:600])
    if not rep.violations and not rep.known:
        print("REPLAY: no longer fails")
    return 1 if (rep.violations or rep.known) else 0
