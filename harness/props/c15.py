# -*- coding: utf-8 -*-
"""C15 - Share of sum divides by the base-cell total of the row, column or table.

Obligations: coq/Props/C15.v (model: coq/Model/Share.v over coq/Model/Subtotals.v).
Correspondence (local step): the base block of the implementation's own `sums` and the
library's own addend/subtrahend offsets are fed to the model; all four blocks of
row/column/total share (and the strand's share) are compared with the public outputs.
Property oracle (no model): sum / total over BASE rows/columns computed in Python with
exact fractions from the reported sums.
"""
import json
import random
from fractions import Fraction

from harness import core, gen, impl
from harness.core import g_mat, g_nat, g_subtotals, g_vec

PID = "C15"
IMPORTS = """From Coq Require Import QArith ZArith List Bool.
From CC Require Import Base.XQ Base.Render Base.ListX Model.Subtotals Model.Share.
Import ListNotations."""


def numarr_response(rng):
    """NUM_ARRAY x CAT response with a sum measure, built directly (layout [cat][subvar])."""
    n_sub = rng.randint(1, 4)
    catv = gen.make_cat(rng, "colv", numeric=None)
    if rng.random() < 0.6:
        catv.view_insertions = gen.random_insertions(rng, catv)
    ncat = len(catv.cats)
    data, vc = [], []
    for _ in range(ncat * n_sub):
        r = rng.random()
        data.append({"?": -8} if r < 0.12 else gen.fnum(Fraction(rng.randint(-8, 60), rng.choice([1, 2, 4]))))
        vc.append(rng.randint(0, 9))
    md = {"references": {"alias": "arr", "name": "ARR",
                         "subreferences": [{"alias": "arr_%d" % k, "name": "Arr %d" % k} for k in range(n_sub)]},
          "derived": True,
          "type": {"class": "numeric", "integer": False, "subvariables": ["S%d" % k for k in range(n_sub)]}}
    result = {"dimensions": gen.dimension_dicts(catv), "missing": 0, "n": 10,
              "counts": [rng.randint(0, 9) for _ in range(ncat)], "element": "crunch:cube",
              "measures": {"sum": {"data": data, "n_missing": 0, "metadata": md},
                           "valid_count_unweighted": {"data": vc, "n_missing": 0, "metadata": md}}}
    return {"query": {}, "result": result}


def gen_case(rng, k):
    r = rng.random()
    transforms = None
    if r < 0.15:
        resp = numarr_response(rng)
        shape = "numarr_x_cat"
        strand = False
    else:
        strand = r < 0.3
        rowv = gen.make_cat(rng, "rowv") if rng.random() < 0.8 else gen.make_mr(rng, "rowv")
        colv = gen.make_cat(rng, "colv") if rng.random() < 0.8 else gen.make_mr(rng, "colv")
        if rowv.kind == "cat" and rng.random() < 0.7:
            rowv.view_insertions = gen.random_insertions(rng, rowv)
        if colv.kind == "cat" and rng.random() < 0.6:
            colv.view_insertions = gen.random_insertions(rng, colv)
        variables = [rowv] if strand else [rowv, colv]
        sv = gen.Survey(variables, rng.randint(0, 30) if rng.random() < 0.95 else 0, rng, numvars=["x"])
        aliases = [v.alias for v in variables]
        shp, _ = gen.tabulate(sv, aliases)
        size = 1
        for s in shp:
            size *= s
        unavailable = set(i for i in range(size) if rng.random() < 0.08)
        resp = gen.cube_response(sv, aliases, measures=("count", "sum"), numvar="x",
                                 unavailable=unavailable, valid_counts=rng.random() < 0.3)
        shape = "%s%s" % (rowv.kind, "" if strand else "_x_" + colv.kind)
        if rng.random() < 0.25 and rowv.kind == "cat":
            # insertions given in the analysis transforms instead of the variable view
            transforms = {"rows_dimension": {"insertions": gen.random_insertions(rng, rowv)}}
    return {"k": k, "response": resp, "transforms": transforms, "strand": strand, "shape": shape}


def impl_run(case):
    A = impl.partition(case["response"], case["transforms"])
    out = {"ndim": A.ndim}
    if A.ndim == 1:
        names = ["sums", "share_sum", "row_order"]
    else:
        names = ["sums", "row_share_sum", "column_share_sum", "total_share_sum", "row_order",
                 "column_order"]
    out["v"] = {n: impl.get(A, n) for n in names}
    out["dims"] = impl.dims_info(A)
    out["subs"] = impl.subtotal_idxs(A)
    return out


def build_term(case, io):
    v = io["v"]
    if any(x[0] == "exc" for x in v.values()):
        return None
    if io["ndim"] == 1:
        n, ns = io["dims"]
        base, _sub = impl.blocks1d(v["sums"][1], v["row_order"][1], n, ns)
        io["base"] = base
        return "r_vec (stripe_share_base %s) ++ r_vec (stripe_share_subtotals %s %s)" % (
            g_vec(base), g_vec(base), g_subtotals(io["subs"][0]))
    nr, nrs, nc, ncs = io["dims"]
    blk = impl.blocks2d(v["sums"][1], v["row_order"][1], v["column_order"][1], nr, nc, nrs, ncs)
    base = blk[0][0]
    io["base"] = base
    args = "%s %s %s %s %s" % (g_mat(base), g_nat(nr), g_nat(nc), g_subtotals(io["subs"][0]),
                               g_subtotals(io["subs"][1]))
    parts = []
    for f in ("row_share", "col_share", "total_share"):
        for b in ("b_base", "b_cols", "b_rows", "b_inter"):
            parts.append("r_mat (%s (%s %s))" % (b, f, args))
    return " ++ ".join(parts)


def exact(x):
    return core.to_exact(x)


def nansum(xs):
    tot = Fraction(0)
    for x in xs:
        e = exact(x)
        if e == "nan":
            continue
        if isinstance(e, str):
            return e
        tot += e
    return tot


def xdiv(a, b):
    a, b = exact(a), exact(b)
    if a == "nan" or b == "nan":
        return "nan"
    if isinstance(a, str) or isinstance(b, str):
        return None  # infinities do not occur in sums; not decided by the oracle
    if b == 0:
        return "nan" if a == 0 else ("inf" if a > 0 else "-inf")
    return a / b


def oracle_2d(io, blkS):
    """Property value of the three shares for all four blocks, from the reported sums blocks
    (each cell's sum divided by the total over BASE rows / columns of its row / column)."""
    nr, nrs, nc, ncs = io["dims"]
    full = [blkS[0][0][i] + blkS[0][1][i] for i in range(nr)] + \
           [blkS[1][0][k] + blkS[1][1][k] for k in range(nrs)]
    R, C = nr + nrs, nc + ncs
    col_tot = [nansum(full[i][j] for i in range(nr)) for j in range(C)]
    row_tot = [nansum(full[i][j] for j in range(nc)) for i in range(R)]
    tab_tot = nansum(full[i][j] for i in range(nr) for j in range(nc))
    res = {}
    res["row_share_sum"] = [[xdiv(full[i][j], row_tot[i]) for j in range(C)] for i in range(R)]
    res["column_share_sum"] = [[xdiv(full[i][j], col_tot[j]) for j in range(C)] for i in range(R)]
    res["total_share_sum"] = [[xdiv(full[i][j], tab_tot) for j in range(C)] for i in range(R)]
    return res


def split_blocks(full, nr, nc):
    return [[[r[:nc] for r in full[:nr]], [r[nc:] for r in full[:nr]]],
            [[r[:nc] for r in full[nr:]], [r[nc:] for r in full[nr:]]]]


BLOCKNAMES = [["base", "inserted_columns"], ["inserted_rows", "intersections"]]


def compare(case, io, toks):
    fails = []
    v = io["v"]
    d = core.Dec(toks)
    if io["ndim"] == 1:
        n, ns = io["dims"]
        mb, msub = d.vec(), d.vec()
        ib, isub = impl.blocks1d(v["share_sum"][1], v["row_order"][1], n, ns)
        if not core.close_vec(ib, mb, inf_sign=False):
            fails.append(("share_sum.base", {"impl": ib, "model": mb}, {"measure": "share_sum", "block": "base"}))
        if not core.close_vec(isub, msub, inf_sign=False):
            fails.append(("share_sum.subtotals", {"impl": isub, "model": msub},
                          {"measure": "share_sum", "block": "inserted_rows"}))
        return fails
    nr, nrs, nc, ncs = io["dims"]
    ro, co = v["row_order"][1], v["column_order"][1]
    blkS = impl.blocks2d(v["sums"][1], ro, co, nr, nc, nrs, ncs)
    orc = oracle_2d(io, blkS)
    for name in ("row_share_sum", "column_share_sum", "total_share_sum"):
        ib = impl.blocks2d(v[name][1], ro, co, nr, nc, nrs, ncs)
        ob = split_blocks(orc[name], nr, nc)
        for a in range(2):
            for b in range(2):
                mm = d.mat()
                blockname = BLOCKNAMES[a][b]
                target = ib[a][b]
                if (a == 0 and nr == 0) or (a == 1 and nrs == 0) or (b == 0 and nc == 0) or (b == 1 and ncs == 0):
                    continue
                diff = core.first_diff_mat(target, mm, inf_sign=False)
                if diff is not None:
                    fails.append(("%s.%s impl-vs-model" % (name, blockname),
                                  {"first_diff(i,j,impl,model)": diff, "sums_base": io["base"],
                                   "subs": io["subs"]},
                                  {"measure": name, "block": blockname}))
                # property oracle (independent of the model)
                for i, row in enumerate(target):
                    for j, x in enumerate(row):
                        o = ob[a][b][i][j]
                        if o is None:
                            continue
                        if not core.close(x, o, inf_sign=False):
                            fails.append(("%s.%s impl-vs-property" % (name, blockname),
                                          {"cell": [i, j], "impl": x, "property": o,
                                           "sums_base": io["base"], "subs": io["subs"]},
                                          {"measure": name, "block": blockname}))
                            break
                    else:
                        continue
                    break
    return fails


def nontrivial(io):
    if io["ndim"] == 1:
        return io["dims"][0] >= 2
    nr, nrs, nc, ncs = io["dims"]
    return nr >= 1 and nc >= 1 and (nrs + ncs) >= 1


def _replayable(case):
    return {k: case[k] for k in ("response", "transforms", "strand", "shape", "k")}


def evaluate(cases, rep, tag="cases"):
    ios, terms, kept = [], [], []
    for case in cases:
        io = impl_run(case)
        t = build_term(case, io)
        if t is None:
            excs = {n: x for n, x in io["v"].items() if x[0] == "exc"}
            rep.count_case(case, False)
            rep.violation("impl-exception", _replayable(case), {"exceptions": excs},
                          {"what": "exception"})
            continue
        ios.append(io)
        terms.append(t)
        kept.append(case)
    results, coq_s = core.run_coq_cases(PID, IMPORTS, terms, tag=tag) if terms else ([], 0.0)
    nfail = 0
    for case, io, toks in zip(kept, ios, results):
        nt = nontrivial(io)
        rep.count_case(case, nt)
        rep.dist(case["shape"])
        if io["ndim"] == 2:
            rep.dist("row_subtotals=%d" % io["dims"][1])
            rep.dist("col_subtotals=%d" % io["dims"][3])
        if nt:
            rep.sample({"shape": case["shape"], "dims": io["dims"], "subs": io["subs"],
                        "sums_base": io["base"]})
        for what, detail, ctx in compare(case, io, toks):
            nfail += 1
            rep.violation(what.split(" ")[-1] if " " in what else "impl-vs-model",
                          _replayable(case), dict(detail, what=what), ctx)
    return coq_s, len(terms), nfail


def run(tier, seed):
    rep = core.Report(PID, tier, seed)
    ob = core.obligations_gate(rep, PID)
    n_cases = 250 if tier == "quick" else 4000
    rng = random.Random(seed)
    cases = [gen_case(rng, k) for k in range(n_cases)]
    coq_s, nterms, _ = evaluate(cases, rep)
    rep.cov["rule"] = (
        "random.Random(seed): CAT|MR x CAT|MR slices, CAT|MR strands and NUM_ARRAY x CAT slices with a sum "
        "measure (8-12% unavailable cells => NaN sums), view or transform insertions incl. differences, "
        "overlapping/stale addends; non-trivial = non-empty table with >= 1 subtotal (strand: >= 2 rows); "
        "distinct by content hash")
    rep.cov["coq_eval_seconds"] = round(coq_s, 2)
    rep.cov["model_terms_evaluated"] = nterms
    rep.assumptions = [
        "the sums fed to the model are the implementation's own public `sums` (owned by C01)",
        "addend/subtrahend offsets of each subtotal are read from the library's Dimension objects (owned by C04)",
        "an infinity from a zero total is compared without its sign (signed zero is not modelled)",
    ]
    return rep.finish("proof", ob, trusted_base=core.TRUSTED_BASE_COMMON + [
        "Model/Share.v and Model/Subtotals.v are hand-written; tied to matrix/measure.py, stripe/measure.py, "
        "matrix/subtotals.py, stripe/insertion.py by this correspondence run only"])


def replay(path):
    d = json.load(open(path))
    case = d["violation"]["case"]
    rep = core.Report(PID, "quick", d.get("seed", 0))
    _, _, nfail = evaluate([case], rep, tag="replay")
    for v in rep.violations:
        print("REPLAY still fails:", json.dumps(v["detail"])[:600])
    if not rep.violations and not rep.known:
        print("REPLAY: no longer fails")
    return 1 if (rep.violations or rep.known) else 0
