# -*- coding: utf-8 -*-
"""Shared helpers of the ordering checks C07 / C08 / C09.

* Gallina literals of Model/Collator.v records (dimension, insertion, ordering) built from
  the raw cube response + transforms (categorical dimensions: nothing is read from the
  implementation) or, for array / datetime dimensions whose ids are re-written by the
  element-id shim (owned by C19), from the shimmed ids the implementation reports;
* decoder of `run_dim_full`;
* canonical reading of what the public API shows about the order of a partition;
* generators of dimensions / insertion lists / order transforms with every anchor spelling.
"""
import copy

import numpy as np

from harness import core, gen, impl
from harness.core import g_bool, g_list, g_nat, g_opt, g_str, g_Z

IMPORTS = """From Coq Require Import QArith ZArith List Bool String.
From CC Require Import Base.XQ Base.Render Base.SortX Spec.OrderSpec Model.Collator.
Import ListNotations.
Local Close Scope Q_scope."""

ERR = {1: "ValueError", 2: "KeyError", 3: "TypeError"}


class Unsupported(Exception):
    """the case uses a value the model has no reading for (float / bool ids ...)"""


# ------------------------------------------------------------------------------------
# Gallina literals
# ------------------------------------------------------------------------------------


def g_ident(x):
    if x is None:
        return "INone"
    if isinstance(x, bool) or isinstance(x, float):
        raise Unsupported(repr(x))
    if isinstance(x, (int, np.integer)):
        return "(IInt %s)" % g_Z(int(x))
    if isinstance(x, str):
        return "(IStr %s)" % g_str(x)
    raise Unsupported(repr(x))


def ins_terms(d):
    positive = d.get("kwargs", {}).get("positive") or d.get("args", [])
    negative = d.get("kwargs", {}).get("negative", [])
    return list(positive) + list(negative)


def g_insertion(d):
    if not isinstance(d, dict):
        return "(mkIns None INone false false [])"
    wf = d.get("function") == "subtotal" and "anchor" in d and "name" in d
    if "id" in d and (isinstance(d["id"], bool) or not isinstance(d["id"], int)):
        raise Unsupported("insertion id %r" % (d["id"],))
    return "(mkIns %s %s %s %s %s)" % (
        g_opt(d.get("id"), g_Z) if "id" in d else "None",
        g_ident(d.get("anchor")),
        g_bool(wf),
        g_bool(d.get("hide") is True),
        g_list([g_ident(t) for t in ins_terms(d)]) if wf else "[]",
    )


def g_hideval(v):
    return "HTrue" if v is True else "HFalse" if v is False else "HOther"


def g_danchor(a):
    if a is None:
        return "DNone"
    if a == "top":
        return "DTop"
    if a == "bottom":
        return "DBottom"
    if isinstance(a, dict):
        return "(DRel %s %s)" % (g_bool(a.get("position") == "before"), g_ident(a.get("alias")))
    raise Unsupported("derived anchor %r" % (a,))


def element_defs(dim_dict):
    t = dim_dict["type"]
    defs = t["categories"] if t["class"] == "categorical" else t["elements"]
    order = t.get("order")
    if order is not None:
        codemap = {e["id"]: e for e in defs}
        defs = [codemap[c] for c in order if c in codemap]
    return defs


def displayed_dim_dicts(response):
    """dimension dicts of the response that are displayed (MR selection axes dropped)."""
    out = []
    for d in response["result"]["dimensions"]:
        t = d["type"]
        if t["class"] == "categorical" and any(c.get("selected") for c in t["categories"]) \
                and "subvariables" in t:
            continue
        out.append(d)
    return out


class DimModel(object):
    """Gallina `dimension` + what the harness needs to interpret orders of it."""

    def __init__(self):
        self.term = None
        self.n = 0
        self.ids = []
        self.labels = []
        self.array = False
        self.view = []
        self.tins = None
        self.prune = False
        self.order_dict = {}

    def source_list(self):
        return self.tins if self.tins is not None else self.view


def cat_dim_model(dim_dict, tdim):
    """Absolute reading of a non-array dimension: raw response + raw transforms."""
    tdim = tdim or {}
    m = DimModel()
    defs = [e for e in element_defs(dim_dict) if not e.get("missing")]
    m.n = len(defs)
    m.ids = [e["id"] for e in defs]
    xf = tdim.get("elements", {}) or {}
    labels = []
    for e in defs:
        x = xf.get(e["id"], xf.get(str(e["id"]), {}))
        if "name" in x:
            labels.append(str(x["name"]) if x["name"] else "")
        else:
            labels.append(e.get("name") or "" if "name" in e else _enum_label(e))
    m.labels = labels
    view = ((dim_dict.get("references", {}).get("view") or {}).get("transform", {})
            .get("insertions", []))
    m.view = view
    m.tins = tdim["insertions"] if "insertions" in tdim else None
    m.prune = tdim.get("prune") is True
    m.order_dict = tdim.get("order") or {}
    elems = g_list(["(mkElem %s false DNone)" % g_ident(i) for i in m.ids])
    hides = g_list(["(%s, %s)" % (g_ident(k), g_hideval(v.get("hide") if isinstance(v, dict) else None))
                    for k, v in xf.items()])
    m.term = "(mkDim %s false %s %s %s %s)" % (
        elems, g_list([g_insertion(d) for d in view]),
        "None" if m.tins is None else "(Some %s)" % g_list([g_insertion(d) for d in m.tins]),
        hides, g_bool(m.prune))
    return m


def _enum_label(e):
    v = e.get("value")
    if v is None:
        return ""
    if isinstance(v, list):
        return "-".join(format(x) for x in v)
    if isinstance(v, dict):
        return v.get("references", {}).get("name") or ""
    return format(v)


def array_dim_model(idim, tdim):
    """Array (MR / CA subvariables) dimension: ids, derived flags, anchors, hides and the
    ids listed in the order transform are the SHIMMED ones the implementation reports
    (identifier translation is C19's)."""
    tdim = tdim or {}
    m = DimModel()
    m.array = True
    els = list(idim.valid_elements)
    m.n = len(els)
    m.ids = [e.element_id for e in els]
    m.labels = [e.label for e in els]
    m.prune = tdim.get("prune") is True
    hidden = set(idim.hidden_idxs)
    od = dict(tdim.get("order") or {})
    spec = idim.order_spec
    if od.get("element_ids") is not None:
        od["element_ids"] = list(spec.element_ids)
    fixed = dict(od.get("fixed") or {})
    if fixed.get("top"):
        fixed["top"] = list(spec.top_fixed_ids)
    if fixed.get("bottom"):
        fixed["bottom"] = list(spec.bottom_fixed_ids)
    if "fixed" in od:
        od["fixed"] = fixed
    m.order_dict = od
    elems = g_list(["(mkElem %s %s %s)" % (g_ident(e.element_id), g_bool(e.derived),
                                          g_danchor(e.anchor)) for e in els])
    hides = g_list(["(%s, HTrue)" % g_ident(m.ids[i]) for i in sorted(hidden)])
    m.term = "(mkDim %s true [] None %s %s)" % (elems, hides, g_bool(m.prune))
    return m


ARRAY_NAMES = ("MR_SUBVAR", "CA_SUBVAR", "NUM_ARRAY", "DATETIME")


def is_array_dim(idim):
    return str(idim.dimension_type).split(".")[-1] in ARRAY_NAMES or \
        getattr(idim.dimension_type, "name", "") in ARRAY_NAMES


def dim_models(part, response, transforms, strand):
    """[DimModel per displayed dimension] (rows[, columns])."""
    dds = displayed_dim_dicts(response)
    keys = ["rows_dimension"] if strand else ["rows_dimension", "columns_dimension"]
    idims = list(part._dimensions)
    if strand:
        idims = idims[:1]
    out = []
    dds = dds[-len(keys):]
    for k, key in enumerate(keys):
        tdim = (transforms or {}).get(key)
        if is_array_dim(idims[k]):
            out.append(array_dim_model(idims[k], tdim))
        else:
            out.append(cat_dim_model(dds[k], tdim))
    return out


# ---- orderings -----------------------------------------------------------------------

SBV_TYPES = {
    "rows": ("opposing_element", "opposing_insertion", "label", "marginal"),
    "columns": ("opposing_element", "opposing_insertion", "label"),
    "strand": ("univariate_measure", "label"),
}


def anchored_ordering_term(order_dict):
    if order_dict.get("type") == "explicit":
        ids = order_dict.get("element_ids") or []
        return "(ByAnchor (OExplicit %s))" % g_list([g_ident(i) for i in ids])
    return "(ByAnchor OPayload)"


def g_sval(x):
    if isinstance(x, str):
        return "(VStr %s)" % g_str(x)
    return "(VNum %s)" % core.g_xq(x)


def g_sortspec(order_dict):
    fixed = order_dict.get("fixed", {}) or {}
    return "(mkSort %s %s %s)" % (
        g_bool(order_dict.get("direction", "descending") != "ascending"),
        g_list([g_ident(i) for i in fixed.get("top", [])]),
        g_list([g_ident(i) for i in fixed.get("bottom", [])]))


def value_ordering_term(order_dict, values):
    """values: None (key unresolvable -> fallback) or (element_values, subtotal_values)."""
    if values is None:
        return "(ByValue %s None)" % g_sortspec(order_dict)
    ev, sv = values
    return "(ByValue %s (Some (%s, %s)))" % (
        g_sortspec(order_dict), g_list([g_sval(x) for x in ev]), g_list([g_sval(x) for x in sv]))


def run_dim_term(m, ordering, empties, psub_term):
    return "run_dim_full %s %s %s %s" % (
        m.term, ordering, g_list([g_nat(i) for i in empties]), psub_term)


def psub_term(opp):
    """prune_subtotals of the opposing dimension (DimModel with .empties set)."""
    return "(prune_subtotals %s %s %s)" % (
        g_bool(opp.prune), g_list([g_nat(i) for i in opp.empties]), g_nat(opp.n))


# ---- decoding ---------------------------------------------------------------------------


class ODec(core.Dec):
    def res(self, f):
        c = self.Z()
        if c == 0:
            return ("ok", f())
        return ("exc", ERR.get(c, str(c)))

    def zs(self):
        return self.list(self.Z)

    def entry(self):
        tag = self.Z()
        v = self.Z()
        return ("ins", v) if tag == 1 else ("base", v)

    def entries(self):
        return self.list(self.entry)

    def string(self):
        n = self.Z()
        return "".join(chr(self.Z()) for _ in range(n))

    def ident(self):
        tag = self.Z()
        if tag == 0:
            return self.Z()
        if tag == 1:
            return self.string()
        return None

    def idents(self):
        return self.list(self.ident)


def decode_run_dim(toks):
    d = ODec(toks)
    out = {
        "signed": d.res(d.zs),
        "bogus": d.res(d.entries),
        "payload": d.res(d.entries),
        "codes": d.res(d.idents),
        "sub_ids": d.zs(),
        "sub_src": d.zs(),
    }
    assert d.done(), "trailing tokens"
    return out


# ---- reading the implementation --------------------------------------------------------


def canon_entry(x):
    if isinstance(x, (str, np.str_)):
        s = str(x)
        if s.startswith("ins_"):
            return ("ins", int(s[4:]))
        return ("base", int(s))
    return ("base", int(x))


def canon_res(r, f):
    if r[0] == "ok":
        return ("ok", f(r[1]))
    return ("exc", r[1])


def observe(part, strand):
    """Everything the public API shows about the order of the partition, canonicalised."""
    from cr.cube.enums import ORDER_FORMAT

    def ints(v):
        return [int(x) for x in v]

    def entries(v):
        return [canon_entry(x) for x in v]

    def strs(v):
        return [str(x) for x in v]

    o = {}
    o["row_order"] = canon_res(impl.get(part, "row_order"), ints)
    o["row_order_bogus"] = canon_res(impl.get(part, "row_order", ORDER_FORMAT.BOGUS_IDS), entries)
    o["payload_order"] = canon_res(impl.get(part, "payload_order"), entries)
    o["row_labels"] = canon_res(impl.get(part, "row_labels"), strs)
    o["row_codes"] = canon_res(impl.get(part, "row_codes"), strs)
    o["shape"] = canon_res(impl.get(part, "shape"), ints)
    o["is_empty"] = canon_res(impl.get(part, "is_empty"), bool)
    if not strand:
        o["column_order"] = canon_res(impl.get(part, "column_order"), ints)
        o["column_order_bogus"] = canon_res(
            impl.get(part, "column_order", ORDER_FORMAT.BOGUS_IDS), entries)
        o["column_labels"] = canon_res(impl.get(part, "column_labels"), strs)
        o["column_codes"] = canon_res(impl.get(part, "column_codes"), strs)
    return o


def reported_empties(part, strand):
    """Empty-vector indexes as the implementation computes them (private attribute; used by
    C07 / C08 so that they do not depend on C09's pruning rule)."""
    def f():
        ms = part._measures
        if strand:
            return [[i for i, n in enumerate(ms.pruning_base) if n == 0]]
        return [[int(i) for i in np.where(ms.rows_pruning_mask)[0]],
                [int(i) for i in np.where(ms.columns_pruning_mask)[0]]]
    return impl.guarded(f)


def expected_labels(m, dec):
    """labels of the model's signed order: element labels / names of the valid subtotals"""
    if dec["signed"][0] != "ok":
        return dec["signed"]
    src = m.source_list() if not m.array else []
    names = []
    for k in dec["sub_src"]:
        nm = src[k].get("name")
        names.append(nm if nm else "")
    out = []
    nsub = len(names)
    for z in dec["signed"][1]:
        out.append(m.labels[z] if z >= 0 else names[nsub + z])
    return ("ok", out)


def compare_dim(axis, m, dec, obs, strand):
    """Compare the model's account of one dimension with the observation.  Returns a list of
    (what, detail).  axis: 'row' | 'column'."""
    fails = []

    def chk(what, mv, iv):
        if mv != iv:
            fails.append((what, {"model": mv, "impl": iv}))

    chk(axis + "_order", dec["signed"], obs[axis + "_order"])
    chk(axis + "_order_bogus", dec["bogus"], obs[axis + "_order_bogus"])
    mc = dec["codes"]
    if mc[0] == "ok":
        mc = ("ok", [str(x) for x in mc[1]])
    chk(axis + "_codes", mc, obs[axis + "_codes"])
    chk(axis + "_labels", expected_labels(m, dec), obs[axis + "_labels"])
    if axis == "row" and "payload_order" in obs:
        chk("payload_order", dec["payload"], obs["payload_order"])
    return fails


# ------------------------------------------------------------------------------------
# generators
# ------------------------------------------------------------------------------------

ANCHOR_WORDS = ["top", "bottom", "Top", "TOP", "BOTTOM", "Bottom", "tOp"]


def random_anchor(rng, valid, missing, hidden, malformed=False):
    r = rng.random()
    if malformed and r < 0.5:
        return rng.choice(["foo", "", "after", "3x"])
    if r < 0.30 and valid:
        return rng.choice(valid)
    if r < 0.45 and valid:
        s = str(rng.choice(valid))
        return s if rng.random() < 0.8 or s.startswith("-") else "+" + s
    if r < 0.65:
        return rng.choice(ANCHOR_WORDS)
    if r < 0.72:
        return None
    if r < 0.80:
        return rng.choice([999, "999", 77])
    if r < 0.88 and missing:
        x = rng.choice(missing)
        return x if rng.random() < 0.7 else str(x)
    if hidden:
        return rng.choice(hidden)
    return rng.choice(ANCHOR_WORDS[:2])


def random_insertion_list(rng, v, hidden_ids=(), max_n=4, ids_mode=None, malformed=False,
                          names="ins"):
    valid = gen.valid_cat_ids(v)
    missing = [c["id"] for c in v.cats if c["missing"]]
    n = rng.choice([0, 1, 2, 2, 3, 3, max_n])
    ids_mode = rng.choice(["all", "none", "some"]) if ids_mode is None else ids_mode
    pool_ids = rng.sample(range(1, 12), n)
    out = []
    for k in range(n):
        pool = list(valid) + ([999] + missing if rng.random() < 0.3 else [])
        if not pool:
            pool = [999]
        pos = rng.sample(pool, rng.randint(1, min(3, len(pool))))
        d = {"function": "subtotal", "name": "%s_%s%d" % (v.alias, names, k),
             "anchor": random_anchor(rng, valid, missing, list(hidden_ids), malformed and rng.random() < 0.5)}
        if rng.random() < 0.6:
            d["args"] = pos
        else:
            d["kwargs"] = {"positive": pos}
            if rng.random() < 0.4 and len(pool) > 1:
                d["kwargs"]["negative"] = rng.sample(pool, 1)
        if ids_mode == "all" or (ids_mode == "some" and rng.random() < 0.5):
            d["id"] = pool_ids[k]
        if rng.random() < 0.06:
            d["args"] = [999]            # no valid addend -> not a subtotal
            d.pop("kwargs", None)
        if malformed and rng.random() < 0.3:
            r = rng.random()
            if r < 0.3:
                d["function"] = "mean"
            elif r < 0.6:
                del d["name"]
            else:
                out.append("not-a-dict")
        out.append(d)
    return out


def derive_transform_insertions(rng, view, v, hidden_ids=()):
    """A transforms 'insertions' list related to the view's: copies (same ids) in the same or
    another order, a subset, some hidden, some extra ones."""
    r = rng.random()
    base = [copy.deepcopy(d) for d in view]
    if r < 0.25:
        out = base
    elif r < 0.5:
        out = base[:]
        rng.shuffle(out)
    elif r < 0.65:
        out = [d for d in base if rng.random() < 0.6]
    elif r < 0.8:
        out = base + random_insertion_list(rng, v, hidden_ids, max_n=2, names="tx")
        if rng.random() < 0.5:
            rng.shuffle(out)
    else:
        out = random_insertion_list(rng, v, hidden_ids, names="tx")
    for d in out:
        if isinstance(d, dict) and rng.random() < 0.12:
            d["hide"] = rng.choice([True, True, False, 1])
    return out


def random_explicit_ids(rng, ids, stringy=False):
    r = rng.random()
    ids = list(ids)
    if r < 0.3:
        out = ids[:]
        rng.shuffle(out)
    elif r < 0.55:
        out = rng.sample(ids, rng.randint(0, len(ids)))
    elif r < 0.8:
        out = [rng.choice(ids + [999, 1000]) for _ in range(rng.randint(0, len(ids) + 3))] if ids else [999]
    else:
        out = rng.sample(ids, rng.randint(0, len(ids))) + [999]
        rng.shuffle(out)
        out = out + out[:2]
    if stringy or rng.random() < 0.15:
        out = [str(x) if rng.random() < 0.4 else x for x in out]
    if rng.random() < 0.05:
        out.append(None)
    return out


def random_hides(rng, ids, p=0.25):
    els = {}
    for i in ids:
        if rng.random() < p:
            key = str(i) if rng.random() < 0.7 else i
            els[key] = {"hide": rng.choice([True, True, True, False, None, 1])}
            if rng.random() < 0.1 and not isinstance(key, str):
                els[str(i)] = {"hide": rng.choice([True, False])}
        elif rng.random() < 0.05:
            els[str(i)] = {"name": "renamed %s" % i}
    if rng.random() < 0.1:
        els["999"] = {"hide": True}
    return els


def add_derived_items(rng, mr):
    """turn some items of an MR variable into derived insertions with anchors"""
    aliases = [it["alias"] for it in mr.items]
    for it in mr.items:
        if rng.random() < 0.35:
            it["derived"] = True
            r = rng.random()
            if r < 0.2:
                it["anchor"] = "top"
            elif r < 0.4:
                it["anchor"] = "bottom"
            elif r < 0.5:
                pass          # no anchor
            else:
                others = [a for a in aliases if a != it["alias"]] + ["nope"]
                it["anchor"] = {"alias": rng.choice(others),
                                "position": rng.choice(["before", "after", "after"])}
