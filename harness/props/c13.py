# -*- coding: utf-8 -*-
"""C13 - Pairwise column tests: statistic, p-value and index sets.

Obligations: coq/Props/C13.v (model coq/Model/Pairwise.v).

Correspondence (local steps, model evaluated inside Coq):
  * t statistic (as t*|t|) and degrees of freedom of every selected column from the
    implementation's own public column proportions and column bases (unweighted, or weighted +
    squared-weight bases => effective base), four payload blocks, selected base or subtotal
    column; compared with pairwise_significance_t_stats(c) of the run WITH display transforms
    through its reported row/column order; p-values recomputed with scipy from the model's
    exact t^2 and df and compared with pairwise_significance_p_vals(c);
  * Welch statistic / Satterthwaite df for means from public means, stddev, unweighted counts;
  * overlap-corrected statistic for MR columns from public column proportions and the
    selected / valid overlap counts computed from the respondent-level survey by the harness;
    overlap ROUTING: the overlap-corrected test applies only when the COLUMNS are MR, so MR x CAT
    responses that also carry the `overlap` / `valid_overlap` measures of the rows MR go through
    the ordinary two-proportion model of the first item (overlap measures on rows only / columns
    only / both are all generated, distribution key overlap_measures_on=...);
  * index sets from the implementation's reported p / t matrices, alpha parsing and
    only_larger flag: pairwise_indices(_alt), pairwise_means_indices(_alt);
  * the legacy path (pairwise_significance_tests[c].t_stats) from the displayed proportions,
    columns_margin (weighted), columns_base and columns_squared_base;
  * p-values UP TO the CDF (Model/PairwiseP.v; c13_probe.py): on half of the cases the implementation is
    read once more with scipy's t.cdf replaced by the exact rational stand-in x^2/(x^2+df^2+1) and its
    p-value matrices are compared with pw_pblock / welch_pblock / ov_pblock evaluated in Coq with the
    same function (the abs, the t block, the degrees of freedom, 2(1-.), the guards: independent of scipy).
Oracles on the implementation alone: antisymmetry t(a,b) = -t(b,a), symmetry of p, t = 0 (p = 1)
for a column against itself, the column itself never reported (pairwise_indices(_alt),
pairwise_means_indices(_alt) and the legacy summary_pairwise_indices /
columns_scale_mean_pairwise_indices(_alt)), secondary sets contain the primary, equivariance of
the sets under column order / hide transforms and under removal of the inserted columns,
legacy t == t of the matrix path (property: both use the effective base).
The p-value the overlap path reports for a column against itself (0.0, pinned by the library's
integration tests) is modelled (ov_p_self) but is outside the property text (it states t = 0 for
a column against itself and that the column is never listed; both are checked).
Read order of the two families (seeded change C13-5: a per-slice cache of the assembled pairwise matrices
keyed by (stat, column) only, shared by the proportions / overlap accessors and the means accessors, so that
whichever family is asked second for a column returns the first family's t, p and index sets): the property
states each family's t / p / index sets as functions of the data and the configuration, so they hold whatever
was read before.  Every case whose response carries a mean measure (both families are defined on its slice)
gets a READ-ORDER LEG (family_interleaving): ONE slice object is asked for pairwise_significance_t_stats(c) /
p_vals(c) / means_t_stats(c) / means_p_vals(c) of every displayed column and for pairwise_indices(_alt) /
pairwise_means_indices(_alt) in an interleaving shuffled by a PRNG seeded with the case number (so for some
columns the proportions family comes first, for others the means family), and every value is compared
value-exactly (NaN = NaN) with the same read on a FRESH slice; distribution keys family_interleaving:*.
MR x MR overlap rows with their own respondents (seeded change C13-6: the overlap test "vectorised" with the
standard error and the degrees of freedom of the FIRST row's overlap bases reused for every row): the main
stream's MR x MR overlap cases have 1-2 row items and often n in {0, 3}, so no case had two rows with different
bases AND a finite statistic.  The class `mr_x_mr_items_put_to_subsamples` (24 quick cases from an own PRNG,
appended to the main stream) has 2-4 row items and 2-4 column items, n >= 20, and every row item (half of the
time every column item too) is put to its own random sub-sample (c13_util.put_items_to_subsamples: per-item
missingness), so the selected / valid overlap bases and the degrees of freedom differ from row to row; the
respondent-level oracle (c13_util.overlap_bases_from_survey) and the model (ov_tblock / ov_dfblock, one S / N
matrix per row) already are per row.  Distribution keys class=..., mr_x_mr_overlap:*.
Zero-variance boundary (float64 vs exact, DESIGN 2.4 / 7.2): where the variance under the square
root of a t cancels exactly or to a rounding residue (|V| <= 1e-12 * sum of |terms of V|, computed
with fractions from the model's own inputs) float64 and exact arithmetic legitimately return
different members of {inf, NaN, 0, ~1e17}.  Such cells are compared like all others, but a
disagreement of t / p there is skipped - provided the reported t is still a zero-variance statistic -
and counted (skipped_near_threshold, coverage["zero_variance_boundary"]); rule in c13_util.py.
"""
import copy
import json
import math
import random
from fractions import Fraction

import numpy as np
from scipy.stats import t as student_t

from harness import core, gen, impl
from harness.core import g_mat, g_vec, g_Z, g_nat, g_bool, g_list
from harness.props import c12_util as U
from harness.props import c13_util as V
from harness.props import c13_probe as PR
from harness.props import c13_legacy as LG

PID = "C13"
IMPORTS = """From Coq Require Import QArith ZArith List Bool.
From CC Require Import Base.XQ Base.Render Base.ListX Model.Pairwise.
%s
Import ListNotations.""" % (PR.IMPORT_LINE + "\n" + LG.IMPORT_LINE)


# ------------------------------------------------------------------------------------
# generator
# ------------------------------------------------------------------------------------

MRXMR = "mr_x_mr_items_put_to_subsamples"


def gen_case(rng, k, force=None):
    """force=MRXMR: the MR x MR overlap class whose row (and column) items are put to different
    sub-samples (module docstring); the default stream consumes `rng` exactly as before."""
    r = rng.random()
    stream = "cols" if r < 0.58 else "means" if r < 0.70 else "overlap" if r < 0.90 else "mr_plain"
    if force == MRXMR:
        stream = "overlap"
    weighted = rng.random() < 0.7
    squared = False
    numvars = []
    row_overlaps = False
    if stream == "cols":
        rowv = gen.make_cat(rng, "rowv", n_valid=rng.randint(1, 4)) if rng.random() < 0.7 \
            else gen.make_mr(rng, "rowv", n_items=rng.randint(1, 4))
        colv = gen.make_cat(rng, "colv", n_valid=rng.randint(1, 5))
        # overlap routing: an MR on the ROWS may carry overlap / valid_overlap measures as well; the
        # categorical columns cannot overlap, so the ordinary two-proportion test (this stream's
        # model) still is the property's formula
        row_overlaps = rowv.kind == "mr" and rng.random() < 0.65
        squared = rng.random() < (0.6 if weighted else 0.1)
    elif stream == "means":
        rowv = gen.make_cat(rng, "rowv", n_valid=rng.randint(1, 3))
        colv = gen.make_cat(rng, "colv", n_valid=rng.randint(1, 4))
        numvars = ["x"]
    elif stream == "overlap" and force == MRXMR:
        rowv = gen.make_mr(rng, "rowv", n_items=rng.randint(2, 4))
        colv = gen.make_mr(rng, "colv", n_items=rng.randint(2, 4))
    elif stream == "overlap":
        rowv = gen.make_cat(rng, "rowv", n_valid=rng.randint(1, 3)) if rng.random() < 0.8 \
            else gen.make_mr(rng, "rowv", n_items=rng.randint(1, 2))
        colv = gen.make_mr(rng, "colv", n_items=rng.randint(1, 4))
    else:
        rowv = gen.make_cat(rng, "rowv", n_valid=rng.randint(1, 3))
        colv = gen.make_mr(rng, "colv", n_items=rng.randint(1, 4))
        squared = weighted and rng.random() < 0.4
    for v in (rowv, colv):
        if v.kind == "cat" and rng.random() < 0.55:
            v.view_insertions = gen.random_insertions(rng, v)
    n = rng.choice([0, 3, 10, 20, 30, 40, 60, 80, 120])
    if force == MRXMR:
        n = rng.choice([20, 30, 40, 60, 80])
    sv = gen.Survey([rowv, colv], n, rng, weighted=weighted, numvars=numvars)
    if force == MRXMR:
        # row item 0 is put to (nearly) everybody, the others to smaller sub-samples: the bases of the
        # first row are the ones that differ most from every other row's
        V.put_items_to_subsamples(sv, "rowv", rng, first_share=1.0)
        if rng.random() < 0.5:
            V.put_items_to_subsamples(sv, "colv", rng)
    aliases = ["rowv", "colv"]
    if stream == "means":
        resp = gen.cube_response(sv, aliases, measures=("count", "mean", "stddev"), numvar="x")
    else:
        resp = gen.cube_response(sv, aliases)
    if squared:
        V.add_squared_weights(resp, sv, aliases)
    if row_overlaps:
        V.add_overlaps(resp, sv, aliases, weighted and rng.random() < 0.6, about="rowv")
    ov_weighted = False
    SN = None
    if stream == "overlap":
        ov_weighted = weighted and rng.random() < 0.6
        V.add_overlaps(resp, sv, aliases, ov_weighted)
        S, N = V.overlap_bases_from_survey(sv, aliases, ov_weighted)
        SN = {"S": [[[core.jsonable(x) for x in r] for r in m] for m in S],
              "N": [[[core.jsonable(x) for x in r] for r in m] for m in N]}
    pw, aval, olv = V.random_pairwise_transform(rng)
    transforms = {}
    if pw is not None:
        transforms["pairwise_indices"] = pw
    if rng.random() < 0.6:
        d = U.display_transform(rng, colv, p_order=0.7, p_hide=0.5)
        if d:
            transforms["columns_dimension"] = d
    if rng.random() < 0.25:
        d = U.display_transform(rng, rowv, p_order=0.6, p_hide=0.4)
        if d:
            transforms["rows_dimension"] = d
    return {"k": k, "stream": stream, "row_kind": rowv.kind, "col_kind": colv.kind,
            "overlap_measures": ("rows_only(MR x CAT)" if row_overlaps else
                                 "none" if stream != "overlap" else
                                 "both(MR x MR)" if rowv.kind == "mr" else "columns_only(CAT x MR)"),
            "weighted": weighted, "squared": squared, "ov_weighted": ov_weighted,
            "response": resp, "transforms": transforms or None, "aval": aval, "olval": olv,
            "SN": SN, "cls": force}


def strip_col_insertions(resp):
    r = copy.deepcopy(resp)
    d = r["result"]["dimensions"][-1]
    d.get("references", {}).pop("view", None)
    return r


def pw_only(transforms):
    if transforms and "pairwise_indices" in transforms:
        return {"pairwise_indices": copy.deepcopy(transforms["pairwise_indices"])}
    return None


# ------------------------------------------------------------------------------------
# implementation
# ------------------------------------------------------------------------------------

def _sets(arr):
    """object ndarray of tuples -> nested lists of sorted int lists"""
    if arr is None:
        return None
    a = np.asarray(arr, dtype=object)
    return [[sorted(int(x) for x in cell) for cell in row] for row in a]


def _flat_sets(seq):
    """sequence of tuples (one per display column) -> list of sorted int lists; None stays None"""
    if seq is None:
        return None
    return [sorted(int(x) for x in cell) for cell in seq]


def read_run(part, stream, want_inputs):
    out = {}
    g = impl.get
    out["row_order"] = g(part, "row_order")
    out["column_order"] = g(part, "column_order")
    if out["column_order"][0] != "ok":
        return out
    nd = len(out["column_order"][1])
    means = stream == "means"
    tn, pn = ("pairwise_significance_means_t_stats", "pairwise_significance_means_p_vals") if means \
        else ("pairwise_significance_t_stats", "pairwise_significance_p_vals")
    out["t"] = [g(part, tn, c) for c in range(nd)]
    out["p"] = [g(part, pn, c) for c in range(nd)]
    out["idx"] = impl.guarded(lambda: _sets(getattr(part, "pairwise_means_indices" if means else "pairwise_indices")))
    out["idx_alt"] = impl.guarded(lambda: _sets(getattr(part, "pairwise_means_indices_alt" if means else "pairwise_indices_alt")))
    if want_inputs:
        for n in ("column_proportions", "column_unweighted_bases", "column_weighted_bases"):
            out[n] = g(part, n)
        if means:
            for n in ("means", "stddev", "unweighted_counts"):
                out[n] = g(part, n)
        out["sq_blocks"] = impl.guarded(lambda: _sq_blocks(part))
        out["sq_public"] = g(part, "columns_squared_base")
        out["alpha_values"] = impl.guarded(lambda: part._alpha_values)
        out["only_larger"] = impl.guarded(lambda: part._only_larger)
    return out


def _sq_blocks(part):
    """private: per-cell squared-weight column bases (the public columns_squared_base is only
    the first row); None when the response has no squared weights"""
    m = part._measures.column_squared_bases
    if not m.is_defined:
        return None
    return [[np.asarray(b, dtype=float).tolist() for b in pair] for pair in m.blocks]


def impl_run(case):
    resp, tr = case["response"], case["transforms"]
    stream = case["stream"]
    io = {}
    ga = impl.guarded(lambda: impl.partition(resp, pw_only(tr)))
    if ga[0] != "ok":
        return {"error": ga}
    A = ga[1]
    gd = impl.guarded(lambda: (impl.dims_info(A), [str(t) for t in A.dimension_types]))
    if gd[0] != "ok":
        return {"error": gd}
    io["dims"], io["dimtypes"] = gd[1]
    io["A"] = read_run(A, stream, True)
    gb = impl.guarded(lambda: impl.partition(resp, tr))
    if gb[0] != "ok":
        return {"error": gb}
    B = gb[1]
    io["B"] = read_run(B, stream, False)
    io["LG"] = LG.read_impl(B, case, io.get("dimtypes"))   # legs of c13_legacy.py
    if PR.wanted(case):
        gp = PR.probe_impl(case)
        if gp[0] == "ok" and _ok(gp[1].get("row_order")) and _ok(gp[1].get("column_order")):
            io["probe"] = gp[1]
        else:
            io["probe_error"] = gp
    if stream in ("cols", "mr_plain"):
        io["B"]["legacy_t"] = impl.guarded(lambda: [np.asarray(x.t_stats, dtype=float) for x in B.pairwise_significance_tests])
        for n in ("column_proportions", "columns_base", "columns_margin", "columns_squared_base"):
            io["B"][n] = impl.get(B, n)
    # legacy index outputs (one tuple of display positions per display column)
    io["B"]["legacy_sets"] = {
        n: impl.guarded(lambda n=n: _flat_sets(getattr(B, n)))
        for n in ("summary_pairwise_indices", "columns_scale_mean_pairwise_indices",
                  "columns_scale_mean_pairwise_indices_alt")}
    if case["col_kind"] == "cat" and io["dims"][3] > 0:
        gc = impl.guarded(lambda: impl.partition(strip_col_insertions(resp), pw_only(tr)))
        if gc[0] == "ok":
            io["C"] = read_run(gc[1], stream, False)
    return io


# ------------------------------------------------------------------------------------
# model terms
# ------------------------------------------------------------------------------------

def _ok(r):
    return r is not None and r[0] == "ok"


def blocks_of(io, R, name):
    nr, nrs, nc, ncs = io["dims"]
    return impl.blocks2d(R[name][1], R["row_order"][1], R["column_order"][1], nr, nc, nrs, ncs)


def g_blocks(b):
    return " ".join(g_mat(b[x][y]) for x in (0, 1) for y in (0, 1))


def build_terms(case, io):
    """list of (kind, gallina term, aux)"""
    jobs = []
    A, B = io["A"], io["B"]
    stream = case["stream"]
    if not (_ok(A.get("row_order")) and _ok(A.get("column_order")) and _ok(B.get("row_order"))
            and _ok(B.get("column_order"))):
        return None
    sels = [int(c) for c in B["column_order"][1]]
    nr, nrs, nc, ncs = io["dims"]
    if stream in ("cols", "mr_plain"):
        need = ["column_proportions", "column_unweighted_bases", "column_weighted_bases", "sq_blocks"]
        if not all(_ok(A.get(n)) for n in need):
            return None
        P = blocks_of(io, A, "column_proportions")
        sq = A["sq_blocks"][1]
        if sq is None:
            Nb = blocks_of(io, A, "column_unweighted_bases")
            nparts = [g_mat(Nb[x][y]) for x in (0, 1) for y in (0, 1)]
        else:
            W = blocks_of(io, A, "column_weighted_bases")
            nparts = ["(eff_block %s %s)" % (g_mat(W[x][y]), g_mat(_shape_like(sq[x][y], W[x][y])))
                      for x in (0, 1) for y in (0, 1)]
        nterm = " ".join(nparts)
        io["has_sq"] = sq is not None
        t = ("flat_map (fun sel => flat_map r_mat (pw_all sel %s %s)) %s"
             % (g_blocks(P), nterm, g_list([g_Z(s) for s in sels])))
        # zero-variance boundary cells (c13_util): exact variance of every cell from the very
        # proportions / bases the model term above is fed with
        Pf = U.full_from_blocks(U.frac_blocks(P))
        if sq is None:
            Nf = U.full_from_blocks(U.frac_blocks(Nb))
        else:
            We, SQe = U.frac_blocks(W), U.frac_blocks(sq)
            Nf = U.full_from_blocks([[_eff_exact(We[x][y], SQe[x][y]) for y in (0, 1)] for x in (0, 1)])
        bd = {s: _bd_props(Pf, Nf, lambda i, s=s: s if s >= 0 else nc + ncs + s, io) for s in sels}
        jobs.append(("matrix", t, {"sels": sels, "bd": bd}))
        if io.get("probe") is not None:
            jobs.append(("probe-matrix", PR.matrix_term(g_blocks(P), nparts, sels), {"sels": sels, "bd": bd}))
        # legacy path on the displayed arrays of run B
        if all(_ok(B.get(n)) for n in ("column_proportions", "columns_base", "columns_margin",
                                       "columns_squared_base", "legacy_t")):
            props = np.asarray(B["column_proportions"][1], dtype=float)
            ub = np.asarray(B["columns_base"][1], dtype=float)
            wm = np.asarray(B["columns_margin"][1], dtype=float)
            if ub.ndim == 1:
                ub = np.broadcast_to(ub, props.shape)
            if wm.ndim == 1:
                wm = np.broadcast_to(wm, props.shape)
            sqv = B["columns_squared_base"][1]
            g_sq = "None" if sqv is None else "(Some %s)" % g_vec(list(np.asarray(sqv, dtype=float)))
            if props.size and ub.shape == props.shape and wm.shape == props.shape:
                t = ("flat_map (fun c => r_mat (legacy_t %s %s %s %s c)) (seq 0 %s)"
                     % (g_mat(props.tolist()), g_mat(wm.tolist()), g_mat(ub.tolist()), g_sq,
                        g_nat(props.shape[1])))
                pe = [[core.to_exact(x) for x in r] for r in props.tolist()]
                if sqv is None:
                    ne = [[core.to_exact(x) for x in r] for r in ub.tolist()]
                else:
                    sqe = [core.to_exact(x) for x in np.asarray(sqv, dtype=float).tolist()]
                    ne = [[_eff1(core.to_exact(x), sqe[j] if j < len(sqe) else "nan")
                           for j, x in enumerate(r)] for r in wm.tolist()]
                bd = [_bd_props(pe, ne, lambda i, c=c: c, io) for c in range(props.shape[1])]
                jobs.append(("legacy", t, {"n": props.shape[1], "bd": bd}))
    elif stream == "means":
        if not all(_ok(A.get(n)) for n in ("means", "stddev", "unweighted_counts")):
            return None
        M = blocks_of(io, A, "means")[0][0]
        S = blocks_of(io, A, "stddev")[0][0]
        Nn = blocks_of(io, A, "unweighted_counts")[0][0]
        t = ("flat_map (fun sel => r_mat (welch_tblock sel %s %s %s) ++ r_mat (welch_dfblock sel %s %s)) %s"
             % (g_mat(M), g_mat(S), g_mat(Nn), g_mat(S), g_mat(Nn), g_list([g_Z(s) for s in sels])))
        jobs.append(("welch", t, {"sels": sels}))
        if io.get("probe") is not None:
            jobs.append(("probe-welch", PR.welch_term(M, S, Nn, sels), {"sels": sels}))
    else:  # overlap
        if not _ok(A.get("column_proportions")):
            return None
        P = blocks_of(io, A, "column_proportions")
        S = [[[Fraction(x) if not isinstance(x, str) else _fr(x) for x in r] for r in m] for m in case["SN"]["S"]]
        N = [[[Fraction(x) if not isinstance(x, str) else _fr(x) for x in r] for r in m] for m in case["SN"]["N"]]
        gS = g_list([g_mat(m) for m in S])
        gN = g_list([g_mat(m) for m in N])
        # inserted rows use the bases of base row 0
        gS1 = g_list([g_mat(S[0])] * nrs) if S else "[]"
        gN1 = g_list([g_mat(N[0])] * nrs) if N else "[]"
        t = ("flat_map (fun a => r_mat (ov_tblock a %s %s %s) ++ r_mat (ov_dfblock a %s %s) ++ "
             "r_mat (ov_tblock a %s %s %s) ++ r_mat (ov_dfblock a %s %s)) %s"
             % (g_mat(P[0][0]), gS, gN, g_mat(P[0][0]), gN,
                g_mat(P[1][0]), gS1, gN1, g_mat(P[1][0]), gN1,
                g_list([g_nat(s) for s in sels])))
        CPf = [[core.to_exact(x) for x in r] for r in P[0][0]] + [[core.to_exact(x) for x in r] for r in P[1][0]]
        SNrows = [(S[i], N[i]) if i < len(S) and i < len(N) else None for i in range(nr)] \
            + [(S[0], N[0]) if S and N else None] * nrs
        bd = {a: _bd_overlap(CPf, SNrows, a, io) for a in sels}
        jobs.append(("overlap", t, {"sels": sels, "bd": bd}))
        if io.get("probe") is not None:
            jobs.append(("probe-overlap", PR.overlap_term(P[0][0], gS, gN, P[1][0], gS1, gN1, sels),
                         {"sels": sels, "bd": bd}))
    # index sets from the reported p / t of run B
    if all(_ok(x) for x in B["t"]) and all(_ok(x) for x in B["p"]):
        # (own display position, (p matrix, t matrix)) of every displayed column
        pts = g_list(["(%s, (%s, %s))" % (g_nat(c), g_mat(np.asarray(p[1], dtype=float).tolist()),
                                          g_mat(np.asarray(tt[1], dtype=float).tolist()))
                      for c, (p, tt) in enumerate(zip(B["p"], B["t"]))])
    else:
        pts = "[]"
    ol = "(only_larger_parse %s)" % case["olval"]
    t = ("match alpha_parse %s with "
         "| A_ok a alt => [0] ++ r_xq (Fin a) ++ r_opt (fun q => r_xq (Fin q)) alt ++ r_bool %s ++ "
         "flat_map (fun PT => r_list r_nats (indices_col a %s (fst PT) (fst (snd PT)) (snd (snd PT)))) %s ++ "
         "match alt with None => [] | Some b => "
         "flat_map (fun PT => r_list r_nats (indices_col b %s (fst PT) (fst (snd PT)) (snd (snd PT)))) %s end "
         "| A_type_error => [1] | A_value_error => [2] end" % (case["aval"], ol, ol, pts, ol, pts))
    jobs.append(("sets", t, {"have_pt": pts != "[]"}))
    jobs.extend(LG.build_jobs(case, io))   # legs of c13_legacy.py
    return jobs


def _fr(s):
    if "/" in s:
        a, b = s.split("/")
        return Fraction(int(a), int(b))
    return Fraction(s)


def _shape_like(m, like):
    """private blocks may be numpy-broadcast views; make sure the nested-list shape matches"""
    return m


# ---- zero-variance boundary cells (rule and rationale: c13_util, "zero-variance boundary") ----

def _eff1(w, s):
    """exact effective base w^2 / s as the model's eff_base computes it; not finite -> 'nan'"""
    if not (U.is_num(w) and U.is_num(s)) or s == 0:
        return "nan"
    return w * w / s


def _eff_exact(Wb, SQb):
    return [[_eff1(w, SQb[i][j] if i < len(SQb) and j < len(SQb[i]) else "nan") for j, w in enumerate(r)]
            for i, r in enumerate(Wb)]


def _note_ratio(io, VS):
    """smallest |V| / S among the cells that are NOT boundary cells (evidence: how far the rule's
    1e-12 is from every cell whose disagreement would be a violation)"""
    if VS is not None and VS[1] > 0 and not V.is_boundary(VS):
        r = abs(VS[0]) / VS[1]
        if io.get("min_ratio") is None or r < io["min_ratio"]:
            io["min_ratio"] = r


def _bd_props(Pf, Nf, ref_of_row, io):
    """matrix like Pf: None (ordinary cell) or the boundary record of the cell, for the column
    proportions test against reference column ref_of_row(i) of the same row"""
    out = []
    for i, row in enumerate(Pf):
        cj = ref_of_row(i)
        r = []
        for j in range(len(row)):
            ok = i < len(Nf) and 0 <= cj < len(row) and cj < len(Nf[i]) and j < len(Nf[i])
            VS = V.prop_var_VS(row[j], Nf[i][j], row[cj], Nf[i][cj]) if ok else None
            _note_ratio(io, VS)
            r.append(V.boundary_cell(VS, row[j] - row[cj]) if VS is not None else None)
        out.append(r)
    return out


def _bd_overlap(CPf, SNrows, a, io):
    """same for the overlap test with selected subvariable a (rows: base rows then inserted)"""
    out = []
    for i, row in enumerate(CPf):
        r = []
        for b in range(len(row)):
            VS = None
            sn = SNrows[i] if i < len(SNrows) else None
            if sn is not None and b != a and 0 <= a < len(row):
                s, n = sn
                try:
                    VS = V.overlap_var_VS(s[a][a], s[b][b], s[a][b], n[a][a], n[b][b], n[a][b])
                except IndexError:
                    VS = None
            _note_ratio(io, VS)
            d = row[b] - row[a] if VS is not None and U.is_num(row[b]) and U.is_num(row[a]) else None
            r.append(V.boundary_cell(VS, d) if VS is not None else None)
        out.append(r)
    return out


# ------------------------------------------------------------------------------------
# comparison
# ------------------------------------------------------------------------------------

def _cls(x):
    """coarse class of a statistic (float, Fraction or 'nan'/'inf'/'-inf') for the evidence keys"""
    e = core.to_exact(x)
    if isinstance(e, str):
        return e.lstrip("-")
    return "0" if e == 0 else "huge(>=1e11)" if abs(e) >= 10 ** 11 else "finite"


def _bd_skip(io, what, t_impl, m, part="t"):
    """count one excused disagreement at a zero-variance boundary cell"""
    io["bd_skipped"][what] = io["bd_skipped"].get(what, 0) + 1
    k = "%s:%s impl=%s model=%s" % (what, part, _cls(tabs(t_impl)), _cls(m))
    io["bd_kinds"][k] = io["bd_kinds"].get(k, 0) + 1


def tabs(x):
    if x is None:
        return float("nan")
    x = float(x)
    return x if math.isnan(x) else x * abs(x)


def expected_p(m, df):
    """two-sided Student-t p-value from the model's exact t*|t| and df (scipy)"""
    if m == "nan" or df == "nan":
        return float("nan")
    tv = float("inf") if isinstance(m, str) else math.sqrt(abs(float(m)))
    dfv = float("inf") if df == "inf" else float("-inf") if df == "-inf" else float(df)
    with np.errstate(all="ignore"):
        return float(2 * (1 - student_t.cdf(tv, df=dfv)))


def close_p(a, b, tol=1e-9):
    a = float("nan") if a is None else float(a)
    if math.isnan(a) or math.isnan(b):
        return math.isnan(a) and math.isnan(b)
    return abs(a - b) <= tol


def _fix(m, n_r, n_c):
    return m if len(m) == n_r else [[] for _ in range(n_r)]


def cmp_display(io, R, c, mt_full, mdf_full, fails, what, diag_payload=None, bd_full=None):
    """compare model payload-order full matrices with run R's display matrices for display col c;
    bd_full: payload-order matrix of zero-variance boundary records (None = ordinary cell): a
    disagreement of t or p there is skipped (counted in io["bd_skipped"]) when boundary_consistent"""
    nr, nrs, nc, ncs = io["dims"]
    ro, co = R["row_order"][1], R["column_order"][1]
    T, Pv = R["t"][c], R["p"][c]
    if not (_ok(T) and _ok(Pv)):
        fails.append((what + "-exception", {"display_col": c, "t": T, "p": Pv}))
        return 0
    T = np.asarray(T[1], dtype=float)
    Pv = np.asarray(Pv[1], dtype=float)
    if T.shape != (len(ro), len(co)) or Pv.shape != T.shape:
        fails.append((what + "-shape", {"display_col": c, "t": T.shape, "p": Pv.shape}))
        return 0
    mt = U.display_of(mt_full, ro, co, nr + nrs, nc + ncs)
    mdf = U.display_of(mdf_full, ro, co, nr + nrs, nc + ncs)
    try:
        bd = U.display_of(bd_full, ro, co, nr + nrs, nc + ncs) if bd_full is not None else None
    except IndexError:
        bd = None
    n = 0
    for i in range(len(ro)):
        for j in range(len(co)):
            m = mt[i][j]
            # zero-variance boundary cell (c13_util)?  Compared like every cell; a DISAGREEMENT there
            # is rounding, not a violation, as long as the reported t is a zero-variance statistic
            b = bd[i][j] if bd is not None else None
            excused = b is not None and V.boundary_consistent(T[i, j], b)
            io["t_cells"][what] = io["t_cells"].get(what, 0) + 1
            if b is not None:
                io["bd_seen"][what] = io["bd_seen"].get(what, 0) + 1
            if not core.close(tabs(T[i, j]), m):
                if excused:
                    _bd_skip(io, what, T[i, j], m)
                    continue
                det = {"display_col": c, "cell": [i, j], "impl_t": float(T[i, j]),
                       "model_t_abs_t": m, "selected_payload": int(co[c]),
                       "payload": [int(ro[i]), int(co[j])]}
                if b is not None:
                    det["zero_variance_boundary"] = {
                        "note": "exact variance within 1e-12 of the sum of |its terms|, but the reported t "
                                "is not a zero-variance statistic", "d": b["d"], "S": b["S"]}
                fails.append((what + "-t", det))
                return n
            if diag_payload is not None and int(co[j]) == diag_payload:
                # what the code does (model: ov_p_self): the overlap path reports p = 0.0 for a
                # column against itself; outside the property text, see the assumptions
                ep = 0.0
            else:
                ep = expected_p(m, mdf[i][j])
            if not close_p(Pv[i, j], ep):
                if excused:
                    _bd_skip(io, what, T[i, j], m, "p")
                    continue
                fails.append((what + "-p", {"display_col": c, "cell": [i, j], "impl_p": float(Pv[i, j]),
                                             "expected_p": ep, "model_t_abs_t": m, "df": mdf[i][j]}))
                return n
            if U.is_num(m) and m != 0:
                n += 1
    return n


def compare(case, io, jobs, results, rep):
    fails = []   # (what, detail, extra ctx)
    A, B = io["A"], io["B"]
    nr, nrs, nc, ncs = io["dims"]
    stream = case["stream"]
    io["n_finite"] = 0
    io["bd_skipped"], io["bd_seen"], io["t_cells"], io["bd_kinds"] = {}, {}, {}, {}
    parse = None
    for (kind, _t, aux), toks in zip(jobs, results):
        d = core.Dec(toks)
        if kind == "matrix":
            for c, sel in enumerate(aux["sels"]):
                ms = [d.mat() for _ in range(8)]
                shp = [(nr, nc), (nr, ncs), (nrs, nc), (nrs, ncs)]
                tb = [_fix(ms[q], *shp[q]) for q in range(4)]
                db = [_fix(ms[4 + q], *shp[q]) for q in range(4)]
                tf = U.full_from_blocks([[tb[0], tb[1]], [tb[2], tb[3]]])
                df = U.full_from_blocks([[db[0], db[1]], [db[2], db[3]]])
                io["n_finite"] += cmp_display(io, B, c, tf, df, fails, "matrix", bd_full=aux["bd"].get(sel))
                if c == 0:
                    io.setdefault("model_t_full", {})
                io["model_t_full"][sel] = tf
        elif kind == "welch":
            for c, sel in enumerate(aux["sels"]):
                tb = _fix(d.mat(), nr, nc)
                db = _fix(d.mat(), nr, nc)
                nanb = lambda a, b: [["nan"] * b for _ in range(a)]
                tf = U.full_from_blocks([[tb, nanb(nr, ncs)], [nanb(nrs, nc), nanb(nrs, ncs)]])
                df = U.full_from_blocks([[db, nanb(nr, ncs)], [nanb(nrs, nc), nanb(nrs, ncs)]])
                io["n_finite"] += cmp_display(io, B, c, tf, df, fails, "welch")
        elif kind == "overlap":
            for c, sel in enumerate(aux["sels"]):
                t0 = _fix(d.mat(), nr, nc)
                d0 = _fix(d.mat(), nr, nc)
                t1 = _fix(d.mat(), nrs, nc)
                d1 = _fix(d.mat(), nrs, nc)
                e = lambda a: [[] for _ in range(a)]
                tf = U.full_from_blocks([[t0, e(nr)], [t1, e(nrs)]])
                df = U.full_from_blocks([[d0, e(nr)], [d1, e(nrs)]])
                io["n_finite"] += cmp_display(io, B, c, tf, df, fails, "overlap", diag_payload=sel,
                                              bd_full=aux["bd"].get(sel))
        elif kind == "probe-matrix":
            shp = [(nr, nc), (nr, ncs), (nrs, nc), (nrs, ncs)]
            for c, sel in enumerate(aux["sels"]):
                pb = [_fix(d.mat(), *shp[q]) for q in range(4)]
                pf = U.full_from_blocks([[pb[0], pb[1]], [pb[2], pb[3]]])
                PR.compare_full(io, c, pf, fails, "probe-matrix", bd_full=aux["bd"].get(sel))
        elif kind == "probe-welch":
            nanb = lambda a, b: [["nan"] * b for _ in range(a)]
            for c, sel in enumerate(aux["sels"]):
                pb = _fix(d.mat(), nr, nc)
                pf = U.full_from_blocks([[pb, nanb(nr, ncs)], [nanb(nrs, nc), nanb(nrs, ncs)]])
                PR.compare_full(io, c, pf, fails, "probe-welch")
        elif kind == "probe-overlap":
            e = lambda a: [[] for _ in range(a)]
            for c, sel in enumerate(aux["sels"]):
                p0 = _fix(d.mat(), nr, nc)
                p1 = _fix(d.mat(), nrs, nc)
                pf = U.full_from_blocks([[p0, e(nr)], [p1, e(nrs)]])
                PR.compare_full(io, c, pf, fails, "probe-overlap", bd_full=aux["bd"].get(sel))
        elif kind == "legacy":
            L = B["legacy_t"][1]
            for c in range(aux["n"]):
                m = d.mat()
                if c >= len(L):
                    fails.append(("legacy-shape", {"n_tests": len(L), "n_cols": aux["n"]}))
                    break
                bad = _first_bad(L[c], m, aux["bd"][c] if c < len(aux["bd"]) else None, io)
                if bad is not None:
                    fails.append(("legacy-t", {"display_col": c, "first_diff(i,j,impl,model)": bad}))
                    break
        elif LG.compare(kind, d, aux, case, io, fails):   # legs of c13_legacy.py (kinds "lg-...")
            pass
        elif kind == "sets":
            tag = d.Z()
            if tag == 0:
                a = d.xq()
                alt = d.opt(d.xq)
                ol = d.bool()
                parse = ("ok", a, alt, ol)
                nd = len(B["column_order"][1])
                nrows_d = len(B["row_order"][1])
                if aux["have_pt"]:
                    prim = [d.list(d.nats) for _ in range(nd)]
                    sec = [d.list(d.nats) for _ in range(nd)] if alt is not None else None
                    _cmp_sets(case, io, B, prim, sec, a, alt, fails, rep)
            else:
                parse = ("TypeError",) if tag == 1 else ("ValueError",)
    # alpha parsing vs the implementation
    if parse is not None:
        av = A.get("alpha_values")
        if parse[0] == "ok":
            if not (_ok(av) and isinstance(av[1], (tuple, list)) and len(av[1]) == 2
                    and isinstance(av[1][0], float) and (av[1][1] is None or isinstance(av[1][1], float))
                    and close_p(av[1][0], float(parse[1]), 0.0)
                    and ((av[1][1] is None) == (parse[2] is None))
                    and (parse[2] is None or close_p(av[1][1], float(parse[2]), 0.0))):
                fails.append(("alpha-parse", {"impl": av, "model": parse}))
            olv = A.get("only_larger")
            if not (_ok(olv) and bool(olv[1]) == parse[3]):
                fails.append(("only-larger-parse", {"impl": olv, "model": parse[3]}))
            if not _ok(B["idx"]):
                fails.append(("indices-exception", {"impl": B["idx"]}))
        else:
            # alpha is only evaluated when there is at least one displayed column
            got = B["idx"]
            if len(B["column_order"][1]) > 0 and not (got[0] == "exc" and got[1] == parse[0]):
                fails.append(("alpha-parse", {"impl": got, "model": parse}))
            if not (av[0] == "exc" and av[1] == parse[0]):
                fails.append(("alpha-parse", {"impl": av, "model": parse}))
    # zero-variance boundary cells: skipped AND counted (never silently)
    for path, k in sorted(io["bd_skipped"].items()):
        rep.cov["skipped_near_threshold"] += k
        rep.dist("zero_variance_boundary_cells_skipped:" + path, k)
    if io["bd_skipped"]:
        rep.dist("cases_with_zero_variance_boundary_cells_skipped")
    for path, k in sorted(io["bd_seen"].items()):
        rep.dist("zero_variance_boundary_cells:" + path, k)
    for kk, k in sorted(io["bd_kinds"].items()):
        rep.dist("zero_variance_boundary_disagreement:" + kk, k)
    for path, k in sorted(io["t_cells"].items()):
        rep.dist("t_cells_compared:" + path, k)
    if io.get("probe_cells"):
        rep.dist("probe_cdf_p_cells_compared", io["probe_cells"])
        rep.dist("cases_with_probe_cdf_leg")
    if io.get("probe_bd_skipped"):
        rep.cov["skipped_near_threshold"] += io["probe_bd_skipped"]
        rep.dist("probe_cdf_p_cells_skipped_zero_variance_boundary", io["probe_bd_skipped"])
    if io.get("probe_error") is not None:
        rep.dist("probe_cdf_leg_unavailable")
    LG.distribution(io, rep)
    # relational oracles on the implementation alone
    _oracles(case, io, fails, rep)
    return fails


def _first_bad(impl_m, model_m, bd=None, io=None):
    im = np.asarray(impl_m, dtype=float)
    if im.ndim != 2 or im.shape[0] != len(model_m):
        return ("shape", list(im.shape), len(model_m))
    for i in range(im.shape[0]):
        if im.shape[1] != len(model_m[i]):
            return ("shape", list(im.shape), len(model_m[i]))
        for j in range(im.shape[1]):
            b = bd[i][j] if bd is not None and i < len(bd) and j < len(bd[i]) else None
            if io is not None:
                io["t_cells"]["legacy"] = io["t_cells"].get("legacy", 0) + 1
                if b is not None:
                    io["bd_seen"]["legacy"] = io["bd_seen"].get("legacy", 0) + 1
            if not core.close(tabs(im[i, j]), model_m[i][j]):
                if b is not None and io is not None and V.boundary_consistent(im[i, j], b):
                    # zero-variance boundary cell that disagrees: rounding; skipped and counted
                    _bd_skip(io, "legacy", im[i, j], model_m[i][j])
                    continue
                bad = (i, j, core.jsonable(im[i, j]), core.jsonable(model_m[i][j]))
                if b is not None:
                    bad += ("zero-variance boundary cell, but the reported t is not a zero-variance statistic",)
                return bad
    return None


def _cmp_sets(case, io, B, prim, sec, a, alt, fails, rep):
    """model sets (per display column: list over rows) vs pairwise_indices[row][col]"""
    for key, model, alpha in (("idx", prim, a), ("idx_alt", sec, alt)):
        got = B[key]
        if model is None:
            if not (_ok(got) and got[1] is None):
                fails.append(("indices-alt-not-none", {"impl": got}))
            continue
        if not _ok(got) or got[1] is None:
            fails.append(("indices-exception", {"which": key, "impl": got}))
            continue
        S = got[1]
        for c, col in enumerate(model):
            P = np.asarray(B["p"][c][1], dtype=float)
            for i, mset in enumerate(col):
                if i >= len(S) or c >= len(S[i]):
                    fails.append(("indices-shape", {"which": key}))
                    return
                if sorted(mset) != S[i][c]:
                    near = [j for j in set(mset) ^ set(S[i][c]) if abs(P[i, j] - float(alpha)) <= 1e-9]
                    if near:
                        rep.cov["skipped_near_threshold"] += 1
                        continue
                    fails.append(("indices", {"which": key, "row": i, "display_col": c, "impl": S[i][c],
                                              "model": sorted(mset), "alpha": float(alpha)}))
                    return
        rep.dist("index_matrices_compared")


def _payload_sets(R):
    """{(payload_row, payload_col): set(payload cols)} for idx and idx_alt of a run"""
    out = {}
    ro, co = [int(x) for x in R["row_order"][1]], [int(x) for x in R["column_order"][1]]
    for key in ("idx", "idx_alt"):
        got = R.get(key)
        if not _ok(got) or got[1] is None:
            out[key] = None
            continue
        dct = {}
        for i, r in enumerate(ro):
            for c, s in enumerate(co):
                dct[(r, s)] = set(co[j] for j in got[1][i][c])
        out[key] = dct
    return out, ro, co


def _oracles(case, io, fails, rep):
    A, B = io["A"], io["B"]
    stream = case["stream"]
    path = "overlap" if stream == "overlap" else "means" if stream == "means" else "matrix"
    # (1) antisymmetry of t, symmetry of p, on run B
    if _ok(B.get("column_order")) and all(_ok(x) for x in B.get("t", [])) and all(_ok(x) for x in B.get("p", [])):
        nd = len(B["column_order"][1])
        T = [np.asarray(x[1], dtype=float) for x in B["t"]]
        P = [np.asarray(x[1], dtype=float) for x in B["p"]]
        done = False
        for c in range(nd):
            for j in range(nd):
                for i in range(T[c].shape[0]):
                    a, b = T[c][i, j], T[j][i, c]
                    if not ((math.isnan(a) and math.isnan(b)) or a == -b or abs(a + b) <= 1e-9 * max(1.0, abs(a))):
                        fails.append(("antisymmetry", {"row": i, "cols": [c, j], "t_cj": a, "t_jc": b}, {"path": path}))
                        done = True
                        break
                    pa, pb = P[c][i, j], P[j][i, c]
                    if not close_p(pa, pb):
                        fails.append(("p-symmetry", {"row": i, "cols": [c, j], "p_cj": pa, "p_jc": pb}, {"path": path}))
                        done = True
                        break
                    if c == j:
                        # a column against itself: t = 0 (or 0/0 = NaN); p = 1 (or NaN)
                        if not (math.isnan(a) or a == 0):
                            fails.append(("self-t", {"row": i, "col": c, "t": a}, {"path": path}))
                            done = True
                            break
                        if path == "overlap":
                            # p(a, a) of the overlap path (0.0 by construction of the library,
                            # pinned by its integration tests) is outside the property text
                            if pa == 0.0:
                                rep.dist("overlap_self_p_zero_cells(outside property)")
                        elif not (math.isnan(pa) or abs(pa - 1.0) <= 1e-9):
                            fails.append(("self-pvalue", {"row": i, "display_col": c, "p": pa, "t": a}, {"path": path}))
                            done = True
                            break
                if done:
                    break
            if done:
                break
        if not done:
            rep.dist("antisymmetry_checked")
    # (2) the column itself is never reported; (3) secondary contains primary
    if _ok(B.get("idx")) and B["idx"][1] is not None:
        S = B["idx"][1]
        S2 = B["idx_alt"][1] if _ok(B.get("idx_alt")) else None
        bad_self = bad_alt = None
        for i, row in enumerate(S):
            for c, cell in enumerate(row):
                if c in cell and bad_self is None:
                    bad_self = {"row": i, "display_col": c, "set": cell}
                if S2 is not None and not set(cell) <= set(S2[i][c]) and bad_alt is None:
                    bad_alt = {"row": i, "display_col": c, "primary": cell, "secondary": S2[i][c]}
        if bad_self:
            fails.append(("self-in-indices", bad_self, {"path": path}))
        if bad_alt:
            fails.append(("alt-not-superset", bad_alt, {"path": path}))
    # (4) equivariance: B (order / hide) vs A (payload order), and A vs C (no inserted columns)
    for X, Y, name in ((B, A, "display-transform"), (io.get("C"), A, "column-insertion")):
        if X is None or not (_ok(X.get("column_order")) and _ok(Y.get("column_order"))
                             and _ok(X.get("row_order")) and _ok(Y.get("row_order"))):
            continue
        if not (_ok(X.get("idx")) and _ok(Y.get("idx"))):
            continue
        px, rox, cox = _payload_sets(X)
        py, roy, coy = _payload_sets(Y)
        ncs = io["dims"][3]
        if name == "column-insertion":
            # C has no inserted columns: its signed column ids are the base ids; rows identical
            pass
        shown = set(cox)
        bad = None
        for key in ("idx", "idx_alt"):
            if px[key] is None or py[key] is None:
                continue
            for (r, s), st in px[key].items():
                if (r, s) not in py[key]:
                    continue
                other = set(x for x in py[key][(r, s)] if x in shown)
                if st != other:
                    bad = {"which": key, "payload_row": r, "payload_col": s, "with": sorted(st),
                           "without": sorted(other), "relation": name}
                    break
            if bad:
                break
        if bad:
            fails.append(("equivariance", bad, {"path": path, "relation": name}))
        else:
            rep.dist("equivariance_checked:" + name)
    # (2b) the legacy index outputs never list the column itself either
    for name, got in (B.get("legacy_sets") or {}).items():
        if not _ok(got) or got[1] is None:
            continue
        for c, cell in enumerate(got[1]):
            if c in cell:
                fails.append(("self-in-indices", {"output": name, "display_col": c, "set": cell},
                              {"path": "legacy", "output": name}))
                break
        else:
            rep.dist("legacy_sets_self_checked:" + name)
    # (5) property oracle for the legacy path: same t as the matrix path (effective base rule),
    # every cell of every selected column.  A difference in payload row 0, or on rows that share
    # their column bases, is reported first: the open finding covers only rows >= 1 of MR rows.
    if stream in ("cols", "mr_plain") and _ok(B.get("legacy_t")) and all(_ok(x) for x in B.get("t", [])) \
            and _ok(B.get("row_order")):
        L = B["legacy_t"][1]
        ro = [int(x) for x in B["row_order"][1]]
        worst = None          # (detail, payload row): a difference outside "payload row >= 1" wins
        compared = 0
        for c, Tm in enumerate(B["t"]):
            if c >= len(L):
                worst = ({"what": "fewer legacy tests than displayed columns", "n_tests": len(L)}, 0)
                break
            Tm = np.asarray(Tm[1], dtype=float)
            Lc = np.asarray(L[c], dtype=float)
            if Lc.shape != Tm.shape:
                worst = ({"what": "shape", "legacy": list(Lc.shape), "matrix_path": list(Tm.shape)}, 0)
                break
            both = np.isfinite(Tm) & np.isfinite(Lc)
            compared += int(both.sum())
            diff = both & ~np.isclose(Tm, Lc, rtol=1e-9, atol=1e-12)
            for ij in np.argwhere(diff):
                prow = ro[int(ij[0])] if int(ij[0]) < len(ro) else 0
                if worst is None or (prow < 1 <= worst[1]):
                    worst = ({"display_col": c, "cell": [int(ij[0]), int(ij[1])], "payload_row": prow,
                              "legacy_t": float(Lc[ij[0], ij[1]]),
                              "matrix_path_t": float(Tm[ij[0], ij[1]])}, prow)
            if worst is not None and worst[1] < 1:
                break
        if worst is not None:
            d, prow = worst
            for n in ("columns_base", "columns_margin", "columns_squared_base"):
                d[n] = core.jsonable(B[n][1]) if _ok(B.get(n)) else None
            fails.append(("legacy-vs-property", d,
                          {"squared_weights": bool(io.get("has_sq")), "path": "legacy",
                           "row_kind": case["row_kind"], "payload_row_ge_1": bool(prow >= 1)}))
        elif compared:
            rep.dist("legacy_equals_matrix_path")


# ------------------------------------------------------------------------------------
# READ-ORDER LEG of the two test families (module docstring; pattern of common_cases.late_reads)
# ------------------------------------------------------------------------------------

_FAMILIES = {
    "proportions": (("pairwise_significance_t_stats", "pairwise_significance_p_vals"),
                    ("pairwise_indices", "pairwise_indices_alt")),
    "means": (("pairwise_significance_means_t_stats", "pairwise_significance_means_p_vals"),
              ("pairwise_means_indices", "pairwise_means_indices_alt")),
}


def has_mean_measure(case):
    try:
        return "mean" in case["response"]["result"]["measures"]
    except (KeyError, TypeError):
        return False


def family_interleaving(case, limit_culprits=4):
    """ONE slice object is asked for BOTH families of column tests - every per-column method read
    (t and p of every displayed column, proportions and means) and the four index-set properties - in
    an interleaving shuffled by a PRNG seeded with the case number; each value is compared
    value-exactly (NaN = NaN, same exception type) with the same read on a FRESH slice built from
    the same arguments.  -> (stats dict, None | failure detail)"""
    from harness.props import common_cases as cc
    resp, tr = case["response"], case["transforms"]
    rng = random.Random(1000003 * int(case.get("k", 0)) + 131)
    g0 = impl.guarded(lambda: impl.partition(resp, tr))
    if g0[0] != "ok":
        return None, None
    shared = g0[1]
    co = impl.get(shared, "column_order")
    if co[0] != "ok":
        return None, None
    nd = len(co[1])
    reads = []   # (family, name, args)
    for fam, (per_col, props) in sorted(_FAMILIES.items()):
        reads += [(fam, n, (c,)) for n in per_col for c in range(nd)]
        reads += [(fam, n, ()) for n in props]
    rng.shuffle(reads)
    stats = {"reads": len(reads), "columns": nd, "proportions_first": 0, "means_first": 0}
    first_of_col = {}
    for fam, _n, args in reads:
        if args and args[0] not in first_of_col:
            first_of_col[args[0]] = fam
    for fam in first_of_col.values():
        stats[fam + "_first"] += 1

    def fresh_read(name, args, before=()):
        q = impl.partition(resp, tr)
        for _f, pre, pargs in before:
            impl.get(q, pre, *pargs)
        return cc._canon_read(impl.get(q, name, *args))

    for pos, (fam, name, args) in enumerate(reads):
        got = cc._canon_read(impl.get(shared, name, *args))
        want = fresh_read(name, args)
        if got == want:
            continue
        culprits = []
        for pre in reads[:pos]:
            if fresh_read(name, args, before=(pre,)) != want:
                culprits.append("%s%s" % (pre[1], list(pre[2]) if pre[2] else ""))
                if len(culprits) >= limit_culprits:
                    break
        return stats, {"read": name, "args": list(args), "family": fam, "position_in_sequence": pos,
                       "on_fresh_slice": want, "on_shared_slice": got,
                       "earlier_reads_on_the_shared_slice": ["%s%s" % (n, list(a) if a else "")
                                                             for _f, n, a in reads[:pos]],
                       "single_earlier_reads_that_change_it": culprits}
    return stats, None


# ------------------------------------------------------------------------------------

def _replayable(case):
    d = {k: case[k] for k in ("k", "stream", "row_kind", "col_kind", "weighted", "squared",
                              "ov_weighted", "response", "transforms", "aval", "olval", "SN")}
    d["overlap_measures"] = case.get("overlap_measures", "none")
    if case.get("cls"):
        d["cls"] = case["cls"]
    return d


def check_cases(cases, rep, tag="cases"):
    out = []
    ios, alljobs, terms = [], [], []
    for case in cases:
        io = impl_run(case)
        ios.append(io)
        if "error" in io:
            out.append((case, "impl-exception", {"error": io["error"]}, {}))
            alljobs.append(None)
            continue
        jobs = build_terms(case, io)
        alljobs.append(jobs)
        if jobs is None:
            out.append((case, "impl-exception", {"A": {k: v for k, v in io["A"].items() if isinstance(v, tuple) and v[0] == "exc"}}, {}))
            continue
        terms.extend(t for (_k, t, _a) in jobs)
    results, coq_s = core.run_coq_cases(PID, IMPORTS, terms, shard=60, tag=tag) if terms else ([], 0.0)
    pos = 0
    for case, io, jobs in zip(cases, ios, alljobs):
        if jobs is None:
            continue
        res = results[pos:pos + len(jobs)]
        pos += len(jobs)
        for f in compare(case, io, jobs, res, rep):
            what, detail = f[0], f[1]
            extra = f[2] if len(f) > 2 else {}
            out.append((case, what, detail, extra))
    # READ-ORDER LEG of the two families: every case whose response carries a mean measure (both
    # families are defined on its slice)
    for case, io in zip(cases, ios):
        if "error" in io or not has_mean_measure(case):
            continue
        g = impl.guarded(lambda: family_interleaving(case), seconds=120)
        if g[0] != "ok":
            out.append((case, "read-order", {"error": g}, {"path": "both-families"}))
            continue
        stats, bad = g[1]
        if stats is None:
            continue
        rep.dist("family_interleaving:slices")
        rep.dist("family_interleaving:reads_compared_with_a_fresh_slice", stats["reads"])
        rep.dist("family_interleaving:columns_asked_proportions_family_first", stats["proportions_first"])
        rep.dist("family_interleaving:columns_asked_means_family_first", stats["means_first"])
        if bad is not None:
            out.append((case, "read-order", bad, {"path": bad["family"]}))
    return out, ios, coq_s, len(terms)


def run(tier, seed):
    rep = core.Report(PID, tier, seed)
    ob = core.obligations_gate(rep, PID)
    n_cases = 240 if tier == "quick" else 4400
    rng = random.Random(seed)
    cases = [gen_case(rng, k) for k in range(n_cases)]
    # MR x MR with overlap measures whose items are put to different sub-samples: own PRNG, appended, so
    # that the main stream (and the known-finding hits on it) is unchanged
    xrng = random.Random(seed * 7919 + 1306)
    n_x = 24 if tier == "quick" else 400
    cases.extend(gen_case(xrng, n_cases + j, force=MRXMR) for j in range(n_x))
    fails, ios, coq_s, nterms = check_cases(cases, rep)
    for case, io in zip(cases, ios):
        nt = io.get("n_finite", 0) > 0
        rep.count_case(_replayable(case), nt)
        rep.dist("stream=" + case["stream"])
        if case.get("cls"):
            rep.dist("class=" + case["cls"])
        if case.get("overlap_measures") == "both(MR x MR)" and case.get("SN"):
            sn = case["SN"]
            own = sum(1 for i in range(1, len(sn["S"])) if (sn["S"][i], sn["N"][i]) != (sn["S"][0], sn["N"][0]))
            rep.dist("mr_x_mr_overlap:rows_whose_overlap_bases_differ_from_the_first_row", own)
            if own and nt and len(sn["S"][0]) > 1:
                rep.dist("mr_x_mr_overlap:nontrivial_cases_with_row_specific_bases")
        rep.dist("%s x %s" % (case["row_kind"], case["col_kind"]))
        rep.dist("weighted" if case["weighted"] else "unweighted")
        if case["squared"]:
            rep.dist("squared_weights")
        rep.dist("overlap_measures_on=" + case.get("overlap_measures", "none"))
        tr = case["transforms"] or {}
        rep.dist("column_display_transform" if "columns_dimension" in tr else "no_column_display_transform")
        rep.dist("alpha=" + case["aval"].split()[0].strip("("))
        rep.dist("only_larger=" + case["olval"])
        d = io.get("dims")
        if d and len(d) == 4:
            if d[3]:
                rep.dist("with_subtotal_columns")
            if d[1]:
                rep.dist("with_subtotal_rows")
        if nt:
            rep.sample({"stream": case["stream"], "dims": d, "transforms": case["transforms"],
                        "weighted": case["weighted"], "squared": case["squared"]})
    for case, what, detail, extra in fails:
        ctx = {"what": what, "stream": case["stream"], "only_larger": case["olval"]}
        ctx.update(extra)
        kind = "impl-vs-property" if what in ("antisymmetry", "p-symmetry", "self-t", "self-pvalue",
                                              "self-in-indices", "alt-not-superset", "equivariance",
                                              "legacy-vs-property", "read-order") else "impl-vs-model"
        rep.violation(kind, _replayable(case), dict(detail, what=what), ctx)
    rep.cov["rule"] = (
        "cases from random.Random(seed): CAT|MR x CAT column tests (weighted / unweighted, with and without "
        "the squared-weight measure, subtotal and difference insertions on rows and columns, every displayed "
        "column - base or subtotal - as the selected one), CAT x CAT means (mean + stddev measures), CAT|MR x MR "
        "with overlap / valid_overlap measures (weighted or not), CAT x MR without overlaps, MR x CAT whose response "
        "ALSO carries the overlap measures of the rows MR (overlap routing: measures on rows only / columns only / "
        "both, counted as overlap_measures_on=...; the categorical columns keep the two-proportion test); alpha spelled as "
        "absent/falsy/float/[a]/[a,b]/[a,b,extra] plus a malformed stream; only_larger absent/false/true/other; "
        "60% with column order/hide transforms, 25% with row ones; PLUS (own PRNG, appended) MR (2-4 items) x MR "
        "(2-4 items) with overlap measures, n >= 20, every row item (half of the time every column item) put to "
        "its own sub-sample (class=mr_x_mr_items_put_to_subsamples; rows with their own overlap bases are counted in "
        "mr_x_mr_overlap:*); read-order leg on every case with a mean measure: both test families read on ONE "
        "slice in a seeded interleaving, each read compared with a fresh slice (family_interleaving:*); "
        "non-trivial = at least one finite non-zero statistic compared; distinct by content hash")
    ratios = [io["min_ratio"] for io in ios if io.get("min_ratio") is not None]
    rep.cov["zero_variance_boundary"] = {
        "rule": "every t / p cell is compared with the model; a DISAGREEMENT is not a violation but skipped "
                "(and counted: skipped_near_threshold, distribution zero_variance_boundary_cells_skipped:<path>) "
                "iff the cell is a zero-variance boundary cell: the variance V under its square root, "
                "evaluated exactly (fractions) on the values the model term is fed with, satisfies "
                "S > 0 and |V| <= 1e-12 * S, S = sum of the absolute values of V's terms "
                "(p(1-p)/n, p0(1-p0)/n0; overlap: pa(1-pa), pb(1-pb), 2 pa pb, -2 pab, each / df): the "
                "terms cancel (column proportions paths: only possible with a difference subtotal, whose "
                "p(1-p) is negative) and float64 yields a rounding residue (or 0.0) where exact arithmetic "
                "yields another residue (or 0), so t is inf / NaN / 0 / ~1e17 by rounding alone.  To be excused "
                "the reported t must still be NaN or have the sign of the difference with "
                "t^2 >= d^2 / (1e-9 * S) (t = 0 when d = 0), else it is a violation.  Every other "
                "disagreement is a violation as always (V = 0 with S = 0, p, p0 in {0, 1}, is no boundary cell)",
        "paths": "matrix (pairwise_significance_t_stats/p_vals), legacy (pairwise_significance_tests), overlap; "
                 "not the means path (sum of non-negative terms, no cancellation)",
        "boundary_cells": {k[len("zero_variance_boundary_cells:"):]: v
                           for k, v in rep.cov["distribution"].items()
                           if k.startswith("zero_variance_boundary_cells:")},
        "skipped_cells(boundary cells that disagreed)": {
            k[len("zero_variance_boundary_cells_skipped:"):]: v
            for k, v in rep.cov["distribution"].items()
            if k.startswith("zero_variance_boundary_cells_skipped:")},
        "disagreements_by_kind(t*|t| classes)": {
            k[len("zero_variance_boundary_disagreement:"):]: v
            for k, v in rep.cov["distribution"].items()
            if k.startswith("zero_variance_boundary_disagreement:")},
        "compared_cells": {k[len("t_cells_compared:"):]: v for k, v in rep.cov["distribution"].items()
                           if k.startswith("t_cells_compared:")},
        "smallest_|V|/S_among_non_boundary_cells": float(min(ratios)) if ratios else None,
    }
    rep.cov["coq_eval_seconds"] = round(coq_s, 2)
    rep.cov["model_terms_evaluated"] = nterms
    rep.assumptions = [
        "inputs of each step are the implementation's own public values (column proportions, column "
        "unweighted/weighted bases, means, stddev, unweighted counts; reported p / t for the index sets), owned "
        "by C03/C01/C04; per-cell squared-weight bases are read from the private "
        "_measures.column_squared_bases.blocks (public columns_squared_base exposes only one row)",
        "overlap selected / valid counts are computed by the harness from the respondent-level survey",
        "scipy.stats.t.cdf has the CDF shape assumed by the p-value theorems; expected p-values are computed "
        "with scipy from the model's exact t^2 and df (tolerance 1e-9 absolute)",
        "threshold decisions p < alpha are evaluated exactly on the reported float p (decisions within 1e-9 of "
        "alpha that disagree are skipped and counted)",
        "float64 vs exact rationals: relative tolerance 1e-9 on t*|t|",
        "p-values up to the CDF (Model/PairwiseP.v): on every second case the implementation is read once more "
        "with the module-level name `t` of cr.cube.matrix.measure (scipy.stats.t) replaced, for the duration of "
        "that read only, by an object whose cdf(x, df) is the exact rational function x^2/(x^2+df^2+1); the "
        "p-value matrices are compared (absolute tolerance 1e-9) with pw_pblock / welch_pblock / ov_pblock "
        "evaluated in Coq with the same function cdf_probe; zero-variance boundary cells are skipped and "
        "counted (probe_cdf_p_cells_skipped_zero_variance_boundary)",
        "zero-variance boundary (IEEE rounding, a stated modelling gap): where the exact variance under the "
        "square root cancels to within 1e-12 of the sum of the absolute values of its terms, float64 and "
        "exact arithmetic legitimately give different members of {inf, NaN, 0, ~1e17}; a disagreement of t or p "
        "at such a cell is skipped, provided the reported t is a zero-variance statistic, and counted in "
        "skipped_near_threshold and coverage['zero_variance_boundary'] (rule in harness/props/c13_util.py)",
        "the p-value reported for a column against ITSELF on the overlap path (pairwise_significance_p_vals(a)[:, a] "
        "== 0.0, pinned by the library's tests/integration/test_pairwise_significance.py) is modelled as the code "
        "computes it (ov_p_self) but treated as outside the property: the property text states t = 0 for a column "
        "against itself and that the column is never listed - both are checked on every path - and says nothing "
        "explicit about p(a, a); occurrences are counted in distribution['overlap_self_p_zero_cells(outside property)']",
        "legacy path: the model takes columns_margin (broadcast to a matrix), columns_base and the 1-D "
        "columns_squared_base as reported by the slice; the legacy index outputs (summary_pairwise_indices, "
        "columns_scale_mean_pairwise_indices(_alt)) are only checked for never listing the column itself - their "
        "statistics belong to other properties",
    ]
    return rep.finish("proof", ob, trusted_base=core.TRUSTED_BASE_COMMON + [
        "Model/Pairwise.v is hand-written; tied to matrix/measure.py, cubepart.py and "
        "measures/pairwise_significance.py by this correspondence run",
        "Coq stdlib real-number axioms (only in the p-value shape theorems)"])


def replay(path):
    d = json.load(open(path))
    case = d["violation"]["case"]
    want = d["violation"].get("ctx", {}).get("what")
    rep = core.Report(PID, "quick", d.get("seed", 0))
    fails, _ios, _s, _n = check_cases([case], rep, tag="replay")
    for _case, what, detail, _extra in fails:
        print("REPLAY still fails:", what, json.dumps(core.jsonable(detail))[:600])
    if not fails:
        print("REPLAY: no longer fails")
    return 1 if fails else 0
