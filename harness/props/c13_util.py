# -*- coding: utf-8 -*-
"""Helpers of the C13 check: responses with squared-weight and overlap measures,
alpha / only_larger spellings, exact squared bases from the survey."""
import copy
import itertools
from fractions import Fraction

from harness import gen
from harness.gen import SEL, OTH, MIS, fnum


# ------------------------------------------------------------------------------------
# extra measures
# ------------------------------------------------------------------------------------

def add_squared_weights(resp, survey, aliases):
    """`weighted_squared_count`: sum of w^2 per cell (same layout as the count measure)."""
    _shape, sq = gen.tabulate(survey, aliases, weight=True, value=lambda r: r["w"])
    resp["result"]["measures"]["weighted_squared_count"] = {
        "data": [fnum(x) for x in sq],
        "metadata": {"derived": True, "references": {},
                     "type": {"class": "numeric", "integer": False}},
        "n_missing": 0,
    }
    return resp


def overlap_tensors(survey, aliases, weighted):
    """(shape, overlap, valid_overlap) flat row-major tensors of shape cube_shape + (n_items,)
    for a cube whose LAST variable is an MR: cell [.., a, s, b] counts the respondents of the
    cube cell (.., a, s) that selected item b (overlap) / have a non-missing item b (valid)."""
    vs = [survey.var(a) for a in aliases]
    mr = vs[-1]
    assert mr.kind == "mr"
    n_items = len(mr.items)
    shape = tuple(itertools.chain.from_iterable(gen.var_shape(v) for v in vs)) + (n_items,)
    size = 1
    for s in shape:
        size *= s
    ov = [Fraction(0)] * size
    vo = [Fraction(0)] * size
    strides = []
    acc = 1
    for s in reversed(shape):
        strides.insert(0, acc)
        acc *= s
    for r in survey.resp:
        w = r["w"] if weighted else Fraction(1)
        contribs = [gen.contributions(v, r["ans"][v.alias]) for v in vs]
        colans = r["ans"][mr.alias]
        for combo in itertools.product(*contribs):
            idx = tuple(itertools.chain.from_iterable(combo))
            for b in range(n_items):
                off = sum(i * s for i, s in zip(idx + (b,), strides))
                if colans[b] == SEL:
                    ov[off] += w
                if colans[b] != MIS:
                    vo[off] += w
    return shape, ov, vo


def add_overlaps(resp, survey, aliases, weighted):
    _shape, ov, vo = overlap_tensors(survey, aliases, weighted)
    mr = survey.var(aliases[-1])
    md = {"derived": True,
          "references": {"alias": mr.alias, "name": mr.name,
                         "subreferences": [{"alias": it["alias"], "name": it["name"]} for it in mr.items]},
          "type": {"class": "numeric", "integer": not weighted,
                   "subvariables": [it["subvar_id"] for it in mr.items]}}
    resp["result"]["measures"]["overlap"] = {"data": [fnum(x) for x in ov],
                                             "metadata": copy.deepcopy(md), "n_missing": 0}
    resp["result"]["measures"]["valid_overlap"] = {"data": [fnum(x) for x in vo],
                                                   "metadata": copy.deepcopy(md), "n_missing": 0}
    return resp


def overlap_bases_from_survey(survey, aliases, weighted):
    """Independent respondent-level computation of what the overlap test uses.

    Returns (S, N): lists (one per base row of the slice) of n_items x n_items Fraction
    matrices:  S[row][a][b] = weight of respondents (counted in the row's base) who selected
    both a and b, N[row][a][b] = ... for whom both a and b are non-missing.
    CAT x MR: the row's base is every respondent with a VALID row category (the same matrix
    for every row).  MR x MR: row item selected-or-other (non-missing)."""
    rowv = survey.var(aliases[-2])
    mr = survey.var(aliases[-1])
    n = len(mr.items)

    def mats(pred):
        S = [[Fraction(0)] * n for _ in range(n)]
        N = [[Fraction(0)] * n for _ in range(n)]
        for r in survey.resp:
            if not pred(r):
                continue
            w = r["w"] if weighted else Fraction(1)
            ans = r["ans"][mr.alias]
            for a in range(n):
                for b in range(n):
                    if ans[a] == SEL and ans[b] == SEL:
                        S[a][b] += w
                    if ans[a] != MIS and ans[b] != MIS:
                        N[a][b] += w
        return S, N

    if rowv.kind in ("cat", "cat_date"):
        valid = [k for k, c in enumerate(rowv.cats) if not c["missing"]]
        S, N = mats(lambda r: r["ans"][rowv.alias] in valid)
        return [S] * len(valid), [N] * len(valid)
    assert rowv.kind == "mr"
    Ss, Ns = [], []
    for i in range(len(rowv.items)):
        S, N = mats(lambda r, i=i: r["ans"][rowv.alias][i] != MIS)
        Ss.append(S)
        Ns.append(N)
    return Ss, Ns


# ------------------------------------------------------------------------------------
# alpha / only_larger spellings
# ------------------------------------------------------------------------------------

ALPHAS = [0.001, 0.01, 0.025, 0.05, 0.1, 0.2, 0.35, 0.5, 0.8, 0.95]


def random_pairwise_transform(rng, malformed_ok=True):
    """({"alpha":..., "only_larger":...} or None, aval_gallina, olval_gallina)"""
    d = {}
    r = rng.random()
    if r < 0.15:
        aval = "Av_falsy"
        sp = rng.choice(["absent", None, [], 0, 0.0, "", {}, False])
        if sp != "absent":
            d["alpha"] = sp
    elif r < 0.30:
        a = rng.choice(ALPHAS)
        d["alpha"] = a
        aval = "(Av_float %s)" % _q(a)
    elif r < 0.45:
        a = rng.choice(ALPHAS)
        d["alpha"] = [a]
        aval = "(Av_list [It_float %s])" % _q(a)
    elif r < 0.88 or not malformed_ok:
        a, b = rng.choice(ALPHAS), rng.choice(ALPHAS)
        lst = [a, b]
        items = ["It_float %s" % _q(a), "It_float %s" % _q(b)]
        if rng.random() < 0.2:
            extra = rng.choice([0.3, 7, "x", 1.5])
            lst.append(extra)
            items.append("It_float %s" % _q(extra) if isinstance(extra, float) else "It_other")
        d["alpha"] = lst
        aval = "(Av_list [%s])" % "; ".join(items)
    else:
        # malformed stream
        sp = rng.choice([1, "0.05", {"a": 1}, True, 1.0, 1.5, -0.2, [0.05, 1], [1.2], [0.05, "x"],
                         [2, 0.05], [0.0, 0.1], [0.05, 1.0]])
        d["alpha"] = sp
        aval = aval_of(sp)
    r = rng.random()
    if r < 0.35:
        ol = "Ol_absent"
    elif r < 0.70:
        d["only_larger"] = False
        ol = "Ol_false"
    elif r < 0.9:
        d["only_larger"] = True
        ol = "Ol_true"
    else:
        d["only_larger"] = rng.choice([0, None, "false", 1, []])
        ol = "Ol_other"
    return (d if d else None), aval, ol


def _q(x):
    fr = Fraction(x)
    return "(%d # %d)%%Q" % (fr.numerator, fr.denominator)


def aval_of(sp):
    """JSON value -> Gallina aval (mirrors the python truthiness / isinstance semantics)."""
    if isinstance(sp, bool):
        return "Av_other" if sp else "Av_falsy"
    if sp is None or sp == 0 or sp == "" or sp == [] or sp == {} or sp == ():
        return "Av_falsy"
    if isinstance(sp, float):
        return "(Av_float %s)" % _q(sp)
    if isinstance(sp, (list, tuple)):
        items = []
        for x in sp:
            if isinstance(x, float):
                items.append("It_float %s" % _q(x))
            else:
                items.append("It_other")
        return "(Av_list [%s])" % "; ".join(items)
    return "Av_other"
