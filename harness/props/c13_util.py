# -*- coding: utf-8 -*-
"""Helpers of the C13 check: responses with squared-weight and overlap measures,
alpha / only_larger spellings, exact squared bases from the survey."""
import copy
import itertools
from fractions import Fraction

from harness import gen
from harness.gen import SEL, OTH, MIS, fnum


# ------------------------------------------------------------------------------------
# extra measures
# ------------------------------------------------------------------------------------

def add_squared_weights(resp, survey, aliases):
    """`weighted_squared_count`: sum of w^2 per cell (same layout as the count measure)."""
    _shape, sq = gen.tabulate(survey, aliases, weight=True, value=lambda r: r["w"])
    resp["result"]["measures"]["weighted_squared_count"] = {
        "data": [fnum(x) for x in sq],
        "metadata": {"derived": True, "references": {},
                     "type": {"class": "numeric", "integer": False}},
        "n_missing": 0,
    }
    return resp


def overlap_tensors(survey, aliases, weighted, about=None):
    """(shape, overlap, valid_overlap) flat row-major tensors of shape cube_shape + (n_items,)
    for the MR variable `about` of the cube (default: its LAST variable): cell [.., b] counts the
    respondents of the cube cell (..) that selected item b of that MR (overlap) / have a
    non-missing item b (valid).  The extra axis always comes last, whichever dimension the MR is."""
    vs = [survey.var(a) for a in aliases]
    mr = vs[-1] if about is None else survey.var(about)
    assert mr.kind == "mr"
    n_items = len(mr.items)
    shape = tuple(itertools.chain.from_iterable(gen.var_shape(v) for v in vs)) + (n_items,)
    size = 1
    for s in shape:
        size *= s
    ov = [Fraction(0)] * size
    vo = [Fraction(0)] * size
    strides = []
    acc = 1
    for s in reversed(shape):
        strides.insert(0, acc)
        acc *= s
    for r in survey.resp:
        w = r["w"] if weighted else Fraction(1)
        contribs = [gen.contributions(v, r["ans"][v.alias]) for v in vs]
        colans = r["ans"][mr.alias]
        for combo in itertools.product(*contribs):
            idx = tuple(itertools.chain.from_iterable(combo))
            for b in range(n_items):
                off = sum(i * s for i, s in zip(idx + (b,), strides))
                if colans[b] == SEL:
                    ov[off] += w
                if colans[b] != MIS:
                    vo[off] += w
    return shape, ov, vo


def add_overlaps(resp, survey, aliases, weighted, about=None):
    """`overlap` / `valid_overlap` measures of the MR variable `about` (default: the columns MR).
    A client that always requests them gets them for an MR on the ROWS of an MR x CAT table too;
    only MR COLUMNS can overlap, so the library must then keep the ordinary two-proportion test."""
    _shape, ov, vo = overlap_tensors(survey, aliases, weighted, about)
    mr = survey.var(aliases[-1] if about is None else about)
    md = {"derived": True,
          "references": {"alias": mr.alias, "name": mr.name,
                         "subreferences": [{"alias": it["alias"], "name": it["name"]} for it in mr.items]},
          "type": {"class": "numeric", "integer": not weighted,
                   "subvariables": [it["subvar_id"] for it in mr.items]}}
    resp["result"]["measures"]["overlap"] = {"data": [fnum(x) for x in ov],
                                             "metadata": copy.deepcopy(md), "n_missing": 0}
    resp["result"]["measures"]["valid_overlap"] = {"data": [fnum(x) for x in vo],
                                                   "metadata": copy.deepcopy(md), "n_missing": 0}
    return resp


def put_items_to_subsamples(survey, alias, rng, first_share=None):
    """Per-item missingness of the MR `alias`: every item is put to its own random sub-sample of the
    respondents (share drawn per item from 0.3 .. 1.0; `first_share` fixes the one of item 0), the
    others get MIS for that item.  To be applied BEFORE the survey is tabulated.  Afterwards the
    items have different valid respondents, so every quantity that is "per row item" of an MR x MR
    table (column bases, selected / valid overlap bases, degrees of freedom) differs between the
    rows.  Returns the shares."""
    mr = survey.var(alias)
    assert mr.kind == "mr"
    shares = [rng.choice([0.3, 0.45, 0.6, 0.8, 1.0]) for _ in mr.items]
    if first_share is not None and shares:
        shares[0] = first_share
    for r in survey.resp:
        ans = r["ans"][alias]
        for i, sh in enumerate(shares):
            if rng.random() >= sh:
                ans[i] = MIS
    return shares


def overlap_bases_from_survey(survey, aliases, weighted):
    """Independent respondent-level computation of what the overlap test uses.

    Returns (S, N): lists (one per base row of the slice) of n_items x n_items Fraction
    matrices:  S[row][a][b] = weight of respondents (counted in the row's base) who selected
    both a and b, N[row][a][b] = ... for whom both a and b are non-missing.
    CAT x MR: the row's base is every respondent with a VALID row category (the same matrix
    for every row).  MR x MR: row item selected-or-other (non-missing)."""
    rowv = survey.var(aliases[-2])
    mr = survey.var(aliases[-1])
    n = len(mr.items)

    def mats(pred):
        S = [[Fraction(0)] * n for _ in range(n)]
        N = [[Fraction(0)] * n for _ in range(n)]
        for r in survey.resp:
            if not pred(r):
                continue
            w = r["w"] if weighted else Fraction(1)
            ans = r["ans"][mr.alias]
            for a in range(n):
                for b in range(n):
                    if ans[a] == SEL and ans[b] == SEL:
                        S[a][b] += w
                    if ans[a] != MIS and ans[b] != MIS:
                        N[a][b] += w
        return S, N

    if rowv.kind in ("cat", "cat_date"):
        valid = [k for k, c in enumerate(rowv.cats) if not c["missing"]]
        S, N = mats(lambda r: r["ans"][rowv.alias] in valid)
        return [S] * len(valid), [N] * len(valid)
    assert rowv.kind == "mr"
    Ss, Ns = [], []
    for i in range(len(rowv.items)):
        S, N = mats(lambda r, i=i: r["ans"][rowv.alias][i] != MIS)
        Ss.append(S)
        Ns.append(N)
    return Ss, Ns


# ------------------------------------------------------------------------------------
# alpha / only_larger spellings
# ------------------------------------------------------------------------------------

ALPHAS = [0.001, 0.01, 0.025, 0.05, 0.1, 0.2, 0.35, 0.5, 0.8, 0.95]


def random_pairwise_transform(rng, malformed_ok=True):
    """({"alpha":..., "only_larger":...} or None, aval_gallina, olval_gallina)"""
    d = {}
    r = rng.random()
    if r < 0.15:
        aval = "Av_falsy"
        sp = rng.choice(["absent", None, [], 0, 0.0, "", {}, False])
        if sp != "absent":
            d["alpha"] = sp
    elif r < 0.30:
        a = rng.choice(ALPHAS)
        d["alpha"] = a
        aval = "(Av_float %s)" % _q(a)
    elif r < 0.45:
        a = rng.choice(ALPHAS)
        d["alpha"] = [a]
        aval = "(Av_list [It_float %s])" % _q(a)
    elif r < 0.88 or not malformed_ok:
        a, b = rng.choice(ALPHAS), rng.choice(ALPHAS)
        lst = [a, b]
        items = ["It_float %s" % _q(a), "It_float %s" % _q(b)]
        if rng.random() < 0.2:
            extra = rng.choice([0.3, 7, "x", 1.5])
            lst.append(extra)
            items.append("It_float %s" % _q(extra) if isinstance(extra, float) else "It_other")
        d["alpha"] = lst
        aval = "(Av_list [%s])" % "; ".join(items)
    else:
        # malformed stream
        sp = rng.choice([1, "0.05", {"a": 1}, True, 1.0, 1.5, -0.2, [0.05, 1], [1.2], [0.05, "x"],
                         [2, 0.05], [0.0, 0.1], [0.05, 1.0]])
        d["alpha"] = sp
        aval = aval_of(sp)
    r = rng.random()
    if r < 0.35:
        ol = "Ol_absent"
    elif r < 0.70:
        d["only_larger"] = False
        ol = "Ol_false"
    elif r < 0.9:
        d["only_larger"] = True
        ol = "Ol_true"
    else:
        d["only_larger"] = rng.choice([0, None, "false", 1, []])
        ol = "Ol_other"
    return (d if d else None), aval, ol


def _q(x):
    fr = Fraction(x)
    return "(%d # %d)%%Q" % (fr.numerator, fr.denominator)


def aval_of(sp):
    """JSON value -> Gallina aval (mirrors the python truthiness / isinstance semantics)."""
    if isinstance(sp, bool):
        return "Av_other" if sp else "Av_falsy"
    if sp is None or sp == 0 or sp == "" or sp == [] or sp == {} or sp == ():
        return "Av_falsy"
    if isinstance(sp, float):
        return "(Av_float %s)" % _q(sp)
    if isinstance(sp, (list, tuple)):
        items = []
        for x in sp:
            if isinstance(x, float):
                items.append("It_float %s" % _q(x))
            else:
                items.append("It_other")
        return "(Av_list [%s])" % "; ".join(items)
    return "Av_other"


# ------------------------------------------------------------------------------------
# zero-variance boundary of the t statistics
# ------------------------------------------------------------------------------------
#
# Every t of C13 is  d / sqrt(V)  with V a SIGNED sum of terms:
#     column proportions test   V = a + b,  a = p (1 - p) / n,  b = p0 (1 - p0) / n0
#                               (a term is negative when its p is a difference subtotal
#                               outside [0, 1])
#     overlap test              V = (pa (1 - pa) + pb (1 - pb) + 2 pa pb - 2 pab) / df,  px = Sx / Nx
# float64 evaluates each TERM with a relative error of a few ulp (1 - p is exact or rounded once,
# products and quotients are rounded once), hence V with an absolute error of a few ulp of
#     S = sum of |terms|.
# When the terms cancel - |V| of the order 1e-16 * S or exactly 0 - the float V is a rounding
# residue of arbitrary sign, or exactly 0.0, while the exact V of the same inputs is another
# residue, or exactly 0:
#     exact   0/0 = NaN,  x/0 = inf,  x/residue ~ 1e17,  legacy sqrt(residue < 0) = NaN
#     float   0/residue = 0.0,  x/0.0 = inf,  ...
# All of these are "t at zero variance"; which one comes out is decided by IEEE rounding, a
# stated modelling gap (DESIGN 2.4: decisions within rounding of their threshold are skipped and
# counted).  RULE: a cell is a zero-variance boundary cell iff every input of V is finite,
# S > 0 and
#                 |V| <= BOUNDARY_REL * S          (BOUNDARY_REL = 1e-12)
# evaluated exactly (fractions) on the very values the model term is fed with.  1e-12 is four
# orders above the rounding noise (1e-16 S) and far below any non-cancelling V of the generated
# tables (the smallest ratio among the non-boundary cells is recorded in the evidence).  A sum
# whose terms are all of one sign (S = |V|: every table without difference subtotals on the
# column proportions paths) and an exact zero with S = 0 (p, p0 in {0, 1}: float64 gives exactly
# 0.0 too) never qualify.  Boundary cells are compared like every other cell (many agree: both
# sides 0/0 = NaN when every float operation happens to be exact); only a DISAGREEMENT at a
# boundary cell is excused - skipped and counted - and only if the reported t is still a
# zero-variance statistic (boundary_consistent).

BOUNDARY_REL = Fraction(1, 10 ** 12)
# what the implementation may still report at a boundary cell: with |V_float| <= ~1e-12 S the
# statistic is NaN, or has the sign of d and t^2 >= d^2 / (1e-12 S); checked with 3 orders slack
BOUNDARY_RESIDUAL_REL = Fraction(1, 10 ** 9)


def _finite(*xs):
    return all(isinstance(x, Fraction) for x in xs)


def prop_var_VS(p, n, p0, n0):
    """(V, S) of the column-proportions variance  p(1-p)/n + p0(1-p0)/n0  - exact; None when an
    input is not finite or a base is 0 (the model's x/0 / NaN rules apply, nothing to cancel)."""
    if not _finite(p, n, p0, n0) or n == 0 or n0 == 0:
        return None
    a, b = p * (1 - p) / n, p0 * (1 - p0) / n0
    return a + b, abs(a) + abs(b)


def overlap_var_VS(Sa, Sb, Sab, Na, Nb, Nab):
    """(V, S) of the overlap variance (pa(1-pa) + pb(1-pb) + 2 pa pb - 2 pab) / df,
    px = Sx / Nx, df = Na + Nb - Nab - exact; None when a quotient is undefined."""
    if not _finite(Sa, Sb, Sab, Na, Nb, Nab) or Na == 0 or Nb == 0 or Nab == 0:
        return None
    df = Na + Nb - Nab
    if df == 0:
        return None
    pa, pb, pab = Sa / Na, Sb / Nb, Sab / Nab
    terms = (pa * (1 - pa), pb * (1 - pb), 2 * pa * pb, -2 * pab)
    return sum(terms) / df, sum(abs(x) for x in terms) / abs(df)


def is_boundary(VS):
    """the rule above; VS = (V, S) or None"""
    if VS is None:
        return False
    V, S = VS
    return S > 0 and abs(V) <= BOUNDARY_REL * S


def boundary_cell(VS, d):
    """None for an ordinary cell, else {"S": S, "d": d}: what the residual check needs"""
    if not is_boundary(VS):
        return None
    return {"S": VS[1], "d": d if isinstance(d, Fraction) else None}


def boundary_consistent(t_impl, b):
    """A disagreement with the model at a boundary cell is excused only if the reported t is
    still a statistic at (float) zero variance: NaN, or - when d is known - of the sign of d
    with t^2 >= d^2 / (BOUNDARY_RESIDUAL_REL * S)  (d = 0: t = 0).  A variance that is clearly
    non-zero in the implementation (a dropped / extra term) fails this."""
    t = float("nan") if t_impl is None else float(t_impl)
    if t != t:
        return True
    d = b["d"]
    if d is None:
        return True
    if d == 0:
        return t == 0
    if (t > 0) != (d > 0) or t == 0:
        return False
    if t in (float("inf"), float("-inf")):
        return True
    return Fraction(t) ** 2 * BOUNDARY_RESIDUAL_REL * b["S"] >= d * d
