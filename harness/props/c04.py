# -*- coding: utf-8 -*-
"""C04 - Subtotals behave as merged categories; differences as signed merges.

Obligations: coq/Props/C04.v  (Spec/Merge.v, Model/SubtotalIds.v, Model/SubtotalRun.v + the
shared block models; proofs Proofs/Merge*.v).

(a) Correspondence.  The model is run inside Coq on the RAW insertion dicts / valid element ids
    of each dimension and on the BASE blocks (block [0][0]) of the implementation's own first-
    order quantities (weighted / unweighted counts, the six bases, sums), read back from the
    public API through the signed row_order() / column_order().  It predicts
      * which dicts are subtotals, their addend / subtrahend offsets, which are differences
        (vs. the library's _Subtotal objects, inserted_*_idxs, diff_*_idxs);
      * the inserted rows / columns / intersections of counts, unweighted counts, six bases,
        three proportions, three standard errors (squared), z-scores (signed square), sums,
        three shares of sum and of the NaN measures (means, medians, stddev, column index);
        for strands: counts, bases, table proportions, standard errors, sums, share, means.
(b) Relational oracle on the implementation alone.  For every subtotal WITHOUT subtrahends (up
    to 2 per dimension) the survey is MERGED at respondent level (Spec/Merge.v: the addends
    are recoded to one fresh category), re-tabulated, analysed WITHOUT that dimension's
    insertions and the merged category's vector is compared with the subtotal's vector for
    counts, bases, proportions, standard errors, MoE, z-scores, p-values, pairwise t / p,
    scale means, population estimates, sums and shares of sum, and (subtotal columns) pairwise_indices.
    Squared-weight stream (seeded change C04-9, which moved the effective column base
    (sum w)^2 / sum w^2 of the pairwise column tests into a measure whose block assembly SUMS the
    addends' effective bases for an inserted column): the main stream never put `weighted_squared_count`
    into a response, so the pairwise tests always ran on the unweighted base and the merge oracle never
    saw the effective-base path.  Added class: weighted CAT|MR x CAT surveys whose response carries the
    squared weights (c13_util.add_squared_weights, also on the merged survey), each column's respondents
    weighted from a palette of its own (the addends differ in sum w / sum w^2, so the effective base is
    visibly not additive), sum-only subtotals on the columns; the oracle reads pairwise_significance_t_stats
    / _p_vals with the subtotal column selected and with it tested against every body column, and
    pairwise_indices in both roles (modern accessors only: the legacy columns_squared_base is covered by
    finding C13-legacy-squared-base-first-row-mr).
(c) Property rules checked on the implementation alone: NaN measures, count of a difference in
    a response with valid counts, categorical-date several-term differences.
"""
import copy
import json
import math
import random
from fractions import Fraction

import numpy as np

from harness import core, gen, impl
from harness.core import g_bool, g_list, g_mat, g_nat, g_vec, g_Z, g_str
from harness.props import common_cases as cc
from harness.props import cube_util as cu
from harness.props import c13_util as c13u

PID = "C04"
IMPORTS = """From Coq Require Import QArith ZArith List Bool String.
From CC Require Import Base.XQ Base.Render Base.ListX Base.Ident Model.Subtotals Model.SubtotalIds Model.SubtotalRun.
Import ListNotations."""

KINDS_2D = [("cat", "cat"), ("cat", "cat"), ("cat", "cat"), ("cat", "cat_date"), ("cat_date", "cat"),
            ("cat_date", "cat_date"), ("cat", "mr"), ("mr", "cat"), ("cat_date", "mr"), ("mr", "cat_date"),
            ("ca", None), ("cat", "cat")]
KINDS_1D = ["cat", "cat", "cat_date", "cat_date", "mr"]
DIMKEYS = ("rows_dimension", "columns_dimension")
BLOCKNAMES = [["base", "inserted_columns"], ["inserted_rows", "intersections"]]
POP = 1000

# ------------------------------------------------------------------------------------
# generator
# ------------------------------------------------------------------------------------


def rand_insertions(rng, v, malformed_p=0.12):
    """Insertion list on categorical variable v: overlapping addends, stale / missing / repeated /
    wrongly typed ids, differences (also several terms), all anchors, with and without ids,
    plus a small stream of dicts that must be rejected by the gauntlet."""
    valid = gen.valid_cat_ids(v)
    missing = [c["id"] for c in v.cats if c["missing"]]
    out = []
    n = rng.choice([0, 1, 1, 2, 2, 3])
    used = rng.sample(range(1, 12), n)
    for k in range(n):
        pool = list(valid)
        if not pool:
            break
        pos = rng.sample(pool, rng.randint(1, min(3, len(pool))))
        r = rng.random()
        if r < 0.25:
            pos = pos + rng.sample(missing + [999, 31999], rng.randint(1, 2))     # stale / missing
        if rng.random() < 0.15:
            pos = pos + [pos[0]]                                                   # repeated id
        if rng.random() < 0.08:
            pos = pos + [str(pos[0]), None]                                        # wrong type
        rng.shuffle(pos)
        neg = []
        if rng.random() < 0.4:
            rest = [p for p in pool if p not in pos]
            if rng.random() < 0.15 or not rest:
                rest = pool                                                        # overlap with addends
            neg = rng.sample(rest, rng.randint(1, min(2, len(rest))))
            if rng.random() < 0.2:
                neg = neg + rng.sample(missing + [999], 1)
        elif rng.random() < 0.3:
            # kwargs.negative lists ONLY ids that are not valid elements (deleted categories,
            # categories flagged missing, a valid id written as a string): nothing is subtracted
            neg = phantom_negative(rng, valid, missing)
        if neg and any(x in valid for x in neg) and rng.random() < 0.18:
            # the mirror image (seeded change C04-5): kwargs.positive lists ONLY ids that are not valid
            # elements while the negative ids exist - the insertion is kept, nothing is added and the
            # subtrahends are subtracted (count = 0 - sum of the subtrahends)
            pos = phantom_negative(rng, valid, missing)
        r = rng.random()
        if r < 0.2:
            anchor = "top"
        elif r < 0.4:
            anchor = "bottom"
        elif r < 0.85:
            anchor = rng.choice(valid)
        else:
            anchor = rng.choice([999, None, "Top", str(valid[0])] + missing)
        d = {"function": "subtotal", "name": "%s_ins%d" % (v.alias, k), "anchor": anchor}
        style = rng.random()
        if style < 0.35 and not neg:
            d["args"] = pos
        elif style < 0.8:
            d["kwargs"] = {"positive": pos}
            if neg:
                d["kwargs"]["negative"] = neg
            if rng.random() < 0.3:
                d["args"] = rng.sample(pool, 1)       # ignored: kwargs.positive wins
        else:
            # empty kwargs.positive falls back to args; a difference with only negative terms
            d["kwargs"] = {"positive": [], "negative": neg} if neg else {"positive": []}
            if rng.random() < 0.8:
                d["args"] = pos
        if rng.random() < 0.6:
            d["id"] = used[k]
        out.append(d)
        if neg and not any(x in valid for x in neg) and rng.random() < 0.5:
            # the same subtotal written without the negative list, next to it
            out.append({"function": "subtotal", "name": "%s_twin%d" % (v.alias, k), "anchor": anchor,
                        "args": [x for x in pos if isinstance(x, int)]})
        if rng.random() < malformed_p:
            bad = rng.choice(["nondict", "function", "hide", "noname", "noanchor", "empty", "allstale"])
            if bad == "nondict":
                out.append(rng.choice([None, "subtotal", 7]))
            elif bad == "function":
                out.append(dict(d, function="heading", name="h"))
            elif bad == "hide":
                out.append(dict(d, hide=True, name="hidden"))
            elif bad == "noname":
                out.append({k2: x for k2, x in d.items() if k2 != "name"})
            elif bad == "noanchor":
                out.append({k2: x for k2, x in d.items() if k2 != "anchor"})
            elif bad == "empty":
                out.append({"function": "subtotal", "name": "e", "anchor": "top", "args": [],
                            "kwargs": {"positive": [], "negative": []}})
            else:
                out.append({"function": "subtotal", "name": "s", "anchor": "bottom",
                            "args": [999] + missing, "kwargs": {"negative": [31999]}})
    if rng.random() < 0.1 and out:
        out.append(dict(out[0], hide=False, name="again"))   # hide: False is not hidden
    return out


STALE_IDS = [999, 31999, 12345]


def phantom_negative(rng, valid, missing):
    """A non-empty kwargs.negative list without any valid element id."""
    flavour = rng.choice(["stale", "missing", "both", "stale", "missing", "both", "wrong-type"])
    if flavour in ("missing", "both") and not missing:
        flavour = "stale"
    if flavour == "stale":
        return rng.sample(STALE_IDS, rng.randint(1, 2))
    if flavour == "missing":
        return rng.sample(missing, rng.randint(1, min(2, len(missing))))
    if flavour == "both":
        return rng.sample(missing, 1) + rng.sample(STALE_IDS, 1)
    return [str(valid[0])] + rng.sample(STALE_IDS + missing, rng.randint(0, 1))


def py_valid_dict(d, valid):
    """the gauntlet of _Subtotals, for the coverage statistics only"""
    if not isinstance(d, dict) or d.get("function") != "subtotal" or d.get("hide") is True:
        return False
    if "anchor" not in d or "name" not in d:
        return False
    kw = d.get("kwargs", {})
    terms = list(kw.get("positive") or d.get("args", [])) + list(kw.get("negative", []))
    return any((not isinstance(x, (str, type(None)))) and x in valid for x in terms)


def phantom_flavours(ins_list, valid, missing):
    """['only-stale' | 'only-missing' | 'stale+missing'] of the valid dicts whose non-empty negative
    list contains no valid id"""
    out = []
    for d in ins_list or []:
        if not py_valid_dict(d, valid):
            continue
        neg = d.get("kwargs", {}).get("negative") or []
        if not neg or any(isinstance(x, int) and x in valid for x in neg):
            continue
        n_missing = sum(1 for x in neg if isinstance(x, int) and x in missing)
        out.append("only-missing" if n_missing == len(neg) else ("only-stale" if n_missing == 0 else "stale+missing"))
    return out


def gen_case(rng, k):
    strand = rng.random() < 0.22
    if strand:
        kinds = (rng.choice(KINDS_1D),)
    else:
        kinds = rng.choice(KINDS_2D)
    variables = []
    for kind, alias in zip(kinds, ("rowv", "colv")):
        if kind is None:
            continue
        variables.append(cc.make_var(rng, kind, alias, None))
    ins = {}
    for v in variables:
        if v.kind not in ("cat", "cat_date", "ca"):
            continue
        if rng.random() < 0.85:
            lst = rand_insertions(rng, v)
            where = rng.random()
            spec = {"view": None, "transforms": None}
            if where < 0.55:
                spec["view"] = lst
            elif where < 0.85:
                spec["transforms"] = lst
            else:
                spec["transforms"] = lst
                spec["view"] = rand_insertions(rng, v)     # overridden by the transforms
            if rng.random() < 0.05:
                spec["transforms"] = []                    # empty override: no subtotal at all
            ins[v.alias] = spec
    numeric = rng.random() < 0.45
    n = rng.randint(0, 40) if rng.random() < 0.95 else 0
    sv = gen.Survey(variables, n, rng, numvars=["x"] if numeric else [])
    measures = ["count"]
    valid_counts = False
    if numeric:
        measures += rng.sample(["mean", "sum", "stddev", "median"], rng.randint(1, 3))
        if "sum" not in measures and rng.random() < 0.5:
            measures.append("sum")
        valid_counts = rng.choice([False, True, "unweighted_only"])
    case = {"k": k, "survey": cu.survey_to_json(sv), "aliases": [v.alias for v in variables],
            "ins": ins, "measures": measures, "numvar": "x" if numeric else None,
            "valid_counts": valid_counts}
    return case


# per-column weight palettes of the squared-weight stream (dyadic, so every sum is exact in a double):
# sum w / sum w^2 of a column is 1/w for a constant weight w and moves with the spread otherwise, so
# two columns that draw from different palettes have different ratios
SQ_PALETTES = [
    [Fraction(1, 4)], [Fraction(1, 2)], [Fraction(1)], [Fraction(2)], [Fraction(1, 4), Fraction(1, 2)],
    [Fraction(1, 2), Fraction(1), Fraction(6)], [Fraction(1, 4), Fraction(8)], [Fraction(1), Fraction(3, 2), Fraction(2)],
    [Fraction(1, 8), Fraction(1, 4), Fraction(4)], [Fraction(0), Fraction(1), Fraction(5)],
]


def sum_only_insertions(rng, v, n_max=2):
    """1..n_max subtotals WITHOUT subtrahends over 2-3 valid categories of v (anchors / spellings vary)."""
    valid = gen.valid_cat_ids(v)
    out = []
    if len(valid) < 2:
        return out
    for k in range(rng.randint(1, n_max)):
        pos = rng.sample(valid, rng.randint(2, min(3, len(valid))))
        anchor = rng.choice(["top", "bottom", rng.choice(valid), rng.choice(valid)])
        d = {"function": "subtotal", "name": "%s_sum%d" % (v.alias, k), "anchor": anchor}
        if rng.random() < 0.5:
            d["args"] = pos
        else:
            d["kwargs"] = {"positive": pos}
        if rng.random() < 0.6:
            d["id"] = k + 1
        out.append(d)
    return out


def gen_sq_case(rng, k):
    """Squared-weight stream (seeded change C04-9): a WEIGHTED CAT x CAT / MR x CAT survey whose response
    also carries `weighted_squared_count` (the pairwise column tests then run on the effective base
    (sum w)^2 / sum w^2, which is not additive over the addends), sum-only subtotals on the COLUMNS,
    the respondents of each column weighted from that column's own palette."""
    rowv = gen.make_cat(rng, "rowv", n_valid=rng.randint(2, 3), numeric="partial") if rng.random() < 0.7 \
        else gen.make_mr(rng, "rowv", n_items=rng.randint(2, 3))
    colv = gen.make_cat(rng, "colv", n_valid=rng.randint(3, 5), numeric="partial")
    sv = gen.Survey([rowv, colv], rng.choice([24, 40, 60, 80]), rng, weighted=True)
    palettes = [rng.choice(SQ_PALETTES) for _ in colv.cats]
    if rng.random() < 0.85:
        # no two columns share a palette
        palettes = rng.sample(SQ_PALETTES, len(colv.cats))
    for r in sv.resp:
        r["w"] = rng.choice(palettes[r["ans"]["colv"]])
    ins = {}
    lst = sum_only_insertions(rng, colv)
    ins["colv"] = {"view": lst, "transforms": None} if rng.random() < 0.6 else {"view": None, "transforms": lst}
    if rowv.kind == "cat" and rng.random() < 0.4:
        ins["rowv"] = {"view": sum_only_insertions(rng, rowv, n_max=1), "transforms": None}
    return {"k": k, "survey": cu.survey_to_json(sv), "aliases": ["rowv", "colv"], "ins": ins,
            "measures": ["count"], "numvar": None, "valid_counts": False, "squared": True}


def replayable(case):
    return {k: v for k, v in case.items() if not k.startswith("_")}


def dim_alias(sv, aliases, axis):
    """(alias, role) of the variable behind rows (axis 0) / columns (axis 1) of the partition."""
    vs = [sv.var(a) for a in aliases]
    if len(vs) == 1 and vs[0].kind == "ca":
        return (vs[0].alias, "ca_items") if axis == 0 else (vs[0].alias, "ca_cats")
    v = vs[axis]
    return (v.alias, "mr_items" if v.kind == "mr" else "cat")


def build(case, sv=None, drop_ins=()):
    """-> (survey, response, transforms).  `drop_ins`: aliases whose insertions are removed."""
    sv = sv if sv is not None else cu.survey_from_json(case["survey"])
    transforms = {}
    ndim = 1 if (len(case["aliases"]) == 1 and sv.var(case["aliases"][0]).kind != "ca") else 2
    for axis in range(ndim):
        alias, role = dim_alias(sv, case["aliases"], axis)
        v = sv.var(alias)
        spec = case["ins"].get(alias)
        v.view_insertions = None
        if role in ("mr_items", "ca_items") or spec is None or alias in drop_ins:
            continue
        if spec.get("view") is not None:
            v.view_insertions = copy.deepcopy(spec["view"])
        if spec.get("transforms") is not None:
            transforms.setdefault(DIMKEYS[axis], {})["insertions"] = copy.deepcopy(spec["transforms"])
    resp = gen.cube_response(sv, case["aliases"], measures=tuple(case["measures"]),
                             numvar=case["numvar"], valid_counts=case["valid_counts"])
    if case.get("squared"):
        # sum of w^2 per cell, tabulated from the (possibly merged) survey like the weighted count
        c13u.add_squared_weights(resp, sv, case["aliases"])
    return sv, resp, (transforms or None)


# ------------------------------------------------------------------------------------
# Gallina
# ------------------------------------------------------------------------------------


class Unsupported(Exception):
    pass


def g_ident(x):
    if x is None:
        return "INone"
    if isinstance(x, bool) or isinstance(x, float):
        raise Unsupported(repr(x))
    if isinstance(x, int):
        return "(IInt %s)" % g_Z(x)
    if isinstance(x, str):
        return "(IStr %s)" % g_str(x)
    raise Unsupported(repr(x))


def g_idents(l):
    if l is None:
        return "[]"
    if not isinstance(l, list):
        raise Unsupported(repr(l))
    return g_list([g_ident(x) for x in l])


def g_insdict(d):
    if not isinstance(d, dict):
        return "(mkInsDict false false false false false [] [] [])"
    kw = d.get("kwargs", {})
    if not isinstance(kw, dict):
        raise Unsupported("kwargs")
    return "(mkInsDict true %s %s %s %s %s %s %s)" % (
        g_bool(d.get("function") == "subtotal"), g_bool(d.get("hide") is True),
        g_bool("anchor" in d), g_bool("name" in d),
        g_idents(kw.get("positive")), g_idents(d.get("args", [])), g_idents(kw.get("negative", [])))


def dim_ids(sv, alias, role):
    v = sv.var(alias)
    if role in ("mr_items", "ca_items"):
        return [it["id"] for it in v.items if not it.get("missing")]
    return [c["id"] for c in v.cats if not c["missing"]]


def g_dim(case, sv, axis, transforms):
    alias, role = dim_alias(sv, case["aliases"], axis)
    v = sv.var(alias)
    array = role in ("mr_items", "ca_items")
    tins = None
    if transforms and "insertions" in transforms.get(DIMKEYS[axis], {}):
        tins = transforms[DIMKEYS[axis]]["insertions"]
    vins = v.view_insertions or []
    if role == "ca_items":
        vins = []
    return "(mkDimIn %s %s %s %s %s)" % (
        g_bool(array), g_bool(v.kind == "cat_date" and not array),
        g_idents(dim_ids(sv, alias, role)),
        "None" if tins is None else "(Some %s)" % g_list([g_insdict(d) for d in tins]),
        g_list([g_insdict(d) for d in vins]))


# ------------------------------------------------------------------------------------
# implementation
# ------------------------------------------------------------------------------------

B2 = ["counts", "unweighted_counts", "row_weighted_bases", "column_weighted_bases", "table_weighted_bases",
      "row_unweighted_bases", "column_unweighted_bases", "table_unweighted_bases",
      "row_proportions", "column_proportions", "table_proportions",
      "row_std_err", "column_std_err", "table_std_err", "zscores"]
SUM2 = ["sums", "column_share_sum", "row_share_sum", "total_share_sum"]
NAN2 = ["means", "medians", "stddev", "column_index"]
META2 = ["row_order", "column_order", "inserted_row_idxs", "inserted_column_idxs", "diff_row_idxs",
         "diff_column_idxs"]
B1 = ["counts", "unweighted_counts", "weighted_bases", "unweighted_bases", "table_proportions",
      "table_proportion_stderrs"]
SUM1 = ["sums", "share_sum"]
NAN1 = ["means", "medians", "stddev"]
META1 = ["row_order", "inserted_row_idxs", "diff_row_idxs"]


def run_impl(resp, transforms):
    res = impl.guarded(lambda: impl.partition(resp, transforms, population=POP))
    if res[0] != "ok":
        return {"error": res}
    p = res[1]
    io = {"part": p, "ndim": p.ndim, "types": [str(t).split(".")[-1] for t in p.dimension_types]}
    names = (B1 + SUM1 + NAN1 + META1) if p.ndim == 1 else (B2 + SUM2 + NAN2 + META2)
    io["v"] = {n: impl.get(p, n) for n in names}
    r = impl.guarded(lambda: impl.subtotal_idxs(p))
    io["lib_subs"] = r[1] if r[0] == "ok" else None
    return io


def measures_present(case):
    return set(case["measures"])


def required_names(case, ndim):
    req = list(B1 + META1) if ndim == 1 else list(B2 + META2)
    if "sum" in case["measures"]:
        req += SUM1 if ndim == 1 else SUM2
    return req


def build_term(case, sv, transforms, io):
    """-> Gallina term or None (then io['skip'] says why)."""
    v = io["v"]
    req = required_names(case, io["ndim"])
    exc = {n: v[n] for n in req if v[n][0] != "ok"}
    if exc:
        io["skip"] = ("exception", exc)
        return None
    try:
        rd = g_dim(case, sv, 0, transforms)
        cd = g_dim(case, sv, 1, transforms) if io["ndim"] == 2 else None
    except Unsupported as e:
        io["skip"] = ("unsupported", str(e))
        return None
    if io["ndim"] == 1:
        alias, role = dim_alias(sv, case["aliases"], 0)
        n = len(dim_ids(sv, alias, role))
        ns = len(v["inserted_row_idxs"][1])
        io["dims"] = (n, ns)
        ro = v["row_order"][1]
        try:
            blk = {name: impl.blocks1d(v[name][1], ro, n, ns) for name in B1}
            for name in SUM1 + NAN1:
                if v[name][0] == "ok" and v[name][1] is not None:
                    blk[name] = impl.blocks1d(v[name][1], ro, n, ns)
        except Exception as e:  # noqa
            io["skip"] = ("blocks", repr(e))
            return None
        io["blk"] = blk
        t = "r_dim_rawneg %s ++ r_dim_subs %s ++ c04_strand %s %s %s %s %s" % (
            rd, rd, rd, g_vec(blk["counts"][0]), g_vec(blk["unweighted_counts"][0]),
            g_vec(blk["weighted_bases"][0]), g_vec(blk["unweighted_bases"][0]))
        if "sums" in blk:
            t += " ++ c04_strand_sums %s %s" % (rd, g_vec(blk["sums"][0]))
        t += " ++ c04_strand_nan %s" % rd
        return t
    ra, rr = dim_alias(sv, case["aliases"], 0)
    ca, cr = dim_alias(sv, case["aliases"], 1)
    nr, nc = len(dim_ids(sv, ra, rr)), len(dim_ids(sv, ca, cr))
    nrs, ncs = len(v["inserted_row_idxs"][1]), len(v["inserted_column_idxs"][1])
    io["dims"] = (nr, nrs, nc, ncs)
    ro, co = v["row_order"][1], v["column_order"][1]
    try:
        blk = {name: impl.blocks2d(v[name][1], ro, co, nr, nc, nrs, ncs) for name in B2}
        for name in SUM2 + NAN2:
            if v[name][0] == "ok" and v[name][1] is not None:
                blk[name] = impl.blocks2d(v[name][1], ro, co, nr, nc, nrs, ncs)
    except Exception as e:  # noqa
        io["skip"] = ("blocks", repr(e))
        return None
    io["blk"] = blk
    meas = case["_resp"]["result"]["measures"]
    dnw, dnu = "valid_count_weighted" in meas, "valid_count_unweighted" in meas
    base = lambda name: g_mat(blk[name][0][0])  # noqa
    t = "r_dim_rawneg %s ++ r_dim_rawneg %s ++ r_dim_subs %s ++ r_dim_subs %s ++ c04_slice %s %s %s %s %s %s %s %s %s %s %s %s %s %s" % (
        rd, cd, rd, cd, rd, cd, g_nat(nr), g_nat(nc), base("counts"), base("unweighted_counts"),
        base("row_weighted_bases"), base("column_weighted_bases"), base("table_weighted_bases"),
        base("row_unweighted_bases"), base("column_unweighted_bases"), base("table_unweighted_bases"),
        g_bool(dnw), g_bool(dnu))
    if "sums" in blk:
        t += " ++ c04_sums %s %s %s %s %s" % (rd, cd, g_nat(nr), g_nat(nc), base("sums"))
    t += " ++ c04_nan %s %s %s %s []" % (rd, cd, g_nat(nr), g_nat(nc))
    return t


# ------------------------------------------------------------------------------------
# comparison with the model
# ------------------------------------------------------------------------------------


def sq_signed(x):
    e = core.to_exact(x)
    if isinstance(e, str):
        return e
    return e * abs(e)


def sq(x):
    e = core.to_exact(x)
    if isinstance(e, str):
        return "inf" if e in ("inf", "-inf") else e
    return e * e


def cmp_block(target, model, how="plain"):
    """first differing cell or None.  how: plain | sq (impl**2, impl>=0) | zabs (impl*|impl|)"""
    if len(target) != len(model):
        return ("nrows", len(target), len(model))
    for i, (a, b) in enumerate(zip(target, model)):
        if len(a) != len(b):
            return ("ncols", i, len(a), len(b))
        for j, (x, y) in enumerate(zip(a, b)):
            if how == "sq":
                ok = core.close(sq(x), y, inf_sign=False) and not (isinstance(x, float) and x < 0)
            elif how == "zabs":
                ok = core.close(sq_signed(x), y, inf_sign=False)
            else:
                ok = core.close(x, y, inf_sign=False)
            if not ok:
                return (i, j, core.jsonable(x), core.jsonable(y))
    return None


def dec_dim_subs(d):
    subs = d.list(lambda: (d.nats(), d.nats()))
    diffs = d.list(d.bool)
    return subs, diffs


def check_ids(io, axis, msubs, mdiffs, fails):
    v = io["v"]
    ns_impl = len(v["inserted_row_idxs" if axis == 0 else "inserted_column_idxs"][1])
    which = "rows" if axis == 0 else "columns"
    if ns_impl != len(msubs):
        fails.append(("number of %s subtotals impl-vs-model" % which, {"impl": ns_impl, "model": len(msubs)},
                      {"measure": "subtotal_ids", "block": which}))
        return False
    if io["lib_subs"] is not None:
        lib = [(list(a), list(b)) for a, b in io["lib_subs"][axis]]
        if lib != [(list(a), list(b)) for a, b in msubs]:
            fails.append(("addend/subtrahend offsets of %s impl-vs-model" % which,
                          {"impl": lib, "model": msubs}, {"measure": "subtotal_ids", "block": which}))
            return False
    order = v["row_order" if axis == 0 else "column_order"][1]
    exp = sorted(dpos for dpos, r in enumerate(order) if r < 0 and mdiffs[int(r) + len(msubs)])
    got = sorted(int(x) for x in v["diff_row_idxs" if axis == 0 else "diff_column_idxs"][1])
    if exp != got:
        fails.append(("diff_%s_idxs impl-vs-model" % which, {"impl": got, "model": exp, "order": list(order)},
                      {"measure": "diff_idxs", "block": which}))
    ins_pos = sorted(dpos for dpos, r in enumerate(order) if r < 0)
    got_ins = sorted(int(x) for x in v["inserted_row_idxs" if axis == 0 else "inserted_column_idxs"][1])
    if ins_pos != got_ins:
        fails.append(("inserted_%s_idxs vs signed order" % which, {"impl": got_ins, "order": list(order)},
                      {"measure": "inserted_idxs", "block": which}))
    return True


def np_defective(counts):
    a = np.asarray(counts, dtype=float)
    if a.ndim != 2 or a.shape[0] == 0 or a.shape[1] == 0:
        return True
    return bool(np.linalg.matrix_rank(a) < 2)


def compare(case, io, toks, rep):
    fails = []
    d = core.Dec(toks)
    v, blk = io["v"], io["blk"]
    if io["ndim"] == 1:
        rawneg = [d.list(d.bool)]
        msubs, mdiffs = dec_dim_subs(d)
        io["msubs"] = [msubs]
        io["mdiffs"] = [mdiffs]
        io["phantom"] = [[rn and not df for rn, df in zip(rawneg[0], mdiffs)]]
        if not check_ids(io, 0, msubs, mdiffs, fails):
            return fails
        io["ids_ok"] = True
        for name, how in (("counts", "plain"), ("unweighted_counts", "plain"), ("weighted_bases", "plain"),
                          ("unweighted_bases", "plain"), ("table_proportions", "plain"),
                          ("table_proportion_stderrs", "sq")):
            m = d.vec()
            diff = cmp_block([blk[name][1]], [m], how)
            if diff is not None:
                fails.append(("strand %s.inserted_rows impl-vs-model" % name,
                              {"first_diff(_,k,impl,model)": diff, "subs": msubs, "types": io["types"]},
                              {"measure": name, "block": "inserted_rows", "part": "strand"}))
        if "sums" in blk:
            for name in SUM1:
                m = d.vec()
                diff = cmp_block([blk[name][1]], [m]) if name in blk else None
                if diff is not None:
                    fails.append(("strand %s.inserted_rows impl-vs-model" % name,
                                  {"first_diff(_,k,impl,model)": diff, "subs": msubs},
                                  {"measure": name, "block": "inserted_rows", "part": "strand"}))
        m = d.vec()
        for name in NAN1:
            if name in blk:
                diff = cmp_block([blk[name][1]], [m])
                if diff is not None:
                    fails.append(("strand %s of a subtotal is not NaN" % name, {"first_diff": diff},
                                  {"measure": name, "block": "inserted_rows", "part": "strand", "oracle": "nan"}))
        assert d.done()
        return fails
    rawneg = [d.list(d.bool), d.list(d.bool)]
    rsubs, rdiffs = dec_dim_subs(d)
    csubs, cdiffs = dec_dim_subs(d)
    io["msubs"] = [rsubs, csubs]
    io["mdiffs"] = [rdiffs, cdiffs]
    io["phantom"] = [[rn and not df for rn, df in zip(rawneg[0], rdiffs)],
                     [rn and not df for rn, df in zip(rawneg[1], cdiffs)]]
    ok = check_ids(io, 0, rsubs, rdiffs, fails)
    ok = check_ids(io, 1, csubs, cdiffs, fails) and ok
    if not ok:
        return fails
    io["ids_ok"] = True

    def three(name, how="plain", skip=False):
        for (a, b) in ((0, 1), (1, 0), (1, 1)):
            m = d.mat()
            if skip or name not in blk:
                continue
            target = blk[name][a][b]
            if not target or not target[0]:
                continue
            diff = cmp_block(target, m, how)
            if diff is not None:
                fails.append(("%s.%s impl-vs-model" % (name, BLOCKNAMES[a][b]),
                              {"first_diff(i,j,impl,model)": diff, "row_subs": rsubs, "col_subs": csubs,
                               "types": io["types"]},
                              {"measure": name, "block": BLOCKNAMES[a][b], "part": "slice"}))

    for name in B2[:11]:
        three(name)
    for name in ("row_std_err", "column_std_err", "table_std_err"):
        three(name, "sq")
    mdef = d.bool()
    zb = [[d.mat(), d.mat()], [d.mat(), d.mat()]]
    if mdef != np_defective(blk["counts"][0][0]):
        rep.cov["skipped_near_threshold"] += 1
    else:
        for a in range(2):
            for b in range(2):
                target = blk["zscores"][a][b]
                if not target or not target[0]:
                    continue
                diff = cmp_block(target, zb[a][b], "zabs")
                if diff is not None:
                    fails.append(("zscores.%s impl-vs-model" % BLOCKNAMES[a][b],
                                  {"first_diff(i,j,impl,model z|z|)": diff, "row_subs": rsubs, "col_subs": csubs},
                                  {"measure": "zscores", "block": BLOCKNAMES[a][b], "part": "slice"}))
    if "sums" in blk:
        for name in SUM2:
            three(name)
    nan = [(0, 1, d.mat()), (1, 0, d.mat()), (1, 1, d.mat())]
    for name in NAN2:
        if name not in blk:
            continue
        for a, b, m in nan:
            target = blk[name][a][b]
            if not target or not target[0]:
                continue
            diff = cmp_block(target, m)
            if diff is not None:
                fails.append(("%s of a subtotal is not NaN (%s)" % (name, BLOCKNAMES[a][b]), {"first_diff": diff},
                              {"measure": name, "block": BLOCKNAMES[a][b], "part": "slice", "oracle": "nan"}))
    assert d.done()
    return fails


# ------------------------------------------------------------------------------------
# (c) rules of the property text on the implementation alone
# ------------------------------------------------------------------------------------


def isnan(x):
    return isinstance(x, float) and math.isnan(x)


def property_rules(case, io, fails):
    meas = case["_resp"]["result"]["measures"]
    has_vc = "valid_count_weighted" in meas or "valid_count_unweighted" in meas
    blk = io["blk"]
    part = "strand" if io["ndim"] == 1 else "slice"
    for axis in range(io["ndim"]):
        subs, diffs = io["msubs"][axis], io["mdiffs"][axis]
        date = io["types"][axis] == "CAT_DATE"
        for k, (s, isd) in enumerate(zip(subs, diffs)):
            if not isd:
                continue

            def vector(name):
                if io["ndim"] == 1:
                    return [blk[name][1][k]]
                if axis == 0:
                    return list(blk[name][1][0][k]) + list(blk[name][1][1][k])
                return [r[k] for r in blk[name][0][1]] + [r[k] for r in blk[name][1][1]]

            if has_vc:
                for name in ("counts", "unweighted_counts"):
                    vec = vector(name)
                    if vec and not all(isnan(x) for x in vec):
                        fails.append(("%s of a difference is not NaN although the response carries valid counts" % name,
                                      {"axis": axis, "subtotal": k, "terms": s, "values": vec,
                                       "valid_count_measures": sorted(m for m in meas if m.startswith("valid_count"))},
                                      {"sig": "valid-counts-difference-count", "measure": name, "part": part,
                                       "weighted_valid_counts": "valid_count_weighted" in meas}))
            multi = len(s[0]) > 1 or len(s[1]) > 1
            if date and multi and len(s[0]) > 0:
                names = ["table_proportions"] if io["ndim"] == 1 else \
                    ["row_proportions", "column_proportions", "table_proportions"]
                for name in names:
                    vec = vector(name)
                    n_own = 1 if io["ndim"] == 1 else (io["dims"][2] if axis == 0 else io["dims"][0])
                    own, inter = vec[:n_own], vec[n_own:]
                    if name == "table_proportions" and part == "slice":
                        if vec and not all(isnan(x) for x in vec):
                            fails.append(("table_proportions of a several-term difference on a categorical-date dimension is not NaN",
                                          {"axis": axis, "subtotal": k, "terms": s, "values": vec},
                                          {"sig": "cat-date-multi-term-table-proportion", "measure": name, "part": part}))
                        continue
                    if own and not all(isnan(x) for x in own):
                        fails.append(("%s of a several-term difference on a categorical-date dimension is not NaN" % name,
                                      {"axis": axis, "subtotal": k, "terms": s, "values": own},
                                      {"measure": name, "part": part, "oracle": "cat-date-multi-term"}))
                    if inter and not all(isnan(x) for x in inter):
                        fails.append(("%s of a several-term categorical-date difference is not NaN at an intersection" % name,
                                      {"axis": axis, "subtotal": k, "terms": s, "values": inter},
                                      {"sig": "cat-date-difference-at-intersection", "measure": name, "part": part}))
            if io["ndim"] == 2 and not date:
                own = ("row" if axis == 0 else "column")
                for name in (own + "_weighted_bases", own + "_unweighted_bases", own + "_proportions"):
                    vec = vector(name)
                    if vec and not all(isnan(x) for x in vec):
                        fails.append(("%s of a difference (own direction) is not NaN" % name,
                                      {"axis": axis, "subtotal": k, "values": vec},
                                      {"measure": name, "part": part, "oracle": "difference-own-direction"}))
    if io["ndim"] == 2:
        for k, dk in enumerate(io["mdiffs"][0]):
            for l, dl in enumerate(io["mdiffs"][1]):
                if dk and dl:
                    for name in B2:
                        if name.startswith("table_") and name.endswith("_bases"):
                            continue      # the table base is one number for the whole table
                        x = blk[name][1][1][k][l]
                        if not isnan(x):
                            fails.append(("%s at difference x difference is not NaN" % name,
                                          {"row_subtotal": k, "col_subtotal": l, "value": x},
                                          {"measure": name, "part": part, "oracle": "diff-x-diff"}))


# ------------------------------------------------------------------------------------
# (b) relational oracle: subtotal == merged category
# ------------------------------------------------------------------------------------

O2 = ["counts", "unweighted_counts", "row_weighted_bases", "column_weighted_bases", "table_weighted_bases",
      "row_unweighted_bases", "column_unweighted_bases", "table_unweighted_bases",
      "row_proportions", "column_proportions", "table_proportions", "row_std_err", "column_std_err",
      "table_std_err", "row_proportions_moe", "column_proportions_moe", "table_proportions_moe",
      "population_counts", "population_counts_moe", "sums", "column_share_sum", "row_share_sum",
      "total_share_sum"]
OZ = ["zscores", "pvals"]
O1_ROWS = ["rows_margin", "rows_base", "rows_scale_mean", "rows_margin_proportion"]
O1_COLS = ["columns_margin", "columns_base", "columns_scale_mean", "columns_margin_proportion"]
OS = ["counts", "unweighted_counts", "weighted_bases", "unweighted_bases", "table_proportions",
      "table_proportion_stderrs", "table_proportion_moes", "table_proportion_stddevs",
      "population_counts", "population_counts_moe", "sums", "share_sum"]


def merged_survey(sv, alias, positions):
    sv2 = copy.deepcopy(sv)
    v = sv2.var(alias)
    new_id = max([c["id"] for c in v.cats] + [0]) + 1000
    cat = {"id": new_id, "missing": False, "name": "merged", "numeric_value": None}
    if v.kind == "cat_date":
        cat["date"] = "2031-01"
    v.cats.append(cat)
    m = len(v.cats) - 1
    for r in sv2.resp:
        a = r["ans"][alias]
        if v.kind == "ca":
            r["ans"][alias] = [m if x in positions else x for x in a]
        elif a in positions:
            r["ans"][alias] = m
    return sv2


def close_f(a, b):
    """two implementation floats"""
    if a is None or b is None:
        return a is None and b is None
    a, b = float(a), float(b)
    if math.isnan(a) or math.isnan(b):
        return math.isnan(a) and math.isnan(b)
    if math.isinf(a) or math.isinf(b):
        return a == b
    return abs(a - b) <= 1e-9 * max(1.0, abs(a), abs(b))


def vec_close(a, b):
    return len(a) == len(b) and all(close_f(x, y) for x, y in zip(a, b))


def z_shortcut(p):
    """None if the table is defective (every z-score NaN), else {(row_block, col_block): bool}: does
    that block of the z-scores take the all-equal NaN shortcut? (block 1 = insertions)"""
    try:
        c = np.asarray(p.counts, dtype=float)
        ro, co = list(p.row_order()), list(p.column_order())
        base = c[np.ix_([i for i, r in enumerate(ro) if r >= 0], [j for j, q in enumerate(co) if q >= 0])]
        if np_defective(base):
            return None
        t, r, k = (np.asarray(getattr(p, n), dtype=float) for n in
                   ("table_weighted_bases", "row_weighted_bases", "column_weighted_bases"))
        out = {}
        for rb, rows in enumerate(([i for i, x in enumerate(ro) if x >= 0], [i for i, x in enumerate(ro) if x < 0])):
            for cb, cols in enumerate(([j for j, x in enumerate(co) if x >= 0], [j for j, x in enumerate(co) if x < 0])):
                if not rows or not cols:
                    out[(rb, cb)] = True
                    continue
                ix = np.ix_(rows, cols)
                out[(rb, cb)] = bool(np.all(t[ix] == r[ix]) or np.all(t[ix] == k[ix]))
        return out
    except Exception:  # noqa
        return None


ALPHA = 0.05      # the default threshold (no case of this check carries transforms.pairwise_indices)


def addend_ratios_differ(sv, alias, positions):
    """Do the addend categories of a subtotal have different sum w / sum w^2 (coverage statistics)?"""
    ratios = set()
    for pos in positions:
        ws = [r["w"] for r in sv.resp if r["ans"][alias] == pos]
        s2 = sum(w * w for w in ws)
        if s2:
            ratios.add(sum(ws) / s2)
    return len(ratios) > 1


def pairwise_indices_vs_merged(p, q, order_p, order_q, dpos, qpos, n_valid, addends, mask, ctxbase, rep, fails,
                               squared):
    """`pairwise_indices` (default alpha, only_larger) of a subtotal COLUMN vs the merged category:
    which body columns (not addends) the subtotal column is significantly larger than, and in which body
    columns' sets the subtotal column appears.  Cells whose p-value sits on the threshold / whose
    t-statistic sits on zero are skipped, like rows the cat-date finding covers."""
    a, b = impl.get(p, "pairwise_indices"), impl.get(q, "pairwise_indices")
    ctx = {"oracle": "merge", "measure": "pairwise_indices", "part": "slice"}
    if a[0] != "ok" or b[0] != "ok":
        if a[0] != b[0]:
            fails.append(("merge oracle: pairwise_indices raises on one side", dict(ctxbase, a=a[:3], b=b[:3]), ctx))
        return
    ia, ib = a[1], b[1]
    if ia is None or ib is None:
        if (ia is None) != (ib is None):
            fails.append(("merge oracle: pairwise_indices is None on one side", dict(ctxbase), ctx))
        return
    nrows = len(order_p[0])
    if len(ia) != nrows or len(ib) != nrows:
        fails.append(("merge oracle: pairwise_indices has another number of rows than the slice",
                      dict(ctxbase, rows=nrows, subtotal_side=len(ia), merged_side=len(ib)), ctx))
        return
    others = [j for j in range(n_valid) if j not in addends]
    pos_p = {j: order_p[1].index(j) for j in others}
    pos_q = {j: order_q[1].index(j) for j in others}

    def settled(part, sel, row, col):
        """is the decision 'col in pairwise_indices[row][sel]' away from its thresholds?"""
        t, pv = impl.get(part, "pairwise_significance_t_stats", sel), impl.get(part, "pairwise_significance_p_vals", sel)
        if t[0] != "ok" or pv[0] != "ok":
            return False
        x, y = float(np.asarray(t[1], float)[row, col]), float(np.asarray(pv[1], float)[row, col])
        if math.isnan(x) or math.isnan(y):
            return True
        return abs(y - ALPHA) > 1e-9 and abs(x) > 1e-9

    compared = 0
    for i in range(nrows):
        if i < len(mask) and mask[i]:
            continue
        # (1) the subtotal column selected: the body columns it is significantly larger than
        got = sorted(j for j in others if pos_p[j] in tuple(ia[i][dpos]))
        exp = sorted(j for j in others if pos_q[j] in tuple(ib[i][qpos]))
        unsettled = [j for j in set(got) ^ set(exp)
                     if not (settled(p, dpos, i, pos_p[j]) and settled(q, qpos, i, pos_q[j]))]
        if unsettled:
            rep.cov["skipped_near_threshold"] += 1
        elif got != exp:
            fails.append(("merge oracle: pairwise_indices of the subtotal column != merged category",
                          dict(ctxbase, row=i, squared_weights=squared, subtotal_side_body_columns=got,
                               merged_side_body_columns=exp, subtotal_cell=[int(x) for x in ia[i][dpos]],
                               merged_cell=[int(x) for x in ib[i][qpos]]), ctx))
            return
        # (2) the subtotal column tested: does it appear in the set of body column j?
        for j in others:
            ga, gb = dpos in tuple(ia[i][pos_p[j]]), qpos in tuple(ib[i][pos_q[j]])
            if ga == gb:
                continue
            if not (settled(p, pos_p[j], i, dpos) and settled(q, pos_q[j], i, qpos)):
                rep.cov["skipped_near_threshold"] += 1
                continue
            fails.append(("merge oracle: pairwise_indices of body column %d lists the subtotal column, the merged "
                          "table does not (or the reverse)" % j,
                          dict(ctxbase, row=i, squared_weights=squared, body_column=j, subtotal_listed=ga,
                               merged_listed=gb), ctx))
            return
        compared += 1
    if compared:
        rep.dist("oracle_pairwise_indices_compared" + (":squared_weights" if squared else ""))


def oracle(case, sv, io, rep, fails, max_per_dim=2):
    p = io["part"]
    ndim = io["ndim"]
    for axis in range(ndim):
        alias, role = dim_alias(sv, case["aliases"], axis)
        if role in ("mr_items", "ca_items"):
            continue
        subs = io["msubs"][axis]
        cand = [k for k, s in enumerate(subs) if not s[1] and s[0]]
        # subtotals whose kwargs.negative lists only stale / missing ids come first: by the property
        # they are plain subtotals and the merged category is their oracle like for any other
        phantom = io.get("phantom", [[], []])[axis]
        cand.sort(key=lambda k: (not (k < len(phantom) and phantom[k]), k))
        for k in cand[:max_per_dim]:
            s = subs[k]
            if k < len(phantom) and phantom[k]:
                rep.dist("oracle_merges_of_phantom_negative_subtotal:" +
                         ("strand" if ndim == 1 else ("rows" if axis == 0 else "columns")))
            v = sv.var(alias)
            valid_pos = [n for n, c in enumerate(v.cats) if not c["missing"]]
            positions = [valid_pos[i] for i in s[0]]
            sv2 = merged_survey(sv, alias, positions)
            _, resp2, tr2 = build(case, sv2, drop_ins=(alias,))
            r2 = impl.guarded(lambda: impl.partition(resp2, tr2, population=POP))
            if r2[0] != "ok":
                fails.append(("merged survey: partition raises", {"exc": r2[1:]},
                              {"oracle": "merge", "measure": "partition"}))
                continue
            q = r2[1]
            n_valid = len(valid_pos)
            rep.dist("oracle_merges")
            ctxbase = {"axis": axis, "subtotal": k, "addend_offsets": s[0]}
            if ndim == 1:
                order = list(p.row_order())
                dpos = order.index(k - len(subs))
                qpos = list(q.row_order()).index(n_valid)
                for name in OS:
                    a, b = impl.get(p, name), impl.get(q, name)
                    if a[0] != "ok" or b[0] != "ok":
                        if name.startswith("population") and any(io["mdiffs"][0]):
                            rep.dist("oracle_skipped_strand_population_with_differences(C17 findings)")
                            continue
                        if (a[0] != "ok") != (b[0] != "ok") or a[1] != b[1]:
                            if name in ("sums", "share_sum") and "sum" not in case["measures"]:
                                continue
                            fails.append(("merge oracle: %s raises on one side" % name, dict(ctxbase, a=a[:2], b=b[:2]),
                                          {"oracle": "merge", "measure": name, "part": "strand"}))
                        continue
                    if a[1] is None or b[1] is None:
                        continue
                    x, y = np.asarray(a[1], float)[dpos], np.asarray(b[1], float)[qpos]
                    if not close_f(x, y):
                        fails.append(("merge oracle: strand %s of the subtotal != merged category" % name,
                                      dict(ctxbase, subtotal_value=x, merged_value=y),
                                      {"oracle": "merge", "measure": name, "part": "strand"}))
                continue
            # ---- slice ----
            order_p = [list(p.row_order()), list(p.column_order())]
            order_q = [list(q.row_order()), list(q.column_order())]
            dpos = order_p[axis].index(k - len(subs))
            qpos = order_q[axis].index(n_valid)
            other = 1 - axis
            if order_p[other] != order_q[other]:
                fails.append(("merge oracle: the other dimension's display order changed",
                              dict(ctxbase, a=order_p[other], b=order_q[other]), {"oracle": "merge", "measure": "order"}))
                continue

            def vec(part, name, pos, *args):
                r = impl.get(part, name, *args)
                if r[0] != "ok":
                    return r
                if r[1] is None:
                    return ("ok", None)
                m = np.asarray(r[1], float)
                if m.ndim == 2:
                    return ("ok", (m[pos, :] if axis == 0 else m[:, pos]).tolist())
                return ("ok", [float(m[pos])])

            # display positions (along the compared vector) that are DIFFERENCES of the other,
            # categorical-date, dimension: the code applies the wave rule to base cells only
            odiffs = io["mdiffs"][other]
            onsub = len(io["msubs"][other])
            date_other = io["types"][other] == "CAT_DATE"
            mask = [date_other and r < 0 and odiffs[int(r) + onsub] for r in order_p[other]]

            def mismatch(name, label, x, y, extra=None):
                if vec_close(x, y):
                    return
                bad = [i for i, (u, w) in enumerate(zip(x, y)) if not close_f(u, w)] if len(x) == len(y) else None
                ctx = {"oracle": "merge", "measure": name, "part": "slice"}
                if bad is not None and len(mask) == len(x) and all(mask[i] for i in bad):
                    ctx = {"sig": "cat-date-difference-at-intersection", "measure": name, "part": "slice"}
                fails.append(("merge oracle: %s of the subtotal != merged category" % label,
                              dict(ctxbase, subtotal_vector=x, merged_vector=y, **(extra or {})), ctx))

            def cmp(name, *args, tag=None, skip=()):
                a, b = vec(p, name, dpos, *args), vec(q, name, qpos, *args)
                label = tag or name
                if a[0] != "ok" or b[0] != "ok":
                    if a[0] != b[0]:
                        fails.append(("merge oracle: %s raises on one side" % label, dict(ctxbase, a=a[:3], b=b[:3]),
                                      {"oracle": "merge", "measure": name, "part": "slice"}))
                    return
                if a[1] is None or b[1] is None:
                    if (a[1] is None) != (b[1] is None):
                        fails.append(("merge oracle: %s is None on one side" % label, dict(ctxbase),
                                      {"oracle": "merge", "measure": name, "part": "slice"}))
                    return
                x, y = list(a[1]), list(b[1])
                for pos in skip:
                    if pos < len(x) and pos < len(y):
                        x[pos] = y[pos] = 0.0
                mismatch(name, label, x, y)

            for name in O2:
                if name in SUM2 and "sum" not in case["measures"]:
                    continue
                cmp(name)
            zp, zq = z_shortcut(p), z_shortcut(q)
            if zp is None or zq is None:
                rep.dist("oracle_zscore_skipped_defective_table")
            else:
                # positions along the vector whose block takes the all-equal shortcut on either side
                skip = []
                for pos, r in enumerate(order_p[other]):
                    ob = 1 if r < 0 else 0
                    bp = (1, ob) if axis == 0 else (ob, 1)
                    bq = (0, ob) if axis == 0 else (ob, 0)
                    if zp[bp] or zq[bq]:
                        skip.append(pos)
                if len(skip) == len(order_p[other]):
                    rep.dist("oracle_zscore_skipped_nan_shortcut")
                else:
                    rep.dist("oracle_zscore_compared")
                    for name in OZ:
                        cmp(name, skip=skip)
            # 1-D marginals of the merged dimension, at the subtotal
            names1 = O1_ROWS if axis == 0 else O1_COLS
            for name in names1:
                a, b = impl.get(p, name), impl.get(q, name)
                if a[0] != "ok" or b[0] != "ok":
                    if a[0] != b[0]:
                        fails.append(("merge oracle: %s raises on one side" % name, dict(ctxbase, a=a[:3], b=b[:3]),
                                      {"oracle": "merge", "measure": name, "part": "slice"}))
                    continue
                if a[1] is None or b[1] is None:
                    continue
                ma, mb = np.asarray(a[1], float), np.asarray(b[1], float)
                if ma.ndim != mb.ndim:
                    continue
                if ma.ndim == 1:
                    x, y = [float(ma[dpos])], [float(mb[qpos])]
                else:
                    x = (ma[dpos, :] if axis == 0 else ma[:, dpos]).tolist()
                    y = (mb[qpos, :] if axis == 0 else mb[:, qpos]).tolist()
                if name.endswith("margin_proportion") and ma.ndim == 2:
                    continue  # C03 finding F15 (2-D fall-back of the margin proportion)
                if not vec_close(x, y):
                    fails.append(("merge oracle: %s of the subtotal != merged category" % name,
                                  dict(ctxbase, subtotal_value=x, merged_value=y),
                                  {"oracle": "merge", "measure": name, "part": "slice"}))
            # pairwise column tests
            ncols_disp = len(order_p[1])
            if axis == 0:
                # the subtotal ROW inside the tests against every (display) column
                for cidx in range(min(ncols_disp, 3)):
                    for name in ("pairwise_significance_t_stats", "pairwise_significance_p_vals"):
                        cmp(name, cidx, tag="%s(%d)" % (name, cidx))
            else:
                # the subtotal COLUMN as the selected column and as a compared column
                for name in ("pairwise_significance_t_stats", "pairwise_significance_p_vals"):
                    a, b = impl.get(p, name, dpos), impl.get(q, name, qpos)
                    if a[0] != "ok" or b[0] != "ok":
                        if a[0] != b[0]:
                            fails.append(("merge oracle: %s(selected subtotal) raises on one side" % name,
                                          dict(ctxbase, a=a[:3], b=b[:3]), {"oracle": "merge", "measure": name, "part": "slice"}))
                        continue
                    ma, mb = np.asarray(a[1], float), np.asarray(b[1], float)
                    # compare on the BASE columns that are not addends (addend columns are empty after the merge)
                    for j in range(n_valid):
                        if j in s[0]:
                            continue
                        ca_, cb_ = ma[:, order_p[1].index(j)].tolist(), mb[:, order_q[1].index(j)].tolist()
                        if not vec_close(ca_, cb_):
                            mismatch(name, "%s with the subtotal column selected, column %d" % (name, j), ca_, cb_)
                            break
                    others = [j for j in range(n_valid) if j not in s[0]]
                    # the subtotal column TESTED against a selected body column (every one of them where the
                    # response carries squared weights: the effective base of the tested column is in play)
                    for j in others[:(4 if case.get("squared") else 1)]:
                        a, b = impl.get(p, name, order_p[1].index(j)), impl.get(q, name, order_q[1].index(j))
                        if a[0] == "ok" and b[0] == "ok":
                            ca_ = np.asarray(a[1], float)[:, dpos].tolist()
                            cb_ = np.asarray(b[1], float)[:, qpos].tolist()
                            mismatch(name, "%s of the subtotal column against column %d" % (name, j), ca_, cb_)
                        elif a[0] != b[0]:
                            fails.append(("merge oracle: %s(tested subtotal) raises on one side" % name,
                                          dict(ctxbase, a=a[:3], b=b[:3]), {"oracle": "merge", "measure": name, "part": "slice"}))
                if case.get("squared"):
                    rep.dist("oracle_pairwise_on_effective_base(squared weights):subtotal_column_selected_and_tested")
                    if addend_ratios_differ(sv, alias, positions):
                        rep.dist("oracle_pairwise_on_effective_base:addend_columns_differ_in_sum_w/sum_w2")
                pairwise_indices_vs_merged(p, q, order_p, order_q, dpos, qpos, n_valid, s[0], mask, ctxbase, rep, fails,
                                           bool(case.get("squared")))


# ------------------------------------------------------------------------------------
# (b') a subtotal whose negative ids are all stale / missing == the same subtotal without them
# ------------------------------------------------------------------------------------


def twin_check(case, io, rep, fails):
    """Theorem C04_phantom_negative_is_plain on the implementation alone: where the dimension also
    carries a plain subtotal with the same addends, EVERY measure of the two vectors is identical
    (population estimates, z-scores, p-values and margins included)."""
    p = io["part"]
    ndim = io["ndim"]
    for axis in range(ndim):
        subs = io["msubs"][axis]
        phantom = io.get("phantom", [[], []])[axis]
        for k, ph in enumerate(phantom):
            if not ph or subs[k][1] or not subs[k][0]:
                continue
            twins = [j for j, s in enumerate(subs) if j != k and not phantom[j] and s == subs[k]]
            if not twins:
                continue
            j = twins[0]
            where = "strand" if ndim == 1 else ("rows" if axis == 0 else "columns")
            rep.dist("phantom_negative_vs_plain_twin:" + where)
            order = list(p.row_order() if axis == 0 else p.column_order())
            pk, pj = order.index(k - len(subs)), order.index(j - len(subs))
            names = OS if ndim == 1 else (O2 + OZ + (O1_ROWS if axis == 0 else O1_COLS))
            for name in names:
                r = impl.get(p, name)
                if r[0] != "ok" or r[1] is None:
                    continue
                m = np.asarray(r[1], float)
                if m.ndim == 2:
                    x, y = (m[pk, :], m[pj, :]) if axis == 0 else (m[:, pk], m[:, pj])
                    x, y = x.tolist(), y.tolist()
                elif m.ndim == 1:
                    x, y = [float(m[pk])], [float(m[pj])]
                else:
                    continue
                if not vec_close(x, y):
                    fails.append(("%s of a subtotal whose negative ids are all stale / missing differs from "
                                  "the same subtotal without them" % name,
                                  {"axis": axis, "subtotal": k, "twin": j, "addend_offsets": subs[k][0],
                                   "subtotal_vector": x, "twin_vector": y},
                                  {"oracle": "phantom-twin", "measure": name,
                                   "part": "strand" if ndim == 1 else "slice"}))


# ------------------------------------------------------------------------------------
# driver
# ------------------------------------------------------------------------------------


def evaluate(cases, rep, tag="cases", do_oracle=True):
    prepared, terms = [], []
    for case in cases:
        sv, resp, transforms = build(case)
        case["_resp"] = resp
        io = run_impl(resp, transforms)
        if "error" in io:
            rep.count_case(replayable(case), False)
            rep.violation("impl-exception", replayable(case), {"exception": io["error"][1:]},
                          {"what": "partition raises"})
            continue
        t = build_term(case, sv, transforms, io)
        if t is None:
            rep.count_case(replayable(case), False)
            kind, detail = io["skip"]
            if kind == "unsupported":
                rep.dist("skipped_unsupported_literal")
                continue
            rep.violation("impl-exception" if kind == "exception" else "impl-vs-model", replayable(case),
                          {"what": kind, "detail": detail}, {"what": kind})
            continue
        prepared.append((case, sv, io))
        terms.append(t)
    results, coq_s = core.run_coq_cases(PID, IMPORTS, terms, tag=tag, shard=40) if terms else ([], 0.0)
    for (case, sv, io), toks in zip(prepared, results):
        fails = compare(case, io, toks, rep)
        have_ids = bool(io.get("ids_ok"))
        if have_ids:
            property_rules(case, io, fails)
            twin_check(case, io, rep, fails)
            if do_oracle:
                oracle(case, sv, io, rep, fails)
        # READ-ORDER LEG (common_cases.late_reads; every third case): every subtotal output read after
        # every other public read of a second partition is the one of the fresh partition compared above
        if int(case.get("k", 0)) % 3 == 0:
            from harness.props import common_cases as cc
            population, late = cc.late_reads({"response": case["_resp"], "transforms": build(case)[2],
                                              "k": case.get("k", 0)}, list(io["v"]), io["v"])
            rep.dist("late-reads:" + ("strand" if io["ndim"] == 1 else "slice"))
            for n, a, b, culprits in late[:1]:
                fails.append(("%s depends on what was read before" % n,
                              {"fresh": a, "after_other_reads": b, "population": population,
                               "single_earlier_reads_that_change_it": culprits},
                              {"measure": n, "oracle": "order_independent"}))
        nsub = sum(len(m) for m in io.get("msubs", []))
        nt = nsub > 0 and all(x > 0 for x in (io["dims"][0::2]))
        rep.count_case(replayable(case), nt)
        rep.dist("x".join(io["types"]))
        rep.dist("subtotals=%d" % min(nsub, 4))
        if any(any(dd) for dd in io.get("mdiffs", [])):
            rep.dist("has_difference")
        if io["ndim"] == 2 and io["dims"][1] and io["dims"][3]:
            rep.dist("has_intersections")
        if case["valid_counts"]:
            rep.dist("valid_counts=%s" % case["valid_counts"])
        if case.get("squared"):
            rep.dist("squared_weights(weighted_squared_count in the response, per-column weight palettes, "
                     "sum-only column subtotals)")
        for alias, spec in case["ins"].items():
            rep.dist("insertions_in_" + ("transforms" if spec.get("transforms") is not None else "view"))
        for axis, ph in enumerate(io.get("phantom", [])):
            if any(ph):
                where = "strand" if io["ndim"] == 1 else ("rows" if axis == 0 else "columns")
                rep.dist("negative_ids_all_stale_or_missing:" + where, sum(1 for x in ph if x))
                alias, role = dim_alias(sv, case["aliases"], axis)
                spec = case["ins"].get(alias) or {}
                eff = spec.get("transforms") if spec.get("transforms") is not None else spec.get("view")
                rep.dist("negative_ids_all_stale_or_missing:in_" +
                         ("transforms" if spec.get("transforms") is not None else "view"))
                v = sv.var(alias)
                valid_ids = [c["id"] for c in v.cats if not c["missing"]]
                missing_ids = [c["id"] for c in v.cats if c["missing"]]
                for fl in phantom_flavours(eff, valid_ids, missing_ids):
                    rep.dist("negative_ids:" + fl)
        if nt:
            rep.sample({"types": io["types"], "dims": io["dims"], "subs": io.get("msubs"), "ins": case["ins"]})
        for what, detail, ctx in fails:
            kind = "impl-vs-model" if "impl-vs-model" in what else "impl-vs-property"
            rep.violation(kind, replayable(case), dict(detail, what=what),
                          dict(ctx, types="x".join(io["types"])))
    return coq_s, len(terms)


def run(tier, seed):
    rep = core.Report(PID, tier, seed)
    ob = core.obligations_gate(rep, PID)
    n_cases = 260 if tier == "quick" else 3600
    rng = random.Random(seed)
    cases = [gen_case(rng, k) for k in range(n_cases)]
    # squared-weight stream (drawn after the main stream, which is therefore unchanged)
    n_sq = 40 if tier == "quick" else 400
    cases += [gen_sq_case(rng, n_cases + k) for k in range(n_sq)]
    coq_s, nterms = evaluate(cases, rep)
    rep.cov["rule"] = (
        "random.Random(seed): surveys (0-40 respondents, dyadic weights incl. 0, missing categories anywhere, MR "
        "per-item missingness) tabulated to CAT|CAT_DATE x CAT|CAT_DATE|MR slices (both orientations), CA slices and "
        "CAT|CAT_DATE|MR strands; 0-3 insertions per categorical dimension on the view and/or in the transforms "
        "(override, empty override): overlapping / repeated / stale / missing-category / str / None ids, args vs "
        "kwargs.positive, differences with 1-2 terms per side (also overlapping the addends, only-negative), "
        "~20% of the insertions with a kwargs.negative that lists ONLY stale ids / ONLY ids flagged missing / both / "
        "a valid id as a string (nothing to subtract: a plain subtotal), half of them next to the same subtotal "
        "written without the negative list, anchors "
        "top / bottom / valid id / stale / None / odd spelling, with and without ids, ~12% dicts the gauntlet must "
        "reject (non-dict, other function, hide, no name / anchor, empty, all stale); optional numeric measures "
        "(mean / sum / stddev / median) with no / both / unweighted-only valid counts; non-trivial = at least one "
        "valid subtotal on a non-empty table; distinct by content hash.  PLUS the squared-weight stream (40 quick / "
        "400 thorough): weighted CAT|MR x CAT surveys of 24-80 respondents whose response also carries "
        "weighted_squared_count, every column's respondents weighted from that column's own dyadic palette (so "
        "sum w / sum w^2 differs between the addends), 1-2 sum-only subtotals of 2-3 addends on the columns (view or "
        "transforms), 40% also one on categorical rows; merge oracle incl. pairwise t / p (subtotal column selected, "
        "and tested against every body column) and pairwise_indices")
    rep.cov["coq_eval_seconds"] = round(coq_s, 2)
    rep.cov["model_terms_evaluated"] = nterms
    rep.assumptions = [
        "base blocks ([0][0]) fed to the model are the implementation's own public values (owned by C01/C02/C15)",
        "z-scores are compared only where the exact rank test of the model and numpy's matrix_rank agree",
        "merge oracle for z-scores / p-values only where neither table takes the defective / all-equal NaN shortcut",
        "the library's Dimension.subtotals (private path partition._dimensions) is read only to compare offsets; "
        "the number of subtotals and the differences are also checked through inserted_*_idxs / diff_*_idxs",
    ]
    return rep.finish("proof", ob, trusted_base=core.TRUSTED_BASE_COMMON + [
        _dimension_trusted_base(),
        "Model/SubtotalIds.v, Model/Subtotals.v, Model/SubtotalRun.v and the base-block builders of "
        "Model/Proportions.v are hand-written; tied to dimension.py (_Subtotals, _Subtotal), matrix/subtotals.py, "
        "stripe/insertion.py and the block code of matrix/measure.py / stripe/measure.py by this correspondence run",
        "harness/gen.py tabulates the merged survey for the relational oracle (validated against Spec/Survey.v "
        "tabulate by C01)"])


def replay(path):
    d = json.load(open(path))
    case = d["violation"]["case"]
    rep = core.Report(PID, "quick", d.get("seed", 0))
    evaluate([case], rep, tag="replay")
    for v in rep.violations:
        print("REPLAY still fails:", json.dumps(v["detail"])[:700])
    for fid, n in rep.known.items():
        print("REPLAY still fails (known finding %s): %d" % (fid, n))
    if not rep.violations and not rep.known:
        print("REPLAY: no longer fails")
    return 1 if (rep.violations or rep.known) else 0


def _dimension_trusted_base():
    try:
        from harness.translate import x_dimension
        return x_dimension.TRUSTED_BASE
    except Exception:
        return "dimension translator harness/translate/x_dimension.py not importable"
