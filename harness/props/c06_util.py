# -*- coding: utf-8 -*-
"""Helpers of the C06 check: snapshots of EVERY public attribute of a cube partition (by
introspection), tolerant comparison of two snapshots, restriction of a respondent-level
survey to the members of a table element, and the generators of the single-cube and
multi-cube cases."""
import copy
import enum
import inspect
import math
from fractions import Fraction

import numpy as np

from harness import core, gen, impl
from harness.props import cube_util as cu

SEL, OTH, MIS = gen.SEL, gen.OTH, gen.MIS


# ------------------------------------------------------------------------------------
# snapshots
# ------------------------------------------------------------------------------------

def public_names(part):
    return [n for n in dir(type(part)) if not n.startswith("_") and n != "factory"]


def canon(x, depth=0):
    """JSON-like canonical form of a public value; floats stay floats."""
    if x is None or isinstance(x, (bool, str)):
        return x
    if isinstance(x, enum.Enum):
        return "enum:" + x.name
    if isinstance(x, (np.bool_,)):
        return bool(x)
    if isinstance(x, (int, np.integer)):
        return float(x)
    if isinstance(x, (float, np.floating)):
        return float(x)
    if isinstance(x, np.ma.MaskedArray):
        return {"masked": canon(np.ma.getdata(x)), "mask": canon(np.ma.getmaskarray(x))}
    if isinstance(x, np.ndarray):
        if x.dtype == object:
            return [canon(v, depth + 1) for v in x.tolist()]
        if x.dtype.kind in "US":
            return x.tolist()
        if x.dtype.kind == "b":
            return x.tolist()
        return x.astype(float).tolist()
    if isinstance(x, (list, tuple)):
        return [canon(v, depth + 1) for v in x]
    if isinstance(x, (set, frozenset)):
        return sorted((canon(v, depth + 1) for v in x), key=repr)
    if isinstance(x, dict):
        return {str(k): canon(v, depth + 1) for k, v in sorted(x.items(), key=lambda kv: str(kv[0]))}
    if isinstance(x, Fraction):
        return float(x)
    # library objects: take their public array-valued attributes (pairwise significance ...)
    if depth < 2:
        out = {"__type__": type(x).__name__}
        for n in dir(type(x)):
            if n.startswith("_"):
                continue
            a = inspect.getattr_static(type(x), n, None)
            if type(a).__name__ not in ("lazyproperty", "property"):
                continue
            r = impl.get(x, n)
            out[n] = canon(r[1], depth + 1) if r[0] == "ok" else ["exc", r[1]]
        return out
    return "obj:" + type(x).__name__


def snapshot(part, names=None):
    """{name: ['ok', canonical value] | ['exc', ExceptionType]} for every public attribute;
    methods taking a column index are called for every column, order methods with defaults."""
    out = {}
    names = public_names(part) if names is None else names
    ncols = None
    for n in names:
        a = inspect.getattr_static(type(part), n, None)
        kind = type(a).__name__
        if kind in ("lazyproperty", "property"):
            r = impl.get(part, n)
            out[n] = ["ok", canon(r[1])] if r[0] == "ok" else ["exc", r[1]]
        elif callable(a) and kind == "function":
            params = [p for p in inspect.signature(a).parameters.values() if p.name != "self"]
            if all(p.default is not inspect.Parameter.empty for p in params):
                r = impl.get(part, n)
                out[n] = ["ok", canon(r[1])] if r[0] == "ok" else ["exc", r[1]]
            elif [p.name for p in params] == ["column_idx"]:
                if ncols is None:
                    rs = impl.get(part, "shape")
                    ncols = rs[1][1] if rs[0] == "ok" and len(rs[1]) == 2 else 0
                for j in range(min(ncols, 4)):
                    r = impl.guarded(lambda j=j: getattr(part, n)(j))
                    out["%s(%d)" % (n, j)] = (["ok", canon(r[1])] if r[0] == "ok"
                                              else ["exc", r[1]])
    return out


def _num_close(a, b, tol=1e-9):
    if isinstance(a, float) and isinstance(b, float):
        if math.isnan(a) or math.isnan(b):
            return math.isnan(a) and math.isnan(b)
        if math.isinf(a) or math.isinf(b):
            return a == b
        return abs(a - b) <= tol * max(1.0, abs(a), abs(b))
    return a == b


def same(a, b):
    if isinstance(a, float) or isinstance(b, float):
        if isinstance(a, bool) or isinstance(b, bool):
            return a == b
        return isinstance(a, float) and isinstance(b, float) and _num_close(a, b)
    if isinstance(a, list) and isinstance(b, list):
        return len(a) == len(b) and all(same(x, y) for x, y in zip(a, b))
    if isinstance(a, dict) and isinstance(b, dict):
        return a.keys() == b.keys() and all(same(a[k], b[k]) for k in a)
    return a == b


def diff_snapshots(sa, sb, skip=()):
    """names whose values differ -> list of (name, a, b)"""
    out = []
    for n in sorted(set(sa) | set(sb)):
        base = n.split("(")[0]
        if base in skip:
            continue
        if n not in sa or n not in sb:
            out.append((n, sa.get(n), sb.get(n)))
        elif not same(sa[n], sb[n]):
            out.append((n, sa[n], sb[n]))
    return out


def short(x, n=300):
    s = repr(x)
    return s if len(s) <= n else s[:n] + "..."


# ------------------------------------------------------------------------------------
# surveys: restriction / sub-variable
# ------------------------------------------------------------------------------------

def clone_survey(sv, resp=None, vars_=None):
    out = cu._Survey()
    out.vars = copy.deepcopy(sv.vars if vars_ is None else vars_)
    out.weighted = sv.weighted
    out.numvars = list(sv.numvars)
    out.resp = copy.deepcopy(sv.resp if resp is None else resp)
    return out


def valid_positions_of(v):
    if v.kind in ("cat", "cat_date"):
        return [n for n, c in enumerate(v.cats) if not c["missing"]]
    if v.kind in ("mr", "ca"):
        return [n for n, it in enumerate(v.items) if not it.get("missing", False)]
    return [n for n, e in enumerate(v.elements) if not e["missing"]]


def restrict(sv, alias, k):
    """respondents who belong to the k-th valid element of variable `alias`
    (categorical: answered that category; MR: selected that item)."""
    v = sv.var(alias)
    pos = valid_positions_of(v)[k]
    if v.kind == "mr":
        keep = [r for r in sv.resp if r["ans"][alias][pos] == SEL]
    else:
        keep = [r for r in sv.resp if r["ans"][alias] == pos]
    return clone_survey(sv, resp=keep)


def subvar_survey(sv, alias, k):
    """the categorical-array variable `alias` replaced by its k-th valid sub-variable (a
    categorical variable with the array's categories, alias and name)."""
    v = sv.var(alias)
    pos = valid_positions_of(v)[k]
    newv = gen.Var(kind="cat", alias=v.alias, name=v.name, cats=copy.deepcopy(v.cats))
    newv.view_insertions = copy.deepcopy(v.view_insertions)
    newv.description = v.description
    vars_ = [newv if x.alias == alias else x for x in sv.vars]
    out = clone_survey(sv, vars_=vars_)
    for r in out.resp:
        r["ans"][alias] = r["ans"][alias][pos]
    return out


def n_valid(v):
    return len(valid_positions_of(v))


# ------------------------------------------------------------------------------------
# responses
# ------------------------------------------------------------------------------------

def response(sv, aliases, meas):
    """Crunch response of the cube over `aliases` with the measure set `meas`
    (dict: measures, numvar, valid_counts)."""
    return gen.cube_response(sv, aliases, measures=tuple(meas["measures"]), numvar=meas["numvar"],
                             valid_counts=meas["valid_counts"])


def pick_measures(rng, numeric):
    if not numeric:
        return {"measures": ["count"], "numvar": None, "valid_counts": False}
    ms = ["count"] + rng.sample(["mean", "sum", "stddev", "median"], rng.randint(1, 2))
    return {"measures": ms, "numvar": "x",
            "valid_counts": rng.choice([False, False, True, "unweighted_only"])}
