# -*- coding: utf-8 -*-
"""C12 - Residual z-scores and p-values are adjusted standardized residuals.

Obligations: coq/Props/C12.v (model coq/Model/Zscore.v).

Correspondence (local step): the implementation's own public weighted counts and table / row /
column weighted bases (read from a run without display transforms and split into the four
payload blocks) are fed to the model `zscores_block`; the model's z*|z| is compared with
zscores*|zscores| of the implementation (in the display order of the run WITH order / hide
transforms); p-values are recomputed with scipy from the model's exact z^2 and compared with
`pvals`; `residual_test_stats` must be the stack of both.
Oracles on the implementation alone: z^2 == Pearson chi-square on every 2x2 CAT x CAT table
with non-zero margins; exactly rank-deficient / empty tables are NaN everywhere.
Streams added after the second seeding round (gen_special_stream): (A) same-share tables - a
subtotal that holds the same dyadic share of every row (column) of a rank >= 2 table, so that a
whole non-empty block of z-scores is EXACTLY 0 and its p-values must be 2(1 - Phi(0)) = 1;
(B) population-projected magnitudes (table base 1e8 .. 1e10, integers exact in float64) where a
residual is tiny relative to the expected count yet statistically real; the float64 cancellation
rule (CANCEL_COND) says which of those cells are compared and which are skipped and counted.
"""
import json
import math
import random
from fractions import Fraction

import numpy as np
from scipy.stats import norm

from harness import core, gen, impl
from harness.core import g_mat
from harness.props import c12_util as U

PID = "C12"
# a table counts as clearly of rank >= 2 when its largest 2x2 minor is >= RANK_FULL_REL * max|entry|^2
# (c12_util.rank_class: sigma_2 / sigma_1 is then >= 1.5e-11, numpy's rank tolerance is ~1e-15)
RANK_FULL_REL = Fraction(1, 10 ** 9)
IMPORTS = """From Coq Require Import QArith ZArith List Bool.
From CC Require Import Base.XQ Base.Render Base.ListX Model.Zscore.
Import ListNotations."""

NAMES_A = ["counts", "table_weighted_bases", "row_weighted_bases", "column_weighted_bases",
           "zscores", "pvals", "residual_test_stats", "row_order", "column_order"]
NAMES_B = ["zscores", "pvals", "residual_test_stats", "row_order", "column_order"]


# ------------------------------------------------------------------------------------
# generator
# ------------------------------------------------------------------------------------

ZERO_BLOCK_SHAPES = ("zero_block_columns", "zero_block_rows", "zero_block_both")
LARGE_SHAPES = ("large_near_proportional", "large_random", "large_survey", "large_dominant_margin")
BLOCK_NAMES = (("base", "inserted_columns"), ("inserted_rows", "intersections"))
# a cell whose expected count exceeds CANCEL_COND times its residual |count - expected| (both
# exact, from the values the model is fed with) is dominated by float64 cancellation: the
# implementation's expected count fl(fl(r k) / t) carries a relative error of up to 2 ulp, i.e. the
# residual an absolute error of 2.2e-16 * expected, and z*|z| a relative error of 4.4e-16 * cond -
# above the comparison's 1e-9 from cond = 2e6 on.  Such cells are skipped AND counted.
CANCEL_COND = 10 ** 6


def _subtotal(v, name, positions, anchor):
    ids = U.element_ids(v)
    return {"function": "subtotal", "name": name, "anchor": anchor, "args": [ids[p] for p in positions]}


def gen_special_stream(rng, k, shape):
    """the two streams added for the blind spots found by seeded changes: (A) a whole block of
    z-scores that is exactly 0, (B) population-projected magnitudes"""
    transforms = None
    if shape in ZERO_BLOCK_SHAPES:
        nr, nc = rng.randint(2, 4), rng.randint(3, 5)
        table, A, rest = U.zero_block_table(rng, nr, nc)
        flip = shape == "zero_block_rows" or (shape == "zero_block_both" and rng.random() < 0.5)
        if flip:
            table = [list(r) for r in zip(*table)]
        rowv = gen.make_cat(rng, "rowv", n_valid=len(table))
        colv = gen.make_cat(rng, "colv", n_valid=len(table[0]))
        pv, ov = (rowv, colv) if flip else (colv, rowv)
        anchors = ["top", "bottom"] + U.element_ids(pv)
        pv.view_insertions = [_subtotal(pv, "%s_same_share" % pv.alias, A, rng.choice(anchors))]
        if rng.random() < 0.4:
            # the complement holds the share 1 - s of every row: exactly 0 as well
            pv.view_insertions.append(_subtotal(pv, "%s_complement" % pv.alias, rest, rng.choice(anchors)))
        if shape == "zero_block_both":
            # any subtotal on the other dimension: its intersection with the same-share subtotal is
            # (sum of rows) x (same share) - exactly 0 too
            n_o = len(U.element_ids(ov))
            pos = sorted(rng.sample(range(n_o), rng.randint(1, n_o)))
            ov.view_insertions = [_subtotal(ov, "%s_sub" % ov.alias, pos, rng.choice(["top", "bottom"]))]
        w = None if rng.random() < 0.5 else Fraction(rng.randint(1, 12), 4)
        sv = U.survey_from_table(rng, rowv, colv, table, weight=w)
        pair = ("cat", "cat")
    elif shape == "big_table":
        # more than a thousand cells (after seeded change C12-7: |z| taken IN PLACE on the cached z-score
        # block, only for blocks above 1000 cells, when the p-values are read first)
        nr, nc = rng.randint(34, 40), rng.randint(28, 32)
        rowv = gen.make_cat(rng, "rowv", n_valid=nr)
        colv = gen.make_cat(rng, "colv", n_valid=nc)
        table = [[rng.choice([0, 1, 1, 2, 3]) for _ in range(nc)] for _ in range(nr)]
        sv = U.survey_from_table(rng, rowv, colv, table, weight=None)
        pair = ("cat", "cat")
    else:
        if shape == "large_survey":
            pair = rng.choice([("cat", "cat"), ("mr", "cat"), ("cat", "mr"), ("mr", "mr")])
            nrv, ncv = rng.randint(2, 4), rng.randint(2, 4)
            rowv = gen.make_mr(rng, "rowv", n_items=nrv) if pair[0] == "mr" else gen.make_cat(rng, "rowv", n_valid=nrv)
            colv = gen.make_mr(rng, "colv", n_items=ncv) if pair[1] == "mr" else gen.make_cat(rng, "colv", n_valid=ncv)
        else:
            pair = ("cat", "cat")
            rowv = gen.make_cat(rng, "rowv", n_valid=rng.randint(2, 4))
            colv = gen.make_cat(rng, "colv", n_valid=rng.randint(2, 5))
        for v in (rowv, colv):
            if v.kind == "cat" and rng.random() < 0.5:
                v.view_insertions = gen.random_insertions(rng, v)
        if shape == "large_survey":
            # few respondents, each standing for 1e6 .. 1e8 people (integer weights)
            sv = gen.Survey([rowv, colv], rng.choice([25, 40, 60]), rng, weighted=True, integer_weights=True)
            f = rng.randint(10 ** 6, 10 ** 8)
            for r_ in sv.resp:
                r_["w"] = r_["w"] * f + (rng.randint(0, 999) if r_["w"] else 0)
        else:
            table = U.large_table(rng, len(U.element_ids(rowv)), len(U.element_ids(colv)),
                                  {"large_random": "random", "large_dominant_margin": "dominant"}.get(
                                      shape, "near_proportional"))
            sv = U.survey_from_weighted_table(rng, rowv, colv, table)
    resp = gen.cube_response(sv, ["rowv", "colv"])
    if rng.random() < 0.3:
        transforms = {}
        for key, v in (("rows_dimension", rowv), ("columns_dimension", colv)):
            d = U.display_transform(rng, v)
            if d:
                transforms[key] = d
        transforms = transforms or None
    return {"k": k, "pair": list(pair), "shape": shape, "three_d": False,
            "weighted": bool(sv.weighted), "response": resp, "transforms": transforms}


def gen_case(rng, k):
    r = rng.random()
    if r < 0.10:
        return gen_special_stream(rng, k, rng.choice(ZERO_BLOCK_SHAPES))
    if r < 0.22:
        return gen_special_stream(rng, k, rng.choice(LARGE_SHAPES + ("large_near_proportional",)))
    r = (r - 0.22) / 0.78
    shape = "random"
    three_d = False
    if r < 0.50:
        pair = ("cat", "cat")
    elif r < 0.78:
        pair = ("cat", "cat")
        shape = rng.choice(["proportional", "proportional", "zero_margins", "one_cell", "all_zero",
                            "rank2_sparse", "two_by_two", "two_by_two", "single_row", "single_col"])
    elif r < 0.85:
        pair = ("mr", "cat")
    elif r < 0.91:
        pair = ("cat", "mr")
    elif r < 0.94:
        pair = ("mr", "mr")
    elif r < 0.97:
        pair = (rng.choice(["datetime", "text", "binned"]), "cat")
    else:
        pair = ("cat", "cat")
        three_d = True

    def mk(kind, alias, n_valid=None):
        if kind == "cat":
            return gen.make_cat(rng, alias, n_valid=n_valid)
        if kind == "mr":
            return gen.make_mr(rng, alias, n_items=n_valid)
        return gen.make_enum(rng, alias, kind, n_valid=n_valid)

    nrv = ncv = None
    if shape == "random" and rng.random() < 0.8:
        nrv, ncv = rng.randint(2, 5), rng.randint(2, 5)
    if shape == "two_by_two":
        nrv = ncv = 2
    elif shape == "single_row":
        nrv = 1
    elif shape == "single_col":
        ncv = 1
    elif shape != "random":
        nrv, ncv = rng.randint(2, 4), rng.randint(2, 4)
    rowv = mk(pair[0], "rowv", nrv)
    colv = mk(pair[1], "colv", ncv)
    for v in (rowv, colv):
        if v.kind == "cat" and rng.random() < 0.5 and shape != "two_by_two":
            v.view_insertions = gen.random_insertions(rng, v)
    variables = [rowv, colv]
    aliases = ["rowv", "colv"]
    if shape in ("random", "single_row", "single_col"):
        if three_d:
            tabv = gen.make_cat(rng, "tabv", n_valid=rng.randint(1, 3))
            variables = [tabv] + variables
            aliases = ["tabv"] + aliases
        n = rng.choice([0, 1, 3, 8, 15, 25, 25, 40, 40, 60, 60, 90])
        sv = gen.Survey(variables, n, rng)
    else:
        nr = len(U.element_ids(rowv))
        nc = len(U.element_ids(colv))
        if shape == "two_by_two":
            table = [[rng.randint(0, 8) for _ in range(2)] for _ in range(2)]
        else:
            table = U.special_table(rng, shape, nr, nc)
        w = None if rng.random() < 0.5 else Fraction(rng.randint(1, 12), 4)
        sv = U.survey_from_table(rng, rowv, colv, table, weight=w)
    resp = gen.cube_response(sv, aliases)
    transforms = None
    if rng.random() < 0.35:
        transforms = {}
        for key, v in (("rows_dimension", rowv), ("columns_dimension", colv)):
            d = U.display_transform(rng, v)
            if d and v.kind == "cat" and rng.random() < 0.15:
                # malformed stream: stale ids in order / hide are ignored by the library
                d.setdefault("elements", {})["999"] = {"hide": True}
                if "order" in d:
                    d["order"]["element_ids"].insert(0, 998)
            if d:
                transforms[key] = d
        if not transforms:
            transforms = None
    return {"k": k, "pair": list(pair), "shape": shape, "three_d": three_d,
            "weighted": bool(sv.weighted), "response": resp, "transforms": transforms}


# ------------------------------------------------------------------------------------
# implementation
# ------------------------------------------------------------------------------------

def impl_run(case):
    """Per partition: public values of run A (no display transforms) and run B (with)."""
    resp, tr = case["response"], case["transforms"]
    g = impl.guarded(lambda: len(impl.cube(resp).partitions))
    if g[0] != "ok":
        return {"error": g}
    parts = []
    for k in range(g[1]):
        ga = impl.guarded(lambda: impl.partition(resp, None, k=k))
        if ga[0] != "ok":
            return {"error": ga}
        A = ga[1]
        io = {"A": {n: impl.get(A, n) for n in NAMES_A}}
        gd = impl.guarded(lambda: (impl.dims_info(A), [str(t) for t in A.dimension_types]))
        if gd[0] != "ok":
            return {"error": gd}
        io["dims"], io["dimtypes"] = gd[1]
        if tr is not None:
            gb = impl.guarded(lambda: impl.partition(resp, tr, k=k))
            if gb[0] != "ok":
                return {"error": gb}
            io["B"] = {n: impl.get(gb[1], n) for n in NAMES_B}
        parts.append(io)
    return {"parts": parts}


def _excs(d):
    return {n: v for n, v in d.items() if v[0] == "exc"}


def blocks_of(io, name):
    nr, nrs, nc, ncs = io["dims"]
    A = io["A"]
    return impl.blocks2d(A[name][1], A["row_order"][1], A["column_order"][1], nr, nc, nrs, ncs)


def build_term(io):
    """One Gallina term (list Z) for a partition: the four model blocks; or None."""
    A = io["A"]
    if _excs(A) or len(io["dims"]) != 4:
        return None
    c = blocks_of(io, "counts")
    t = blocks_of(io, "table_weighted_bases")
    r = blocks_of(io, "row_weighted_bases")
    k = blocks_of(io, "column_weighted_bases")
    io["blk"] = {"c": c, "t": t, "r": r, "k": k}
    base = g_mat(c[0][0])
    parts = []
    for a in (0, 1):
        for b in (0, 1):
            parts.append("r_mat (zscores_block %s %s %s %s %s)"
                         % (base, g_mat(c[a][b]), g_mat(t[a][b]), g_mat(r[a][b]), g_mat(k[a][b])))
    return "(" + " ++ ".join(parts) + ")"


# ------------------------------------------------------------------------------------
# comparison
# ------------------------------------------------------------------------------------

def zabs(z):
    if z is None:
        return float("nan")
    z = float(z)
    if math.isnan(z):
        return z
    return z * abs(z)


def exact_zero_variance(io):
    """payload-order matrix of booleans: the exact variance of the cell is 0 (with t != 0) in a
    block where the code's all(t == r) / all(t == k) guard does not fire (there NaN is exact)"""
    b = io["blk"]
    fb = {n: U.frac_blocks(b[n]) for n in ("t", "r", "k")}
    guard = [[False, False], [False, False]]
    for x in (0, 1):
        for y in (0, 1):
            tt = [v for r in fb["t"][x][y] for v in r]
            rr = [v for r in fb["r"][x][y] for v in r]
            kk = [v for r in fb["k"][x][y] for v in r]
            num = all(U.is_num(v) for v in tt + rr + kk)
            guard[x][y] = num and (tt == rr or tt == kk)
    nr, nrs, nc, ncs = io["dims"]
    F = {n: U.full_from_blocks(U.frac_blocks(b[n])) for n in ("t", "r", "k")}
    out = []
    for i, row in enumerate(F["t"]):
        o = []
        for j, t in enumerate(row):
            r, k = F["r"][i][j], F["k"][i][j]
            if guard[1 if i >= nr else 0][1 if j >= nc else 0]:
                o.append(False)
            elif all(U.is_num(x) for x in (t, r, k)) and t != 0:
                o.append(r * k * (t - r) * (t - k) == 0)
            else:
                o.append(False)
        out.append(o)
    return out


def residual_ratio(io):
    """payload-order matrix: None, or the exact |count - expected| / |expected| of the cell
    (expected = r k / t of the cell's own bases, t != 0, expected != 0)"""
    b = io["blk"]
    F = {n: U.full_from_blocks(U.frac_blocks(b[n])) for n in ("c", "t", "r", "k")}
    out = []
    for i, row in enumerate(F["t"]):
        o = []
        for j, t in enumerate(row):
            c, r, k = F["c"][i][j], F["r"][i][j], F["k"][i][j]
            if all(U.is_num(x) for x in (c, t, r, k)) and t != 0 and r * k != 0:
                e = r * k / t
                o.append(abs(c - e) / abs(e))
            else:
                o.append(None)
        out.append(o)
    return out


def nonfinite(x):
    return isinstance(x, str)


def expected_p(m):
    if m == "nan":
        return float("nan")
    if nonfinite(m):
        return 0.0
    return float(2 * (1 - norm.cdf(math.sqrt(abs(float(m))))))


def close_p(a, b, tol=1e-9):
    a = float("nan") if a is None else float(a)
    if math.isnan(a) or math.isnan(b):
        return math.isnan(a) and math.isnan(b)
    return abs(a - b) <= tol


def compare_part(case, io, toks, rep):
    fails = []
    nr, nrs, nc, ncs = io["dims"]
    d = core.Dec(toks)
    mb = [[d.mat(), d.mat()], [d.mat(), d.mat()]]
    # shapes of empty blocks get lost in lists: rebuild from dims
    def fix(m, n_r, n_c):
        return m if len(m) == n_r else [[] for _ in range(n_r)]
    mb = [[fix(mb[0][0], nr, nc), fix(mb[0][1], nr, ncs)], [fix(mb[1][0], nrs, nc), fix(mb[1][1], nrs, ncs)]]
    full = U.full_from_blocks(mb)
    zv = exact_zero_variance(io)
    rr = residual_ratio(io)
    rc = U.rank_class(io["blk"]["c"][0][0], RANK_FULL_REL)
    io["rank_class"] = rc
    # evidence: non-empty blocks whose model z-scores are ALL exactly 0 (p must be 1 there)
    io["zero_blocks"] = [BLOCK_NAMES[x][y] for x in (0, 1) for y in (0, 1)
                         if mb[x][y] and mb[x][y][0] and all(v == 0 for r_ in mb[x][y] for v in r_)]
    io["n_cancel_skipped"] = io["n_small_residual"] = 0
    if rc == "unclear":
        rep.cov["skipped_near_threshold"] += 1
        return fails
    runs = [("A", io["A"])]
    if "B" in io:
        runs.append(("B", io["B"]))
    n_finite = 0
    for tag, R in runs:
        ex = _excs(R)
        if ex:
            fails.append(("impl-exception." + tag, {"exceptions": ex}))
            continue
        ro, co = R["row_order"][1], R["column_order"][1]
        mdisp = U.display_of(full, ro, co, nr + nrs, nc + ncs)
        zvd = U.display_of(zv, ro, co, nr + nrs, nc + ncs)
        rrd = U.display_of(rr, ro, co, nr + nrs, nc + ncs)
        Z = np.asarray(R["zscores"][1], dtype=float)
        P = np.asarray(R["pvals"][1], dtype=float)
        if Z.shape != (len(ro), len(co)) or P.shape != Z.shape:
            fails.append(("shape." + tag, {"zscores": Z.shape, "pvals": P.shape, "rows": len(ro), "cols": len(co)}))
            continue
        for i in range(len(ro)):
            for j in range(len(co)):
                m = mdisp[i][j]
                iz = zabs(Z[i, j])
                ip = float(P[i, j])
                if zvd[i][j]:
                    if rc == "full":
                        rep.dist("zero_variance_cells_in_full_rank_tables")
                    # 0/0 vs eps/0: float rounding of the residual is not modelled
                    okz = nonfinite(m) and not math.isfinite(iz)
                    okp = math.isnan(ip) or abs(ip) <= 1e-9
                else:
                    q = rrd[i][j]
                    if q is not None and 0 < q * CANCEL_COND < 1 and not nonfinite(m):
                        # float64 cancellation dominates the residual (rule at CANCEL_COND): the
                        # decision "is this z the model's z" is within rounding; skipped AND counted
                        rep.cov["skipped_near_threshold"] += 1
                        io["n_cancel_skipped"] += 1
                        continue
                    if q is not None and 0 < q < Fraction(1, 10 ** 5):
                        io["n_small_residual"] += 1
                    okz = core.close(iz, m)
                    okp = close_p(ip, expected_p(m))
                    if not nonfinite(m):
                        n_finite += 1
                if not okz:
                    fails.append(("zscores." + tag, {"display_cell": [i, j], "impl_z": float(Z[i, j]),
                                                      "model_z_abs_z": m, "rank_class": rc,
                                                      "payload": [int(ro[i]), int(co[j])]}))
                    break
                if not okp:
                    fails.append(("pvals." + tag, {"display_cell": [i, j], "impl_p": ip,
                                                    "expected_p": expected_p(m), "model_z_abs_z": m}))
                    break
                if not (math.isnan(ip) or -1e-12 <= ip <= 1 + 1e-12):
                    fails.append(("pvals-range." + tag, {"display_cell": [i, j], "impl_p": ip}))
                    break
            else:
                continue
            break
        S = np.asarray(R["residual_test_stats"][1], dtype=float)
        if S.shape != (2,) + Z.shape or not (np.array_equal(S[0], P, equal_nan=True)
                                              and np.array_equal(S[1], Z, equal_nan=True)):
            fails.append(("residual_test_stats." + tag, {"shape": S.shape}))
        # property oracle: defective => NaN everywhere
        if rc == "deficient" and not (np.isnan(Z).all() and np.isnan(P).all()):
            fails.append(("defective-not-nan." + tag, {"zscores": Z, "counts_base": io["blk"]["c"][0][0]}))
    io["n_finite"] = n_finite
    # oracle on the implementation alone: chi-square on 2x2 CAT x CAT
    if (nr, nc) == (2, 2) and rc == "full" and all(t in ("DIMENSION_TYPE.CAT", "DIMENSION_TYPE.CAT_DATE")
                                                     for t in io["dimtypes"][-2:]):
        c = [[core.to_exact(x) for x in r] for r in io["blk"]["c"][0][0]]
        (a, b), (cc, dd) = c
        R1, R2, K1, K2 = a + b, cc + dd, a + cc, b + dd
        if min(R1, R2, K1, K2) > 0 and not _excs(io["A"]):
            chi2 = (a + b + cc + dd) * (a * dd - b * cc) ** 2 / (R1 * R2 * K1 * K2)
            zb = blocks_of(io, "zscores")[0][0]
            rep.dist("chi2_oracle_tables")
            T4 = a + b + cc + dd
            for i in range(2):
                for j in range(2):
                    e = (R1, R2)[i] * (K1, K2)[j] / T4
                    if abs(c[i][j] - e) * CANCEL_COND < abs(e):
                        # same float64 cancellation rule as the model comparison (see CANCEL_COND):
                        # found as a false alarm of this oracle with the dominant-margin tables
                        rep.cov["skipped_float_cancellation_cells"] = \
                            rep.cov.get("skipped_float_cancellation_cells", 0) + 1
                        continue
                    if not core.close(float(zb[i][j]) ** 2, chi2):
                        fails.append(("chi2-2x2", {"cell": [i, j], "z": zb[i][j], "chi2": chi2, "counts": c}))
    return fails


def nontrivial(io):
    return io.get("rank_class") == "full" and io.get("n_finite", 0) > 0


# ------------------------------------------------------------------------------------

def _replayable(case):
    return {"response": case["response"], "transforms": case["transforms"], "pair": case["pair"],
            "shape": case["shape"], "three_d": case["three_d"], "weighted": case["weighted"],
            "k": case["k"]}


def check_cases(cases, rep, tag="cases"):
    """Run implementation + model on the cases; returns list of (case, what, detail)."""
    ios, terms, index = [], [], []
    out = []
    for case in cases:
        io = impl_run(case)
        ios.append(io)
        if "error" in io:
            out.append((case, "impl-exception", {"error": io["error"]}))
            continue
        for p, pio in enumerate(io["parts"]):
            t = build_term(pio)
            if t is None:
                out.append((case, "impl-exception", {"exceptions": _excs(pio["A"]), "partition": p}))
                continue
            index.append((case, pio))
            terms.append(t)
    results, coq_s = core.run_coq_cases(PID, IMPORTS, terms, tag=tag) if terms else ([], 0.0)
    for (case, pio), toks in zip(index, results):
        for what, detail in compare_part(case, pio, toks, rep):
            out.append((case, what, detail))
    # READ-ORDER LEG (common_cases.late_reads; every second case, every partition): z-scores and p-values
    # read after every other public read of a second partition are the ones of the fresh partition
    from harness.props import common_cases as cc
    for case, io in zip(cases, ios):
        if "error" in io or int(case.get("k", 0)) % 2 or str(case.get("shape", "")).startswith("large"):
            # (population-sized tables are left out: some of the OTHER public reads - the scale medians -
            # take seconds per partition at 1e8 .. 1e10 respondents)
            continue
        for pidx, pio in enumerate(io["parts"]):
            fresh = {n: pio["A"][n] for n in ("zscores", "pvals", "residual_test_stats")}
            population, late = cc.late_reads({"response": case["response"], "transforms": None,
                                              "k": 1000 * int(case.get("k", 0)) + pidx},
                                             list(fresh), fresh, transforms=None, k=pidx)
            rep.dist("late-reads:partitions")
            for n, a, b in cc.warnings_as_errors({"response": case["response"], "transforms": None},
                                                  ["zscores", "pvals"], transforms=None, k=pidx)[:1]:
                out.append((case, n + " differs when warnings are errors",
                            {"partition": pidx, "normal": a, "warnings_as_errors": b}))
            for n, a, b, culprits in late[:1]:
                out.append((case, "%s depends on what was read before" % n,
                            {"partition": pidx, "fresh": a, "after_other_reads": b, "population": population,
                             "single_earlier_reads_that_change_it": culprits}))
    return out, ios, coq_s, len(terms)


def run(tier, seed):
    rep = core.Report(PID, tier, seed)
    ob = core.obligations_gate(rep, PID)
    n_cases = 330 if tier == "quick" else 5000
    rng = random.Random(seed)
    cases = [gen_case(rng, k) for k in range(n_cases)]
    rng_big = random.Random(seed + 91)
    for j in range(2 if tier == "quick" else 12):
        cases.append(gen_special_stream(rng_big, 2 * (n_cases + j), "big_table"))   # even k: read-order leg
    if tier == "thorough":
        cases.extend(exhaustive_2x2())
    fails, ios, coq_s, nterms = check_cases(cases, rep)
    for case, io in zip(cases, ios):
        parts = io.get("parts", [])
        nt = any(nontrivial(p) for p in parts)
        rep.count_case(_replayable(case), nt)
        rep.dist("%s x %s%s" % (case["pair"][0], case["pair"][1], " (3-D)" if case["three_d"] else ""))
        rep.dist("shape=" + case["shape"])
        rep.dist("weighted" if case["weighted"] else "unweighted")
        rep.dist("display_transforms" if case["transforms"] else "no_display_transforms")
        for p in parts:
            rep.dist("rank_class=" + str(p.get("rank_class")))
            for bn in p.get("zero_blocks", []):
                rep.dist("all_zero_zscore_block=" + bn)
            if p.get("n_cancel_skipped"):
                rep.dist("cells_skipped_float_cancellation(expected > 1e6 x residual)", p["n_cancel_skipped"])
            if p.get("n_small_residual"):
                rep.dist("cells_compared_with_0<|residual|<1e-5*expected", p["n_small_residual"])
            d = p.get("dims")
            if d and len(d) == 4 and (d[1] or d[3]):
                rep.dist("partitions_with_subtotals")
        if nt:
            rep.sample({"pair": case["pair"], "shape": case["shape"], "weighted": case["weighted"],
                        "transforms": case["transforms"], "dims": [p.get("dims") for p in parts]})
    for case, what, detail in fails:
        rep.violation("impl-vs-model" if not what.startswith(("chi2", "defective")) else "impl-vs-property",
                      _replayable(case), dict(detail, what=what),
                      {"what": what.split(".")[0], "pair": "x".join(case["pair"]), "shape": case["shape"]})
    rep.cov["rule"] = (
        "cases from random.Random(seed): CAT x CAT (random surveys and prescribed tables: proportional "
        "rows, empty margins, single cell/row/column, all zero, 2x2), MR x CAT, CAT x MR, MR x MR, "
        "datetime/text/binned x CAT, 3-D CAT x CAT x CAT; dyadic weights or unweighted; subtotal and "
        "difference insertions on categorical dimensions; 35% with explicit order / hide transforms "
        "(incl. stale ids); 10% same-share tables (a subtotal over columns / rows that holds the same dyadic "
        "share of every row / column of a rank >= 2 table: the inserted-columns / inserted-rows / "
        "intersections block of z-scores is exactly 0 and every p-value in it must be 1; counted as "
        "all_zero_zscore_block=<block>); 12% population-projected magnitudes (one respondent per cell whose "
        "integer weight is the count, table base 1e8..1e10: near-proportional tables with |residual| / expected "
        "in [3e-6, 1e-3], random tables, and CAT|MR surveys whose respondents weigh 1e6..1e8 each); "
        "non-trivial = a partition whose base counts are clearly of rank >= 2 and "
        "that has at least one finite z-score compared; distinct by content hash")
    rep.cov["coq_eval_seconds"] = round(coq_s, 2)
    rep.cov["model_terms_evaluated"] = nterms
    rep.assumptions = [
        "inputs of the step (weighted counts, table/row/column weighted bases) are the implementation's own "
        "public values (owned by C01/C02/C04)",
        "numpy.linalg.matrix_rank(counts) < 2 <=> exact rank < 2 on the generated tables: exactly "
        "rank-deficient tables or a 2x2 minor >= 1e-9 * max|entry|^2 (then sigma_2 / sigma_1 >= 1.5e-11 against "
        "numpy's tolerance of ~1e-15, see c12_util.rank_class; others skipped and counted)",
        "float64 cancellation: a cell whose exact expected count exceeds 1e6 x its exact non-zero residual "
        "|count - expected| is not compared (the 2 ulp of fl(fl(r k)/t) are then >= 4.4e-10 of z*|z|): skipped and "
        "counted in skipped_near_threshold and distribution['cells_skipped_float_cancellation...']; cells with "
        "a residual between 1e-6 and 1e-5 of the expected count ARE compared (distribution['cells_compared_with_0<|residual|<1e-5*expected'])",
        "scipy.stats.norm.cdf has the CDF shape assumed by the p-value theorems (symmetric, monotone, in [0,1]); "
        "expected p-values are computed with scipy from the model's exact z^2 (tolerance 1e-9 absolute)",
        "cells whose exact variance is 0 (row/column share 0 or 1): NaN and +-inf are not distinguished "
        "(the float residual of r*k/t is not modelled)",
        "float64 vs exact rationals: relative tolerance 1e-9 on z*|z|",
    ]
    return rep.finish("proof", ob, trusted_base=core.TRUSTED_BASE_COMMON + [
        "Model/Zscore.v is hand-written; tied to matrix/measure.py::_Zscores/_Pvalues by this correspondence run",
        "Coq stdlib real-number axioms (only in the p-value shape theorems)"])


def exhaustive_2x2():
    """thorough tier: every unweighted 2x2 table with entries <= 4"""
    out = []
    rng = random.Random(12)
    k = 100000
    for a in range(5):
        for b in range(5):
            for c in range(5):
                for d in range(5):
                    rowv = gen.make_cat(rng, "rowv", n_valid=2, n_missing=0)
                    colv = gen.make_cat(rng, "colv", n_valid=2, n_missing=0)
                    sv = U.survey_from_table(rng, rowv, colv, [[a, b], [c, d]], extra_missing=False)
                    out.append({"k": k, "pair": ["cat", "cat"], "shape": "exhaustive_2x2", "three_d": False,
                                "weighted": False, "response": gen.cube_response(sv, ["rowv", "colv"]),
                                "transforms": None})
                    k += 1
    return out


def replay(path):
    d = json.load(open(path))
    case = d["violation"]["case"]
    rep = core.Report(PID, "quick", d.get("seed", 0))
    fails, _ios, _s, _n = check_cases([case], rep, tag="replay")
    for _case, what, detail in fails:
        print("REPLAY still fails:", what, json.dumps(core.jsonable(detail))[:600])
    if not fails:
        print("REPLAY: no longer fails")
    return 1 if fails else 0
