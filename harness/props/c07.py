# -*- coding: utf-8 -*-
"""C07 - Anchored ordering: payload or explicit element order with subtotals at anchors.

Obligations: coq/Props/C07.v (model Model/Collator.v, spec Spec/OrderSpec.v).

Check = (a) correspondence: the model of the collators (faithful to the code, defects
included) is run in Coq on the raw response + transforms and compared with
row_order()/column_order() in both formats, row/column codes and labels, payload_order,
shape, is_empty of slices and strands;  (b) oracles for the property text on the
implementation: the 'ins_N' rendering must name the same sequence as the signed one, and
id-less insertions must be numbered as the specification says (rank in payload display
order / definition position) - the specification values are computed in Coq from
Spec/OrderSpec.v.  Theorem C07_collate_eq_spec says the model's signed order IS the
specification's anchored order, so (a) ties the implementation to the specification.
"""
import copy
import itertools
import json
import random

from harness import core, gen, impl
from harness.props import order_util as ou

PID = "C07"


# ------------------------------------------------------------------------------------
# cases
# ------------------------------------------------------------------------------------


def cat_dim_transforms(rng, v, malformed=False, allow_tins=True, strand=False):
    """view insertions on v + a transforms dict for its dimension"""
    valid = gen.valid_cat_ids(v)
    t = {}
    hides = {}
    if rng.random() < 0.45:
        hides = ou.random_hides(rng, valid, p=rng.choice([0.15, 0.3, 0.6]))
        if hides:
            t["elements"] = hides
    hidden_ids = [i for i in valid
                  if isinstance(hides.get(i, hides.get(str(i), {})), dict)
                  and hides.get(i, hides.get(str(i), {})).get("hide") is True]
    if rng.random() < 0.7:
        v.view_insertions = ou.random_insertion_list(rng, v, hidden_ids, malformed=malformed)
    if allow_tins and rng.random() < 0.4:
        t["insertions"] = ou.derive_transform_insertions(rng, v.view_insertions or [], v, hidden_ids)
    r = rng.random()
    if r < 0.45:
        t["order"] = {"type": "explicit", "element_ids": ou.random_explicit_ids(rng, valid)}
        if rng.random() < 0.05:
            t["order"]["element_ids"] = None
    elif r < 0.5:
        # keywords that mean "payload order" for this kind of partition
        t["order"] = {"type": rng.choice(["payload_order", "bogus"] if strand else
                                         ["payload_order", "bogus", "univariate_measure"])}
    elif r < 0.53:
        t["order"] = {"element_ids": list(valid)[::-1]}          # no type: payload order
    if rng.random() < 0.3:
        t["prune"] = rng.choice([True, True, True, False, "true", 1])
    return t


def mr_dim_transforms(rng, v):
    t = {}
    ids = [it["id"] for it in v.items]
    aliases = [it["alias"] for it in v.items]
    if rng.random() < 0.6:
        pool = ids + aliases + [it["subvar_id"] for it in v.items] + [999, "nope"]
        n = rng.randint(0, len(ids) + 2)
        t["order"] = {"type": "explicit", "element_ids": [rng.choice(pool) for _ in range(n)]}
    if rng.random() < 0.3:
        t["elements"] = {str(rng.choice(ids)): {"hide": True}}
    if rng.random() < 0.3:
        t["prune"] = True
    return t


def make_var(rng, alias, kinds):
    kind = rng.choice(kinds)
    if kind == "cat":
        nv = rng.choice([0, 1, 2, 3, 3, 4, 4, 5, 6])
        return gen.make_cat(rng, alias, n_valid=nv,
                            n_missing=rng.choice([1, 2]) if nv == 0 else None)
    if kind == "mr":
        v = gen.make_mr(rng, alias, n_items=rng.choice([1, 2, 3, 4, 5]))
        if rng.random() < 0.6:
            ou.add_derived_items(rng, v)
        return v
    if kind == "ca":
        return gen.make_ca(rng, alias, n_items=rng.randint(1, 3), n_valid=rng.randint(1, 4))
    raise ValueError(kind)


def gen_case(rng, k, malformed_rate=0.06):
    malformed = rng.random() < malformed_rate
    strand = rng.random() < 0.25
    transforms = {}
    if strand:
        v = make_var(rng, "r", ["cat", "cat", "cat", "mr"])
        variables, aliases = [v], ["r"]
        transforms["rows_dimension"] = (cat_dim_transforms(rng, v, malformed, strand=True)
                                        if v.kind == "cat" else mr_dim_transforms(rng, v))
    else:
        rk = rng.random()
        if rk < 0.1:
            v = make_var(rng, "a", ["ca"])
            variables, aliases = [v], ["a"]
            transforms["rows_dimension"] = mr_dim_transforms(rng, v)
            # the categories dimension of the array carries the insertions
            transforms["columns_dimension"] = cat_dim_transforms(rng, v, malformed)
        else:
            rv = make_var(rng, "r", ["cat", "cat", "cat", "cat", "mr"])
            cv = make_var(rng, "c", ["cat", "cat", "cat", "mr"])
            variables, aliases = [rv, cv], ["r", "c"]
            for key, v in (("rows_dimension", rv), ("columns_dimension", cv)):
                if rng.random() < 0.85:
                    transforms[key] = (cat_dim_transforms(rng, v, malformed) if v.kind == "cat"
                                       else mr_dim_transforms(rng, v))
    n_resp = rng.choice([0, 3, 8, 15, 30])
    sv = gen.Survey(variables, n_resp, rng)
    resp = gen.cube_response(sv, aliases)
    return {"k": k, "strand": strand, "response": resp, "transforms": transforms,
            "malformed": malformed}


# ------------------------------------------------------------------------------------
# one case: implementation, model terms, comparison
# ------------------------------------------------------------------------------------


def prepare(case):
    """Run the implementation, build the model terms.  Returns dict or ('skip', why)."""
    strand = case["strand"]
    r = impl.guarded(lambda: impl.partition(case["response"], case["transforms"]))
    if r[0] != "ok":
        return ("skip", "partition-raises:%s" % r[1])
    part = r[1]
    obs = ou.observe(part, strand)
    emp = ou.reported_empties(part, strand)
    if emp[0] != "ok":
        return ("skip", "empties-unavailable:%s" % (emp[1],))
    try:
        ms = ou.dim_models(part, case["response"], case["transforms"], strand)
    except ou.Unsupported as e:
        return ("skip", "unsupported:%s" % e)
    except Exception as e:          # the implementation cannot even build its dimensions
        return ("skip", "dims-unavailable:%s" % type(e).__name__)
    for m, e in zip(ms, emp[1]):
        m.empties = e
    terms = []
    for k, m in enumerate(ms):
        opp = None if strand else ms[1 - k]
        psub = "false" if opp is None else ou.psub_term(opp)
        terms.append(ou.run_dim_term(m, ou.anchored_ordering_term(m.order_dict), m.empties, psub))
        terms.append("run_spec_ids %s" % m.term)
    return {"obs": obs, "models": ms, "terms": terms}


def classify_render(m, dec, axis_obs_bogus, psub_possible):
    if axis_obs_bogus[0] == "exc" and axis_obs_bogus[1] == "TypeError":
        return "prune-subtotals-typeerror"
    if m.tins is not None and m.view and m.order_dict.get("type") != "explicit":
        return "payload-mapping-uses-view-ids"
    return "other"


CANONICAL_WORDS = ("top", "bottom")


def classify_ids(m):
    src = m.view
    if all("id" in d for d in src if isinstance(d, dict)):
        return "other"
    for d in src:
        if not isinstance(d, dict):
            continue
        a = d.get("anchor")
        if isinstance(a, str) and a not in CANONICAL_WORDS:
            return "crosswalk-raw-anchor-spelling"
    return "other"


def oracle_renderings(axis, obs):
    """'ins_N' and signed renderings must name the same sequence (implementation only)."""
    s, b, c = obs[axis + "_order"], obs[axis + "_order_bogus"], obs[axis + "_codes"]
    if s[0] != "ok":
        return None if b[0] != "ok" else {"signed": s, "bogus": b}
    if b[0] != "ok" or c[0] != "ok":
        return {"signed": s, "bogus": b}
    want = [("base", z) if z >= 0 else ("ins", int(code)) for z, code in zip(s[1], c[1])]
    if want != b[1]:
        return {"signed": s[1], "codes": c[1], "bogus": b[1], "bogus_expected": want}
    return None


def check_case(case, prep, results, rep):
    """-> list of (kind, what, detail, ctx)"""
    out = []
    obs, ms = prep["obs"], prep["models"]
    strand = case["strand"]
    axes = ["row"] if strand else ["row", "column"]
    shape = []
    for k, (axis, m) in enumerate(zip(axes, ms)):
        dec = ou.decode_run_dim(results[2 * k])
        sd = ou.ODec(results[2 * k + 1])
        spec_ids = sd.list(lambda: sd.opt(sd.Z))
        for what, detail in ou.compare_dim(axis, m, dec, obs, strand):
            out.append(("impl-vs-model", what, detail, {"what": what}))
        shape.append(("ok", len(dec["signed"][1])) if dec["signed"][0] == "ok" else dec["signed"])
        # (b1) renderings agree
        bad = oracle_renderings(axis, obs)
        if bad is not None:
            out.append(("renderings-disagree", axis + ".renderings_agree", bad,
                        {"what": "renderings_agree",
                         "cls": classify_render(m, dec, obs[axis + "_order_bogus"], not strand)}))
        # (b2) ids of insertions as the specification numbers them
        if not m.array and spec_ids != [z for z in dec["sub_ids"]]:
            # the model's ids are the implementation's (checked above through the codes)
            out.append(("ids-not-as-specified", axis + ".ids_assigned",
                        {"spec": spec_ids, "impl(model)": dec["sub_ids"],
                         "insertions": m.source_list()},
                        {"what": "ids_assigned", "cls": classify_ids(m)}))
    # shape / is_empty
    if all(s[0] == "ok" for s in shape):
        want = ("ok", [s[1] for s in shape])
        if obs["shape"] != want:
            out.append(("impl-vs-model", "shape", {"model": want, "impl": obs["shape"]},
                        {"what": "shape"}))
        we = ("ok", any(s[1] == 0 for s in shape))
        if obs["is_empty"] != we:
            out.append(("impl-vs-model", "is_empty", {"model": we, "impl": obs["is_empty"]},
                        {"what": "is_empty"}))
    return out


def features(case, prep):
    f = []
    for m in prep["models"]:
        if m.array:
            f.append("array-dim")
        if m.view:
            f.append("view-insertions")
        if m.tins is not None:
            f.append("transform-insertions")
        if m.order_dict.get("type") == "explicit":
            f.append("explicit-order")
        if m.prune:
            f.append("prune")
        for d in (m.view or []) + (m.tins or []):
            if isinstance(d, dict):
                a = d.get("anchor")
                f.append("anchor:" + ("none" if a is None else "int" if isinstance(a, int)
                                      else "numstr" if a.lstrip("+-").isdigit()
                                      else a.lower() if a.lower() in ("top", "bottom") else "other"))
                f.append("ins-with-id" if "id" in d else "ins-without-id")
    return sorted(set(f))


def _replayable(case):
    return {"response": case["response"], "transforms": case["transforms"],
            "strand": case["strand"], "k": case.get("k")}


def run_cases(rep, cases):
    preps, terms = [], []
    for case in cases:
        p = prepare(case)
        preps.append(p)
        if isinstance(p, dict):
            terms.extend(p["terms"])
    results, coq_s = core.run_coq_cases(PID, ou.IMPORTS, terms) if terms else ([], 0.0)
    pos = 0
    for case, p in zip(cases, preps):
        if not isinstance(p, dict):
            rep.count_case(_replayable(case), False)
            rep.dist("skipped:" + p[1].split(":")[0])
            if p[1].startswith("partition-raises") and not case.get("malformed"):
                rep.violation("impl-exception", _replayable(case), {"why": p[1]},
                              {"what": "partition-raises"})
            continue
        res = results[pos:pos + len(p["terms"])]
        pos += len(p["terms"])
        feats = features(case, p)
        rep.count_case(_replayable(case), bool(feats))
        rep.dist("strand" if case["strand"] else "slice")
        for f in feats:
            rep.dist(f)
        if case.get("malformed"):
            rep.dist("malformed-stream")
        rep.sample({"transforms": case["transforms"], "strand": case["strand"]})
        for kind, what, detail, ctx in check_case(case, p, res, rep):
            rep.violation(kind, _replayable(case), dict(detail, what=what), ctx)
    return coq_s, len(terms)


# ------------------------------------------------------------------------------------
# exhaustive small scope (thorough tier): every anchor spelling x explicit list x hidden set
# ------------------------------------------------------------------------------------


def small_scope_cases(rng, limit):
    """All configurations of a 3-category dimension (ids 1,2,5 + a missing 9) with up to two
    view insertions over a fixed anchor alphabet, a few explicit lists and hidden sets."""
    anchors = [1, "2", "top", "Top", "bottom", None, 9, 77, 5]
    explicit = [None, [5, 1], [2, 2, 77, 1], [5, 2, 1]]
    hidden = [(), (1,), (2, 5)]
    out = []
    base_v = gen.make_cat(random.Random(1), "r", n_valid=3, n_missing=1, ids=[1, 2, 5, 9],
                          missing_anywhere=False)
    cv = gen.make_cat(random.Random(2), "c", n_valid=2, n_missing=0, ids=[1, 2])
    combos = list(itertools.product(anchors, anchors, [True, False], explicit, hidden))
    rng.shuffle(combos)
    for a1, a2, with_ids, ex, hid in combos[:limit]:
        v = copy.deepcopy(base_v)
        ins = [{"function": "subtotal", "name": "A", "anchor": a1, "args": [1, 2]},
               {"function": "subtotal", "name": "B", "anchor": a2, "args": [5]}]
        if with_ids:
            ins[0]["id"], ins[1]["id"] = 4, 2
        v.view_insertions = ins
        t = {}
        if ex is not None:
            t["order"] = {"type": "explicit", "element_ids": ex}
        if hid:
            t["elements"] = {str(i): {"hide": True} for i in hid}
        sv = gen.Survey([v, cv], 12, random.Random(3))
        out.append({"k": len(out), "strand": False, "malformed": False,
                    "response": gen.cube_response(sv, ["r", "c"]),
                    "transforms": {"rows_dimension": t}})
    return out


def run(tier, seed):
    rep = core.Report(PID, tier, seed)
    ob = core.obligations_gate(rep, PID)
    n_cases = 400 if tier == "quick" else 6000
    rng = random.Random(seed)
    cases = [gen_case(rng, k) for k in range(n_cases)]
    cases += small_scope_cases(rng, 150 if tier == "quick" else 1944)
    coq_s, n_terms = run_cases(rep, cases)
    rep.cov["rule"] = (
        "cases from random.Random(seed): CAT / MR (with derived before/after/top/bottom items) / CA "
        "dimensions of 0..6 valid elements (ids incl. -1, 0, 32767, missing categories anywhere), "
        "slices and strands; view and/or transform insertion lists with anchors int / numeric "
        "string / top / Top / BOTTOM / null / stale / missing / hidden-element, with, without or "
        "partly with ids, hidden copies, malformed entries; explicit orders (permutations, subsets, "
        "repeats, stale ids, string spellings, null), unknown order types; hide and prune flags; + a "
        "small-scope enumeration (3 elements x 2 insertions x 9 anchors^2 x 4 explicit lists x 3 "
        "hidden sets; sampled in quick, exhaustive in thorough). non-trivial = some insertion, "
        "explicit order, prune or array dimension present; distinct by content hash")
    rep.cov["coq_eval_seconds"] = round(coq_s, 2)
    rep.cov["model_terms_evaluated"] = n_terms
    rep.assumptions = [
        "for array (MR/CA subvariable) dimensions the shimmed element ids / order ids / hidden set are "
        "taken from the implementation (identifier translation is owned by C19)",
        "empty-vector indexes are the implementation's own pruning masks (the pruning rule is C09's)",
        "anchors / ids that are floats or bools, and int() spellings with blanks or underscores, are "
        "outside the model (not generated)",
    ]
    return rep.finish("proof", ob, trusted_base=core.TRUSTED_BASE_COMMON + [
        "Model/Collator.v is hand-written; tied to collator.py, dimension.py (_Subtotals, _Subtotal.anchor, "
        "hidden_idxs, prune) and the order helpers of matrix/stripe assembler.py by this correspondence run only"])


def replay(path):
    d = json.load(open(path))
    case = d["violation"]["case"]
    case.setdefault("malformed", False)
    rep = core.Report(PID, "quick", d.get("seed", 0))
    rep.findings = []          # a replay shows everything that still differs
    run_cases(rep, [case])
    for v in rep.violations:
        print("REPLAY still fails:", json.dumps(core.jsonable(v["detail"]))[:700])
    if not rep.violations:
        print("REPLAY: no longer fails")
    return 1 if rep.violations else 0
