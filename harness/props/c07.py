# -*- coding: utf-8 -*-
"""C07 - Anchored ordering: payload or explicit element order with subtotals at anchors.

Obligations: coq/Props/C07.v (model Model/Collator.v, spec Spec/OrderSpec.v).

Check = (a) correspondence: the model of the collators (faithful to the code) is run in
Coq on the raw response + transforms and compared with row_order()/column_order() in both
formats, row/column codes and labels, payload_order, shape, is_empty of slices and
strands;  (b) oracles for the property text on the implementation, with NO exception
class: the 'ins_N' rendering must name the same sequence as the signed one, and id-less
insertions must be numbered as the specification says (rank in payload display order /
definition position) - the specification values are computed in Coq from
Spec/OrderSpec.v.  Theorem C07_collate_eq_spec says the model's signed order IS the
specification's anchored order, so (a) ties the implementation to the specification;
C07_ids_view / C07_renderings_agree_display say the same for the ids and the renderings.

Anchor spellings: every insertion anchor is generated in the spellings Python's int() /
str.lower() accept or reject - 3, '3', '+3', ' 3', '3 ', ' +3 ', '03', '3_2_767', 'Top',
'BOTTOM', null, stale and missing ids, ids of hidden elements and (in malformed streams)
'0x3', '+ 3', '3_', '_3', '3.0', ' top', '' ... - and `py_int_mirror` below (the harness'
copy of Spec/OrderSpec.v py_int) is compared with the real int() on each generated string.

(c) unknown ids on ARRAY dimensions (added after seeded change C07-6: the last-resort "take the id as
the subvariable's position" step of _ElementIdShim.translate_element_id lost its 0 <= id < n range
check, so a stale -1 / '-1' named the LAST subvariable, which was placed where the stale id stood and
stole "first mention"; (a) could not see it because the model of an array dimension is fed with the ids
the implementation translated).  Relational oracle on the implementation alone, from "unknown ids
ignored": a reference that certainly names no item of an MR / CA-subvariables / numeric-array dimension
(no alias, subvariable id or element id in any spelling and, as a number, outside 0..n-1 - decided from
the raw response by `matches_nothing`) is removed from the explicit id list (and from the hide / rename
keys, whose hidden set feeds the order) and the partition must show the same orders, codes, labels and
shape as with it.  The leg runs on every case; a stream of its own (`gen_stale_ref_case`: MR strands,
MR x CAT, CAT x MR, MR x MR, CA, numeric array alone and by CAT; this check's array variables and those
of C19's generator with zero-based / sparse / negative element ids) writes such references - negative
ints and numeric strings in -n..-1 and below -n (the class no stream produced before), numbers >= n,
non-numeric strings - at the front of / inside explicit lists and as element-transform keys.

(d) ONE transforms dict object for a sequence of cubes (added after seeded change C07-7:
`_ElementIdShim.shimmed_dimension_transforms_dict` lost the copy of the 'order' level, so the subvariable
aliases an explicit order's element ids translate to were written INTO THE CALLER'S dict; the next cube given
the same dict - another array variable, other aliases - found the first cube's aliases, ignored them as unknown
ids and came out in payload order.  Every case of (a)-(c) builds one cube on a deep copy and cannot see
that).  "In the listed order" refers to the list the caller wrote, so the property must hold for cube k of a
deck exactly as for cube k alone.  Class added: 2..3 cubes built one after another over DIFFERENT array
variables (the cube sequences of C09's leg (c): MR strands, MR x CAT, CAT x MR, CA, MR x MR, numeric arrays,
3-D cubes; `c09.seq_cube`) with one transforms object - the whole dict, only its dimension dicts, or only the
dicts below the dimension level ('order', 'elements') being the same object for every cube; built through
`impl.Cube` without the deep copy `impl.partition` makes, read interleaved / after all are built / in reverse,
or as the cubes of a CubeSet given [t, t] - carrying explicit orders spelled by element id (int / string),
subvariable id, alias, category id, with repeats and references that name nothing, anchored insertions (view
and transforms), hides, prune.  Required of every cube and slice: (rel) the same orders in both formats,
labels, codes, payload_order, shape as a fresh cube given its own pristine copy of the transforms as written,
and (abs) on array axes the displayed base elements in the order the property text gives (listed first, first
mention wins, unknown ignored, then the unlisted in payload order; the named item decided by the generator's
record).  Distribution keys `shared-transforms:*`; machinery shared with C08's leg (d).
"""
import copy
import itertools
import json
import random

from harness import core, gen, impl
from harness.props import c09                 # generator of cube sequences over different array variables (leg (d))
from harness.props import order_util as ou

PID = "C07"


# ------------------------------------------------------------------------------------
# anchor spellings
# ------------------------------------------------------------------------------------

BLANKS = " \t\n\v\f\r"


def py_int_mirror(s):
    """Spec/OrderSpec.v py_int, transcribed: blanks around dropped, optional sign, ASCII digits
    with single underscores between two digits.  -> int or None"""
    t = s.strip(BLANKS)
    if t[:1] in ("+", "-"):
        sign, t = (-1 if t[0] == "-" else 1), t[1:]
    else:
        sign = 1
    acc, after_digit = 0, False
    for c in t:
        if "0" <= c <= "9":
            acc, after_digit = 10 * acc + (ord(c) - 48), True
        elif c == "_" and after_digit:
            after_digit = False
        else:
            return None
    return sign * acc if after_digit else None


def real_int(s):
    try:
        return int(s)
    except ValueError:
        return None


def encodable(s):
    """what harness.core.g_str can hand to Coq (printable ASCII, no double quote)"""
    return all(32 <= ord(c) < 127 and c != '"' for c in s)


def numeric_spellings(rng, z):
    """spellings of the int z that int() accepts"""
    a = abs(z)
    sign = "-" if z < 0 else ""
    body = str(a)
    out = [str(z), " %s" % z, "%s " % z, "  %s  " % z, "%s0%s" % (sign, body), "%s00%s" % (sign, body)]
    if z >= 0:
        out += ["+%s" % body, " +%s " % body, "+0%s" % body]
    if len(body) > 1:
        k = rng.randint(1, len(body) - 1)
        out.append("%s%s_%s" % (sign, body[:k], body[k:]))
        out.append(sign + "_".join(body))
    else:
        out.append("%s0_%s" % (sign, body))
    return out


# strings int() rejects and that are no top / bottom either: the collator raises ValueError
BAD_SPELLINGS = ["0x3", "+ 3", "- 3", "3_", "_3", "1__0", "+_1", "3.0", "1e3", "--3", "+-3", "", " ",
                 "+", "-", " top", "top ", "Bottom.", "3 3", "after"]


def g_ascii_string(s):
    """Gallina string literal for ANY 7-bit string (core.g_str only takes printable ones)"""
    if encodable(s):
        return core.g_str(s)
    t = "EmptyString"
    for c in reversed(s):
        assert ord(c) < 128, s
        t = "(String (Ascii.ascii_of_nat %d) %s)" % (ord(c), t)
    return t


PROBE_STRINGS = (
    [x for z in (3, 0, -1, 10, 32767, -250) for x in numeric_spellings(random.Random(z), z)]
    + BAD_SPELLINGS
    + ["\t3", "3\n", "\v3\f", "\r-3\r\n", " \t+3 \t", "3\t3", "\x1c3", "3\x1f", "3\x00", "\x7f3",
       "1_0", "1_0_0", "0_0", "00", "-0", "+0", "- 0", "9" * 25, "-" + "9" * 25, "0x", "0b1", "0o7", "١",
       "Top", "TOP", "tOp", "BOTTOM", "Bottom", "bottom", "top", "None", "none", "True", "A-Z[]^_`a-z{}@",
       "AZaz09", "\t"])


def spelling_probe_term(strings):
    """int(s) and s.lower() as the model computes them, for each (7-bit) string"""
    return ("flat_map (fun s => (match py_int s with Some z => [1; z] | None => [0] end) "
            "++ Collator.r_string (lower s)) %s"
            % core.g_list([g_ascii_string(x) for x in strings]))


def check_spelling_probe(rep, strings, toks):
    """the model's int() / lower() against Python's own on every string"""
    d = ou.ODec(toks)
    bad = []
    for x in strings:
        mi = d.Z() if d.Z() == 1 else None
        ml = d.string()
        if mi != real_int(x) or ml != x.lower() or py_int_mirror(x) != real_int(x):
            bad.append({"string": x, "model_int": mi, "python_int": real_int(x), "model_lower": ml,
                        "mirror_int": py_int_mirror(x)})
    assert d.done(), "trailing tokens"
    rep.cov["spellings_probed"] = len(strings)
    for b in bad[:5]:
        rep.violation("model-string-semantics", {"strings": [b["string"]]}, b, {"what": "py_int_lower"})


def case_anchor_strings(case):
    out = []
    lists = [t.get("insertions") or [] for t in case["transforms"].values() if isinstance(t, dict)]
    for dd in case["response"]["result"]["dimensions"]:
        lists.append(((dd.get("references", {}).get("view") or {}).get("transform", {})
                      .get("insertions", [])))
    for l in lists:
        for d in l:
            if isinstance(d, dict) and isinstance(d.get("anchor"), str):
                out.append(d["anchor"])
    return out


def respell_anchors(rng, insertions, malformed):
    """Re-write anchors of the insertion dicts into other spellings of the same meaning (int ->
    numeric string in every form int() accepts; top / bottom -> other letter cases) and, in a
    malformed stream only, into strings that mean nothing (the display raises ValueError)."""
    for d in insertions:
        if not isinstance(d, dict) or "anchor" not in d:
            continue
        a = d["anchor"]
        r = rng.random()
        if isinstance(a, int) and not isinstance(a, bool) and r < 0.35:
            d["anchor"] = rng.choice(numeric_spellings(rng, a))
        elif isinstance(a, str) and a.lower() in ("top", "bottom") and r < 0.3:
            d["anchor"] = "".join(c.upper() if rng.random() < 0.5 else c.lower() for c in a)
        elif malformed and r > 0.9:
            d["anchor"] = rng.choice(BAD_SPELLINGS)


# ------------------------------------------------------------------------------------
# cases
# ------------------------------------------------------------------------------------


def cat_dim_transforms(rng, v, malformed=False, allow_tins=True, strand=False):
    """view insertions on v + a transforms dict for its dimension"""
    valid = gen.valid_cat_ids(v)
    t = {}
    hides = {}
    if rng.random() < 0.45:
        hides = ou.random_hides(rng, valid, p=rng.choice([0.15, 0.3, 0.6]))
        if hides:
            t["elements"] = hides
    hidden_ids = [i for i in valid
                  if isinstance(hides.get(i, hides.get(str(i), {})), dict)
                  and hides.get(i, hides.get(str(i), {})).get("hide") is True]
    if rng.random() < 0.7:
        v.view_insertions = ou.random_insertion_list(rng, v, hidden_ids, malformed=malformed)
        respell_anchors(rng, v.view_insertions, malformed)
    if allow_tins and rng.random() < 0.4:
        t["insertions"] = ou.derive_transform_insertions(rng, v.view_insertions or [], v, hidden_ids)
        if rng.random() < 0.5:
            respell_anchors(rng, t["insertions"], malformed)
    r = rng.random()
    if r < 0.45:
        t["order"] = {"type": "explicit", "element_ids": ou.random_explicit_ids(rng, valid)}
        if rng.random() < 0.05:
            t["order"]["element_ids"] = None
    elif r < 0.5:
        # keywords that mean "payload order" for this kind of partition
        t["order"] = {"type": rng.choice(["payload_order", "bogus"] if strand else
                                         ["payload_order", "bogus", "univariate_measure"])}
    elif r < 0.53:
        t["order"] = {"element_ids": list(valid)[::-1]}          # no type: payload order
    if rng.random() < 0.3:
        t["prune"] = rng.choice([True, True, True, False, "true", 1])
    return t


def mr_dim_transforms(rng, v):
    t = {}
    ids = [it["id"] for it in v.items]
    aliases = [it["alias"] for it in v.items]
    if rng.random() < 0.6:
        pool = ids + aliases + [it["subvar_id"] for it in v.items] + [999, "nope"]
        n = rng.randint(0, len(ids) + 2)
        t["order"] = {"type": "explicit", "element_ids": [rng.choice(pool) for _ in range(n)]}
    if rng.random() < 0.3:
        t["elements"] = {str(rng.choice(ids)): {"hide": True}}
    if rng.random() < 0.3:
        t["prune"] = True
    return t


def make_var(rng, alias, kinds):
    kind = rng.choice(kinds)
    if kind == "cat":
        nv = rng.choice([0, 1, 2, 3, 3, 4, 4, 5, 6])
        return gen.make_cat(rng, alias, n_valid=nv,
                            n_missing=rng.choice([1, 2]) if nv == 0 else None)
    if kind == "mr":
        v = gen.make_mr(rng, alias, n_items=rng.choice([1, 2, 3, 4, 5]))
        if rng.random() < 0.6:
            ou.add_derived_items(rng, v)
        return v
    if kind == "ca":
        return gen.make_ca(rng, alias, n_items=rng.randint(1, 3), n_valid=rng.randint(1, 4))
    raise ValueError(kind)


def gen_case(rng, k, malformed_rate=0.06):
    malformed = rng.random() < malformed_rate
    strand = rng.random() < 0.25
    transforms = {}
    if strand:
        v = make_var(rng, "r", ["cat", "cat", "cat", "mr"])
        variables, aliases = [v], ["r"]
        transforms["rows_dimension"] = (cat_dim_transforms(rng, v, malformed, strand=True)
                                        if v.kind == "cat" else mr_dim_transforms(rng, v))
    else:
        rk = rng.random()
        if rk < 0.1:
            v = make_var(rng, "a", ["ca"])
            variables, aliases = [v], ["a"]
            transforms["rows_dimension"] = mr_dim_transforms(rng, v)
            # the categories dimension of the array carries the insertions
            transforms["columns_dimension"] = cat_dim_transforms(rng, v, malformed)
        else:
            rv = make_var(rng, "r", ["cat", "cat", "cat", "cat", "mr"])
            cv = make_var(rng, "c", ["cat", "cat", "cat", "mr"])
            variables, aliases = [rv, cv], ["r", "c"]
            for key, v in (("rows_dimension", rv), ("columns_dimension", cv)):
                if rng.random() < 0.85:
                    transforms[key] = (cat_dim_transforms(rng, v, malformed) if v.kind == "cat"
                                       else mr_dim_transforms(rng, v))
    n_resp = rng.choice([0, 3, 8, 15, 30])
    sv = gen.Survey(variables, n_resp, rng)
    resp = gen.cube_response(sv, aliases)
    return {"k": k, "strand": strand, "response": resp, "transforms": transforms,
            "malformed": malformed}


# ------------------------------------------------------------------------------------
# (c) references to items of an ARRAY dimension that match nothing are ignored
# ------------------------------------------------------------------------------------
#
# The model of an array dimension is fed with the ids the implementation translated (the
# spellings of an item are C19's), so the correspondence (a) cannot see an id that is
# translated to the WRONG thing.  What C07 says itself is "unknown ids ignored": an id
# that names no item - no alias, no subvariable id, no element id (int or string) and, as
# a number, no zero-based position 0..n-1 - must leave no trace: the same transforms
# without it must give the same partition.  `matches_nothing` only answers True when that
# is certain from the raw response (anything that looks like a known name in ANY spelling
# is left alone), so the leg needs no reading of the translation cascade.

NUMERIC_MEASURES = ("mean", "sum", "stddev", "median")


def array_facts(dim_dict):
    """names of the items of a raw subvariables dimension dict, None for any other dimension"""
    t = (dim_dict or {}).get("type") or {}
    if t.get("class") != "enum" or (t.get("subtype") or {}).get("class") not in ("variable", "num_arr"):
        return None
    aliases, eids, svids = [], [], []
    for e in t.get("elements") or []:
        val = e.get("value") if isinstance(e.get("value"), dict) else {}
        refs = val.get("references") or {}
        eids.append(e.get("id"))
        aliases.append(refs["alias"] if "alias" in refs else e.get("id"))
        if "id" in val:
            svids.append(val["id"])
    return {"aliases": aliases, "eids": eids, "svids": svids, "n": len(eids),
            "kind": "numeric-array" if t["subtype"]["class"] == "num_arr" else "subvariables"}


def numeric_array_dim_dict(response):
    """the subvariables dimension a numeric-array measure stands for (items = the subvariables of
    the measure: element id = position, subvariable id, alias of the subreference), or None"""
    meas = (response.get("result") or {}).get("measures") or {}
    for name in NUMERIC_MEASURES:
        md = (meas.get(name) or {}).get("metadata") or {}
        subvars = (md.get("type") or {}).get("subvariables")
        if name in meas:
            if not subvars:
                return None
            subrefs = (md.get("references") or {}).get("subreferences") or []
            els = [{"id": i, "value": {"id": sv, "references": {
                "alias": subrefs[i].get("alias") if subrefs else None}}} for i, sv in enumerate(subvars)]
            return {"type": {"class": "enum", "subtype": {"class": "num_arr"}, "elements": els}}
    return None


def array_facts_by_key(response, strand):
    """{'rows_dimension': facts | None[, 'columns_dimension': ...]} from the raw response alone"""
    keys = ["rows_dimension"] if strand else ["rows_dimension", "columns_dimension"]
    try:
        dds = list(ou.displayed_dim_dicts(response))
        na = numeric_array_dim_dict(response)
        if na is not None:
            dds = [na] + dds
        dds = dds[:1] if strand else dds[-2:]
        if len(dds) != len(keys):
            return {}
        return {key: array_facts(dd) for key, dd in zip(keys, dds)}
    except (KeyError, TypeError, AttributeError, IndexError):
        return {}


def matches_nothing(x, facts):
    """True only when reference x CERTAINLY names no item of the array dimension"""
    if x is None or isinstance(x, (bool, float)) or not isinstance(x, (int, str)):
        return False
    known = [k for k in facts["aliases"] + facts["eids"] + facts["svids"] if k is not None]
    known_strs = set(str(k).strip() for k in known)
    if str(x) in known_strs or str(x).strip() in known_strs:
        return False
    if isinstance(x, str):
        if not all(ord(c) < 128 for c in x):
            return False
        z = real_int(x)
        if z is None:
            return True                      # no name and no number
    else:
        z = x
    if str(z) in known_strs or any(isinstance(k, int) and k == z for k in known):
        return False
    return not (0 <= z < facts["n"])


def stale_ref_class(x, facts):
    z = x if isinstance(x, int) else real_int(x)
    sp = "int" if isinstance(x, int) else "str"
    if z is None:
        return "non-numeric"
    if z < 0:
        return "negative-%s(%s)" % ("within-minus-n" if -facts["n"] <= z else "below-minus-n", sp)
    return "too-large(%s)" % sp


def stale_refs_pool(rng, facts):
    """references that match nothing on the dimension: negative numbers from -1 down to -n (what a
    position counted from the end would be) and below, numbers >= n, junk - as int and as string"""
    n = facts["n"]
    negs = list(range(-n, 0)) + [-n - 1, -n - 2, -2 * n - 1, -1000]
    out = []
    for z in negs:
        out += [z, str(z)]
        if rng.random() < 0.15:
            out += [" %d" % z, "%d " % z, "-0%d" % -z]
    out += [n + 5, str(n + 5), 999, "999", 32767, "nope", "zz_i9", "0x1", "1.0", "", "--1", "- 1"]
    return [x for x in out if matches_nothing(x, facts)]


def known_refs_pool(facts):
    out = []
    for k in facts["aliases"] + facts["eids"] + facts["svids"]:
        if k is not None and not isinstance(k, (bool, float)):
            out.append(k)
            if isinstance(k, int) and k >= 0:
                out.append(str(k))
    return out


def add_stale_refs(rng, t, facts, slots=("explicit", "hide")):
    """write references that match nothing into the slots of transforms dict t (one dimension)
    that take an item reference; -> [(slot, reference)]"""
    pool = stale_refs_pool(rng, facts)
    # mostly one class at a time, the negative numbers from -1 to -n first (-1 / '-1' is what a
    # removed 'No Data' leaves, and what a position counted from the end would be)
    want = rng.choice(["negative-within", "negative-within", "negative-within", "negative-below",
                       "too-large", "non-numeric", ""])
    pool = [x for x in pool if stale_ref_class(x, facts).startswith(want)] or pool
    known = known_refs_pool(facts)
    done = []
    if not pool:
        return done
    r = rng.random()
    if "explicit" in slots and (r < 0.8 or "hide" not in slots):
        ids = [rng.choice(known) for _ in range(rng.randint(0, facts["n"] + 1))] if known else []
        for _ in range(rng.choice([1, 1, 1, 2, 3])):
            x = rng.choice(pool)
            ids.insert(0 if rng.random() < 0.4 else rng.randint(0, len(ids)), x)
            done.append(("explicit", x))
        t["order"] = {"type": "explicit", "element_ids": ids}
    if "fixed" in slots and isinstance(t.get("order"), dict) and rng.random() < 0.8:
        fixed = dict(t["order"].get("fixed") or {})
        for end in rng.choice([("top",), ("bottom",), ("top", "bottom")]):
            l = list(fixed.get(end) or [])
            x = rng.choice(pool)
            l.insert(rng.randint(0, len(l)), x)
            fixed[end] = l
            done.append(("fixed-" + end, x))
        t["order"]["fixed"] = fixed
    if "hide" in slots and (r >= 0.8 or rng.random() < 0.3):
        els = dict(t.get("elements") or {})
        for _ in range(rng.choice([1, 1, 2])):
            x = rng.choice(pool)
            if isinstance(x, int) and rng.random() < 0.6:
                x = str(x)              # keys of a JSON object are strings
            if x in els or str(x) in [str(k) for k in els]:
                continue
            payload = {"hide": True} if rng.random() < 0.8 else {"name": "renamed stale"}
            els[x] = payload
            done.append(("hide" if "hide" in payload else "rename", x))
        t["elements"] = els
    return done


def drop_unmatched_refs(transforms, facts_by_key):
    """-> (transforms without the references that match nothing on array dimensions, [(key, slot, ref)])"""
    out = copy.deepcopy(transforms) if transforms else {}
    dropped = []
    for key, facts in facts_by_key.items():
        t = out.get(key)
        if facts is None or not isinstance(t, dict):
            continue
        od = t.get("order")
        if isinstance(od, dict):
            lists = []
            if od.get("type") == "explicit" and isinstance(od.get("element_ids"), list):
                lists.append((od, "element_ids", "explicit"))
            fx = od.get("fixed")
            if isinstance(fx, dict):
                lists += [(fx, end, "fixed-" + end) for end in ("top", "bottom") if isinstance(fx.get(end), list)]
            for holder, name, slot in lists:
                keep = []
                for x in holder[name]:
                    if matches_nothing(x, facts):
                        dropped.append((key, slot, x))
                    else:
                        keep.append(x)
                holder[name] = keep
        els = t.get("elements")
        if isinstance(els, dict) and "key" not in els:
            for x in list(els.keys()):
                if matches_nothing(x, facts):
                    dropped.append((key, "element-transform", x))
                    del els[x]
    return out, dropped


def observe_run(case, transforms):
    r = impl.guarded(lambda: impl.partition(copy.deepcopy(case["response"]), copy.deepcopy(transforms)))
    if r[0] != "ok":
        return {"partition": ("exc", r[1])}
    return ou.observe(r[1], case["strand"])


def unmatched_refs_leg(case, rep):
    """(c): the partition with the references that match nothing == the partition without them"""
    facts = array_facts_by_key(case["response"], case["strand"])
    if not any(facts.values()):
        return
    t2, dropped = drop_unmatched_refs(case["transforms"], facts)
    if not dropped:
        return
    rep.dist("leg-c:cases-with-unmatched-array-references")
    for key, slot, x in dropped:
        rep.dist("leg-c:%s:%s:%s" % (facts[key]["kind"], slot, stale_ref_class(x, facts[key])))
    a, b = observe_run(case, case["transforms"]), observe_run(case, t2)
    if a != b:
        diff = sorted(k for k in set(a) | set(b) if a.get(k) != b.get(k))
        rep.violation("unmatched-reference-not-ignored", _replayable(case),
                      {"what": "unknown-ids-ignored", "unmatched_references": dropped,
                       "differs": diff, "with": {k: a.get(k) for k in diff[:4]},
                       "without": {k: b.get(k) for k in diff[:4]}, "transforms_without": t2},
                      {"what": "unknown-ids-ignored"})


def array_var(rng, alias, kind):
    """an array variable: this check's own (ids 1..n or sparse, derived items) or, half of the time,
    the generator of C19's check (zero-based / sparse / shuffled / negative element ids, subvariable
    ids that are digits, aliases that collide with another item's id, missing and inserted items)"""
    if rng.random() < 0.5:
        return make_var(rng, alias, [kind])
    from harness.props import c19_util
    return c19_util.make_array_var(rng, alias, kind)


def gen_stale_ref_case(rng, k, slots=("explicit", "hide")):
    """stream of leg (c): MR / CA / numeric-array dimensions (strands, rows, columns) whose explicit
    order, hide / rename keys name references that match nothing - above all negative numbers"""
    from harness.props import c19_util
    layout = rng.choice(["mr", "mr_x_cat", "cat_x_mr", "mr_x_mr", "ca", "numarr", "numarr_x_cat"])
    strand = layout in ("mr", "numarr")
    transforms = {}
    if layout.startswith("numarr"):
        resp = c19_util.numarr_response(rng, rng.randint(1, 5), by_cat=(layout == "numarr_x_cat"))
    else:
        cat = lambda a: make_var(rng, a, ["cat"])                      # noqa: E731
        variables, aliases = {
            "mr": lambda: ([array_var(rng, "r", "mr")], ["r"]),
            "mr_x_cat": lambda: ([array_var(rng, "r", "mr"), cat("c")], ["r", "c"]),
            "cat_x_mr": lambda: ([cat("r"), array_var(rng, "c", "mr")], ["r", "c"]),
            "mr_x_mr": lambda: ([array_var(rng, "r", "mr"), array_var(rng, "c", "mr")], ["r", "c"]),
            "ca": lambda: ([array_var(rng, "a", "ca")], ["a"]),
        }[layout]()
        if layout != "ca":
            for key, v in zip(("rows_dimension", "columns_dimension"), variables):
                if v.kind == "cat" and rng.random() < 0.5:
                    transforms[key] = cat_dim_transforms(rng, v, strand=strand)
        sv = gen.Survey(variables, rng.choice([3, 8, 15, 30]), rng)
        resp = gen.cube_response(sv, aliases)
    facts = array_facts_by_key(resp, strand)
    written = []
    for key, f in facts.items():
        if f is None:
            continue
        t = transforms.setdefault(key, {})
        if rng.random() < 0.2:
            t["prune"] = True
        written += add_stale_refs(rng, t, f, slots)
    return {"k": k, "strand": strand, "response": resp, "transforms": transforms, "malformed": False,
            "stale_refs": layout if written else None}


# ------------------------------------------------------------------------------------
# one case: implementation, model terms, comparison
# ------------------------------------------------------------------------------------


def prepare(case):
    """Run the implementation, build the model terms.  Returns dict or ('skip', why)."""
    strand = case["strand"]
    r = impl.guarded(lambda: impl.partition(case["response"], case["transforms"]))
    if r[0] != "ok":
        return ("skip", "partition-raises:%s" % r[1])
    part = r[1]
    obs = ou.observe(part, strand)
    emp = ou.reported_empties(part, strand)
    if emp[0] != "ok":
        return ("skip", "empties-unavailable:%s" % (emp[1],))
    try:
        ms = ou.dim_models(part, case["response"], case["transforms"], strand)
    except ou.Unsupported as e:
        return ("skip", "unsupported:%s" % e)
    except Exception as e:          # the implementation cannot even build its dimensions
        return ("skip", "dims-unavailable:%s" % type(e).__name__)
    for m, e in zip(ms, emp[1]):
        m.empties = e
    terms = []
    for k, m in enumerate(ms):
        opp = None if strand else ms[1 - k]
        psub = "false" if opp is None else ou.psub_term(opp)
        terms.append(ou.run_dim_term(m, ou.anchored_ordering_term(m.order_dict), m.empties, psub))
        terms.append("run_spec_ids %s" % m.term)
    return {"obs": obs, "models": ms, "terms": terms}


def oracle_renderings(axis, obs):
    """'ins_N' and signed renderings must name the same sequence (implementation only)."""
    s, b, c = obs[axis + "_order"], obs[axis + "_order_bogus"], obs[axis + "_codes"]
    if s[0] != "ok":
        return None if b[0] != "ok" else {"signed": s, "bogus": b}
    if b[0] != "ok" or c[0] != "ok":
        return {"signed": s, "bogus": b}
    want = [("base", z) if z >= 0 else ("ins", int(code)) for z, code in zip(s[1], c[1])]
    if want != b[1]:
        return {"signed": s[1], "codes": c[1], "bogus": b[1], "bogus_expected": want}
    return None


def check_case(case, prep, results, rep):
    """-> list of (kind, what, detail, ctx)"""
    out = []
    obs, ms = prep["obs"], prep["models"]
    strand = case["strand"]
    axes = ["row"] if strand else ["row", "column"]
    shape = []
    for k, (axis, m) in enumerate(zip(axes, ms)):
        dec = ou.decode_run_dim(results[2 * k])
        sd = ou.ODec(results[2 * k + 1])
        spec_ids = sd.list(lambda: sd.opt(sd.Z))
        for what, detail in ou.compare_dim(axis, m, dec, obs, strand):
            out.append(("impl-vs-model", what, detail, {"what": what}))
        shape.append(("ok", len(dec["signed"][1])) if dec["signed"][0] == "ok" else dec["signed"])
        # (b1) renderings agree
        bad = oracle_renderings(axis, obs)
        if bad is not None:
            out.append(("renderings-disagree", axis + ".renderings_agree", bad,
                        {"what": "renderings_agree"}))
        # (b2) ids of insertions as the specification numbers them
        if not m.array and spec_ids != [z for z in dec["sub_ids"]]:
            # the model's ids are the implementation's (checked above through the codes)
            out.append(("ids-not-as-specified", axis + ".ids_assigned",
                        {"spec": spec_ids, "impl(model)": dec["sub_ids"],
                         "insertions": m.source_list()},
                        {"what": "ids_assigned"}))
    # shape / is_empty
    if all(s[0] == "ok" for s in shape):
        want = ("ok", [s[1] for s in shape])
        if obs["shape"] != want:
            out.append(("impl-vs-model", "shape", {"model": want, "impl": obs["shape"]},
                        {"what": "shape"}))
        we = ("ok", any(s[1] == 0 for s in shape))
        if obs["is_empty"] != we:
            out.append(("impl-vs-model", "is_empty", {"model": we, "impl": obs["is_empty"]},
                        {"what": "is_empty"}))
    return out


def features(case, prep):
    f = []
    for m in prep["models"]:
        if m.array:
            f.append("array-dim")
        if m.view:
            f.append("view-insertions")
        if m.tins is not None:
            f.append("transform-insertions")
        if m.order_dict.get("type") == "explicit":
            f.append("explicit-order")
        if m.prune:
            f.append("prune")
        for d in (m.view or []) + (m.tins or []):
            if isinstance(d, dict):
                a = d.get("anchor")
                f.append("anchor:" + ("none" if a is None else "int" if isinstance(a, int)
                                      else ("numstr" if a.lstrip("+-").isdigit() else "numstr-blank/_/0")
                                      if py_int_mirror(a) is not None
                                      else a.lower() if a.lower() in ("top", "bottom") else "other"))
                f.append("ins-with-id" if "id" in d else "ins-without-id")
    return sorted(set(f))


def _replayable(case):
    return {"response": case["response"], "transforms": case["transforms"],
            "strand": case["strand"], "k": case.get("k")}


def run_cases(rep, cases, probe=False):
    preps, terms = [], []
    for case in cases:
        p = prepare(case)
        preps.append(p)
        if isinstance(p, dict):
            terms.extend(p["terms"])
    probe_strings = []
    if probe:
        seen = set()
        for x in PROBE_STRINGS + [a for case in cases for a in case_anchor_strings(case)]:
            if x not in seen and all(ord(c) < 128 for c in x):
                seen.add(x)
                probe_strings.append(x)
        terms = terms + [spelling_probe_term(probe_strings)]
    results, coq_s = core.run_coq_cases(PID, ou.IMPORTS, terms) if terms else ([], 0.0)
    if probe:
        check_spelling_probe(rep, probe_strings, results[-1])
    pos = 0
    for case, p in zip(cases, preps):
        if case.get("stale_refs"):
            rep.dist("stream:stale-array-references:" + case["stale_refs"])
        unmatched_refs_leg(case, rep)
        if not isinstance(p, dict):
            rep.count_case(_replayable(case), bool(case.get("stale_refs")))
            rep.dist("skipped:" + p[1].split(":")[0])
            if p[1].startswith("partition-raises") and not case.get("malformed"):
                rep.violation("impl-exception", _replayable(case), {"why": p[1]},
                              {"what": "partition-raises"})
            continue
        res = results[pos:pos + len(p["terms"])]
        pos += len(p["terms"])
        feats = features(case, p)
        rep.count_case(_replayable(case), bool(feats))
        rep.dist("strand" if case["strand"] else "slice")
        for f in feats:
            rep.dist(f)
        if case.get("malformed"):
            rep.dist("malformed-stream")
        rep.sample({"transforms": case["transforms"], "strand": case["strand"]})
        for kind, what, detail, ctx in check_case(case, p, res, rep):
            rep.violation(kind, _replayable(case), dict(detail, what=what), ctx)
    return coq_s, len(terms)


# ------------------------------------------------------------------------------------
# (d) ONE transforms dict object for a sequence of cubes over DIFFERENT array variables
# ------------------------------------------------------------------------------------
#
# "In the listed order" refers to the list the CALLER wrote.  A client applies one transforms
# dict (two waves of a tracker, a CubeSet given [t, t]) to several cubes, so the order of cube k
# of such a sequence must be the order of cube k alone: a function of its response and of the
# transforms AS WRITTEN, not of the cubes the same dict object met before.  The cube sequences
# (other array variable - other subvariable aliases, other number of items - per cube; element
# ids / subvariable ids shared) come from the generator of C09's leg (c); the transforms are this
# property's: explicit orders by element id / subvariable id / alias / category id, repeats and
# stale ids, anchored insertions (view and transforms), hides, prune.
#   (rel)  every cube (every slice) shows the same orders in both formats, labels, codes,
#          payload_order and shape as a fresh cube on the same response given its OWN deep copy
#          of the transforms as written;
#   (abs)  on an array axis the displayed base elements stand in the order the property text
#          gives - listed ones first (first mention wins, references that name nothing ignored),
#          then the unlisted in payload order - the listed element being decided by the
#          generator's own record (c09.seq_resolve; lists with a reference only the id cascade
#          of C19 can read are left to (rel)).
# The machinery (sharing levels, runner, comparison) is shared with C08's leg (d).

SEQ_LEG = "shared-transforms"
N_SEQ_QUICK = 200
SEQ_AXIS_KEYS = ["rows_dimension", "columns_dimension"]
SEQ_SHARES = [("whole", 6), ("dimension", 2), ("order", 2)]
SEQ_READS = [("interleaved", 6), ("build-all-then-read", 2), ("build-all-then-read-reversed", 1), ("CubeSet", 2)]


def seq_ref_pools(cubes, idx):
    """([(how, key)] every spelling by which a base element of the axis transforms key #idx faces in the
    cubes of the sequence can be named, the element-id / subvariable-id spellings of the FIRST cube's array
    items (what a caller who wrote the transforms with the first cube in mind uses))"""
    pool = c09.seq_key_pool(cubes, idx)
    first = c09.seq_key_pool(cubes[:1], idx)
    by_id = [p for p in first if p[0] in ("eid", "svid")] or [p for p in pool if p[0] in ("eid", "svid")]
    return pool, by_id


def seq_refs(rng, pool, by_id, n, stats, slot, p_id=0.75):
    """n references for a list slot: element ids / category ids as int or decimal string, subvariable ids,
    aliases; now and then one that names nothing"""
    out = []
    for _ in range(n):
        r = rng.random()
        if r < 0.06 or not pool:
            out.append(rng.choice([999, "999", "nope", -7]))
            stats.append(slot + ":names-nothing")
            continue
        how, key = rng.choice(by_id if (r < p_id and by_id) else pool)
        out.append(int(key) if how in ("eid", "catid") and rng.random() < 0.5 else key)
        stats.append("%s:%s" % (slot, how))
    return out


def seq_insertions(rng, prefix, cat_ids):
    """anchored subtotal insertions over category ids (top / bottom / an element in int or string
    spelling / stale / null anchors; with ids, without, or partly)"""
    ids_mode = rng.choice(["all", "none", "some"])
    nums = rng.sample(range(1, 9), 3)
    out = []
    for k in range(rng.choice([1, 1, 2, 3])):
        a = rng.random()
        anchor = ("top" if a < 0.15 else "bottom" if a < 0.3 else "Top" if a < 0.35 else None if a < 0.4
                  else 999 if a < 0.47 else rng.choice(cat_ids))
        if isinstance(anchor, int) and rng.random() < 0.3:
            anchor = str(anchor)
        d = {"function": "subtotal", "name": "%s_%d" % (prefix, k), "anchor": anchor,
             "args": rng.sample(cat_ids, rng.randint(1, min(3, len(cat_ids))))}
        if ids_mode == "all" or (ids_mode == "some" and rng.random() < 0.5):
            d["id"] = nums[k]
        out.append(d)
    return out


def seq_add_view_insertions(rng, spec, p=0.4):
    """insertions defined on the variable (its view) for the categorical dimensions of the cube's response"""
    done = False
    for n, dd in enumerate(spec["response"]["result"]["dimensions"]):
        t = dd.get("type") or {}
        cats = t.get("categories") or []
        if t.get("class") != "categorical" or any(c.get("selected") for c in cats) or rng.random() >= p:
            continue
        valid = [c["id"] for c in cats if not c.get("missing")]
        if valid:
            dd.setdefault("references", {})["view"] = {
                "transform": {"insertions": seq_insertions(rng, "v%d" % n, valid)}}
            done = True
    return done


def seq_cubes(rng, n_cubes, mode, p_view=0.4):
    """2..3 cubes over different array variables (generator of C09's leg (c)); the third one is the first
    once more 30% of the time"""
    names, weights = zip(*c09.SEQ_LAYOUTS)
    cubes, stats = [], []
    for j in range(n_cubes):
        if j == 2 and rng.random() < 0.3:
            cubes.append(copy.deepcopy(cubes[0]))
            cubes[-1]["repeat_of"] = 0
            continue
        cubes.append(c09.seq_cube(rng, j, rng.choices(names, weights)[0], mode))
        if seq_add_view_insertions(rng, cubes[-1], p_view):
            stats.append("view-insertions")
    return cubes, stats


def seq_decorate(rng, t, pool, by_id, idx, stats, p_ins=0.35):
    """hides / prune / transforms insertions of one dimension (in place on t)"""
    if pool and rng.random() < 0.25:
        how, key = rng.choice(by_id if (by_id and rng.random() < 0.7) else pool)
        t["elements"] = {key: {"hide": True}}
        stats.append("hide:" + how)
    if rng.random() < 0.25:
        t["prune"] = True
    cat_ids = [int(k) for how, k in pool if how == "catid"]
    if cat_ids and rng.random() < p_ins:
        t["insertions"] = seq_insertions(rng, "tx%d" % idx, cat_ids)
        stats.append("transforms-insertions")


def seq_dim_transforms(rng, cubes, idx, stats):
    """what the caller writes for the rows (idx 0) / columns (idx 1) of the whole sequence"""
    pool, by_id = seq_ref_pools(cubes, idx)
    t = {}
    r = rng.random()
    if r < 0.88 and pool:
        ids = seq_refs(rng, pool, by_id, rng.choice([1, 2, 2, 3, 3, 4]), stats, "explicit")
        if rng.random() < 0.2:
            ids.append(rng.choice(ids))                      # named twice: the first mention wins
            stats.append("explicit:repeat")
        t["order"] = {"type": "explicit", "element_ids": ids}
    elif r < 0.94:
        t["order"] = {"type": "payload_order"}
    seq_decorate(rng, t, pool, by_id, idx, stats)
    return t


def seq_sharing(rng, dims):
    """how the sequence is handed its transforms"""
    same_object = dims == [0] and rng.random() < 0.15
    share = rng.choices(*zip(*SEQ_SHARES))[0]
    read = rng.choices(*zip(*SEQ_READS))[0]
    return {"same_object": same_object, "share": share, "read": read}


def gen_seq_case(rng, k):
    mode = rng.choice(["numeric", "token", "token"])
    cubes, stats = seq_cubes(rng, rng.choice([2, 2, 2, 3]), mode)
    which = rng.random()
    dims = [0, 1] if which < 0.45 else [0] if which < 0.8 else [1]
    transforms = {}
    for idx in dims:
        transforms[SEQ_AXIS_KEYS[idx]] = seq_dim_transforms(rng, cubes, idx, stats)
    case = {"leg": SEQ_LEG, "k": k, "cubes": cubes, "transforms": transforms, "svid_mode": mode, "stats": stats}
    case.update(seq_sharing(rng, dims))
    return case


def seq_for_cube(case):
    """-> f(j): the transforms object handed to cube j of the sequence.  One deep copy of the transforms as
    written is made for the whole sequence; `share` says which level of it is the SAME OBJECT for every
    cube: the whole dict, the dimension dicts (own top-level dict per cube), or the dicts / lists below
    the dimension level (own top-level and dimension dicts per cube, one 'order' / 'elements' object)"""
    t = copy.deepcopy(case["transforms"])
    if case.get("same_object"):
        t["columns_dimension"] = t["rows_dimension"]          # the same dict object for both axes
    share = case.get("share", "whole")
    if share == "whole":
        return lambda j: t
    if share == "dimension":
        return lambda j: dict(t)
    return lambda j: {key: dict(d) for key, d in t.items()}


def seq_run(case, shared, **cube_kw):
    """observations [cube][slice] -> dict.  `shared`: the cubes are handed one transforms object (see
    `seq_for_cube`) and read in the order of the case; else every cube gets its own pristine deep copy of
    the transforms as written (c09.seq_written).  Read 'CubeSet': the cubes are those a CubeSet builds from
    the list of responses and the list [t, t(, t)] (reference: a CubeSet given a pristine copy per cube)."""
    specs = case["cubes"]
    tr = seq_for_cube(case) if shared else (lambda j: c09.seq_written(case))
    if case["read"] == "CubeSet":
        def cubes_of_set():
            cs = impl.CubeSet([copy.deepcopy(s["response"]) for s in specs],
                              transforms=[tr(j) for j in range(len(specs))], population=cube_kw.get("population"),
                              min_base=0)
            return list(cs._cubes)
        r = impl.guarded(cubes_of_set)
        if r[0] != "ok":
            return [[{"cube_set": ("exc", r[1])}] for _ in specs]
        return [c09.seq_read(("ok", cube), spec) for cube, spec in zip(r[1], specs)]
    mk = lambda j: impl.guarded(  # noqa: E731
        lambda: impl.Cube(copy.deepcopy(specs[j]["response"]), transforms=tr(j), **cube_kw))
    if case["read"] == "interleaved" or not shared:
        return [c09.seq_read(mk(j), specs[j]) for j in range(len(specs))]
    built = [mk(j) for j in range(len(specs))]
    idxs = list(range(len(built)))
    if case["read"].endswith("reversed"):
        idxs.reverse()
    out = [None] * len(built)
    for i in idxs:
        out[i] = c09.seq_read(built[i], specs[i])
    return out


def seq_rel_diffs(case, got, ref):
    """(rel): [(what, detail)] fields that differ between the shared run and the fresh-copy run"""
    out = []
    for ci, spec in enumerate(case["cubes"]):
        g, f = got[ci], ref[ci]
        tag = "cube%d(%s)" % (ci, spec["layout"])
        if len(g) != len(f):
            out.append((tag + ".partitions", {"shared": g, "fresh": f}))
            continue
        for si, (og, of) in enumerate(zip(g, f)):
            for field in sorted(set(og) | set(of)):
                if og.get(field) != of.get(field):
                    out.append(("%s.slice%d.%s" % (tag, si, field),
                                {"with_shared_dict": og.get(field), "with_own_fresh_copy": of.get(field),
                                 "transforms_as_written": case["transforms"], "cube": ci, "slice": si,
                                 "share": case.get("share"), "read": case.get("read")}))
    return out


def seq_refs_in_two_cubes(case, lists_of):
    """does an element-id / subvariable-id reference of a list slot (`lists_of(dimension transforms)` ->
    lists) name an item of two cubes of the sequence whose array dimensions have other aliases - the class
    the leg exists for"""
    w = c09.seq_written(case)
    for idx, key in enumerate(SEQ_AXIS_KEYS):
        for l in lists_of(w.get(key) or {}):
            for x in l or []:
                seen = set()
                for spec in case["cubes"]:
                    if idx < len(spec["axes"]) and spec["axes"][idx]["kind"] == "array":
                        ax = spec["axes"][idx]
                        i = c09.seq_resolve(str(x), ax)
                        if i not in (None, c09.AMBIG) and str(x) != ax["aliases"][i]:
                            seen.add(ax["aliases"][i])
                if len(seen) >= 2:
                    return True
    return False


def seq_explicit_lists(td):
    od = td.get("order")
    return [od.get("element_ids")] if isinstance(od, dict) and od.get("type") == "explicit" else []


def seq_expected_base_order(case, spec, idx):
    """(abs): payload indexes of ALL base elements of array axis idx in the order the property text gives
    them, or None (no array axis / a reference only the id cascade can read / another order type)"""
    if idx >= len(spec["axes"]) or spec["axes"][idx]["kind"] != "array":
        return None
    ax = spec["axes"][idx]
    td = c09.seq_written(case).get(SEQ_AXIS_KEYS[idx]) or {}
    od = td.get("order") or {}
    listed = []
    if od.get("type") == "explicit":
        for x in od.get("element_ids") or []:
            i = c09.seq_resolve(str(x), ax)
            if i == c09.AMBIG:
                return None
            if i is not None and i not in listed:
                listed.append(i)
    elif od.get("type") not in (None, "payload_order"):
        return None
    return listed + [i for i in range(ax["n"]) if i not in listed]


def seq_abs_check(case, got):
    """-> ([(what, detail)], number of array axes checked, number of those whose listed order moves an item)"""
    out, n_axes, n_moved = [], 0, 0
    for ci, spec in enumerate(case["cubes"]):
        if case["read"] == "CubeSet" or len(got[ci]) != len(spec["slices"]):
            continue            # a CubeSet slices a categorical array by subvariable: (rel) only
        for idx, axis in enumerate(["row"] if spec["strand"] else ["row", "column"]):
            exp = seq_expected_base_order(case, spec, idx)
            if exp is None:
                continue
            ax = spec["axes"][idx]
            for si, og in enumerate(got[ci]):
                o, lab = og.get(axis + "_order"), og.get(axis + "_labels")
                if not o or o[0] != "ok":
                    continue
                n_axes += 1
                n_moved += exp != sorted(exp)
                shown = [z for z in o[1] if z >= 0]
                want = [i for i in exp if i in set(shown)]
                tag = "cube%d(%s).slice%d.%s" % (ci, spec["layout"], si, axis)
                if shown != want or len(set(shown)) != len(shown):
                    out.append((tag + ".listed_order",
                                {"impl_order": o[1], "displayed_base_elements": shown, "property_text_order": want,
                                 "order_of_all_base_elements": exp, "cube": ci, "slice": si,
                                 "items": {k: ax[k] for k in ("eids", "svids", "aliases")},
                                 "transforms_as_written": case["transforms"]}))
                elif lab and lab[0] == "ok" and len(lab[1]) == len(o[1]):
                    bad = [(z, l) for z, l in zip(o[1], lab[1]) if z >= 0 and l != ax["names"][z]]
                    if bad:
                        out.append((tag + ".labels", {"impl_labels": lab[1], "order": o[1],
                                                      "not_the_label_of_the_element": bad[:3]}))
    return out, n_axes, n_moved


def _seq_replayable(case):
    return {k: case[k] for k in ("leg", "k", "cubes", "transforms", "same_object", "share", "read", "svid_mode",
                                 "stats") if k in case}


def seq_dist(rep, case, two, two_key):
    p = SEQ_LEG + ":"
    rep.dist(p + "sequences")
    rep.dist(p + "cubes-in-sequence=%d" % len(case["cubes"]))
    rep.dist(p + "read:" + case["read"])
    rep.dist(p + "one-object:" + case.get("share", "whole"))
    rep.dist(p + "subvariable-ids:" + case["svid_mode"])
    for spec in case["cubes"]:
        rep.dist(p + "cube:" + spec["layout"])
        if len(spec["slices"]) > 1:
            rep.dist(p + "3-D-cube-with-2+-slices")
        if "repeat_of" in spec:
            rep.dist(p + "first-cube-again-after-another")
    for s in case["stats"]:
        rep.dist(p + s)
    for key in SEQ_AXIS_KEYS:
        if key in case["transforms"]:
            rep.dist(p + key)
    if case.get("same_object"):
        rep.dist(p + "rows-and-columns-are-one-dict-object")
    if two:
        rep.dist(p + two_key)


def run_seq_cases(rep, cases):
    for case in cases:
        case = core.jsonable(case)              # what a replay file gives back
        got = seq_run(case, shared=True)
        ref = seq_run(case, shared=False)
        found = [("shared-transforms-order", w, d) for w, d in seq_rel_diffs(case, got, ref)]
        afound, n_axes, n_moved = seq_abs_check(case, got)
        found += [("shared-transforms-listed-order", w, d) for w, d in afound]
        two = seq_refs_in_two_cubes(case, seq_explicit_lists)
        rep.count_case(_seq_replayable(case), two or n_moved > 0)
        seq_dist(rep, case, two, "explicit-id-reference-names-an-item-in-2+-cubes-with-other-aliases")
        rep.dist(SEQ_LEG + ":array-axes:absolute-oracle", n_axes)
        rep.dist(SEQ_LEG + ":array-axes:listed-order-moves-an-item", n_moved)
        if two:
            rep.sample({"leg": SEQ_LEG, "transforms": case["transforms"], "share": case["share"],
                        "cubes": [c["layout"] for c in case["cubes"]], "read": case["read"]}, limit=4)
        for kind, what, detail in found:
            rep.violation(kind, _seq_replayable(case), dict(detail, what=what),
                          {"what": what.split(".")[-1], "leg": SEQ_LEG,
                           "kinds": "+".join(c["layout"] for c in case["cubes"])})


# ------------------------------------------------------------------------------------
# exhaustive small scope (thorough tier): every anchor spelling x explicit list x hidden set
# ------------------------------------------------------------------------------------


def small_scope_cases(rng, limit):
    """All configurations of a 3-category dimension (ids 1,2,5 + a missing 9) with up to two
    view insertions over a fixed anchor alphabet, a few explicit lists and hidden sets."""
    anchors = [1, "2", "top", "Top", "bottom", None, 9, 77, 5, " 1", "+5 "]
    explicit = [None, [5, 1], [2, 2, 77, 1], [5, 2, 1]]
    hidden = [(), (1,), (2, 5)]
    out = []
    base_v = gen.make_cat(random.Random(1), "r", n_valid=3, n_missing=1, ids=[1, 2, 5, 9],
                          missing_anywhere=False)
    cv = gen.make_cat(random.Random(2), "c", n_valid=2, n_missing=0, ids=[1, 2])
    combos = list(itertools.product(anchors, anchors, [True, False], explicit, hidden))
    rng.shuffle(combos)
    for a1, a2, with_ids, ex, hid in combos[:limit]:
        v = copy.deepcopy(base_v)
        ins = [{"function": "subtotal", "name": "A", "anchor": a1, "args": [1, 2]},
               {"function": "subtotal", "name": "B", "anchor": a2, "args": [5]}]
        if with_ids:
            ins[0]["id"], ins[1]["id"] = 4, 2
        v.view_insertions = ins
        t = {}
        if ex is not None:
            t["order"] = {"type": "explicit", "element_ids": ex}
        if hid:
            t["elements"] = {str(i): {"hide": True} for i in hid}
        sv = gen.Survey([v, cv], 12, random.Random(3))
        out.append({"k": len(out), "strand": False, "malformed": False,
                    "response": gen.cube_response(sv, ["r", "c"]),
                    "transforms": {"rows_dimension": t}})
    return out


def run(tier, seed):
    rep = core.Report(PID, tier, seed)
    ob = core.obligations_gate(rep, PID)
    n_cases = 400 if tier == "quick" else 6000
    rng = random.Random(seed)
    cases = [gen_case(rng, k) for k in range(n_cases)]
    cases += small_scope_cases(rng, 150 if tier == "quick" else 2904)
    # own generator state: the streams above stay what they were for a given seed
    rng_sr = random.Random("C07-stale-array-references-%s" % seed)
    n_sr = 150 if tier == "quick" else 2000
    # the explicit id list alone first (it is this property's slot), then together with hide / rename keys
    cases += [gen_stale_ref_case(rng_sr, len(cases) + k, ("explicit",) if k < n_sr // 2 else ("explicit", "hide"))
              for k in range(n_sr)]
    coq_s, n_terms = run_cases(rep, cases, probe=True)
    n_seq = N_SEQ_QUICK if tier == "quick" else 3000
    rng_seq = random.Random("C07/%s/%s" % (SEQ_LEG, seed))     # own stream: the cases above stay as they were
    run_seq_cases(rep, [gen_seq_case(rng_seq, k) for k in range(n_seq)])
    rep.cov["rule"] = (
        "cases from random.Random(seed): CAT / MR (with derived before/after/top/bottom items) / CA "
        "dimensions of 0..6 valid elements (ids incl. -1, 0, 32767, missing categories anywhere), "
        "slices and strands; view and/or transform insertion lists with anchors int / numeric "
        "string in every spelling int() accepts ('3', '+3', ' 3', '3 ', '03', '3_2') / top / Top / "
        "BOTTOM / null / stale / missing / hidden-element and, in malformed streams, strings int() "
        "rejects ('0x3', '+ 3', '3_', ' top', ''), with, without or partly with ids, hidden copies, "
        "malformed entries; explicit orders (permutations, subsets, repeats, stale ids, string "
        "spellings, null), unknown order types; hide and prune flags; + a small-scope enumeration "
        "(3 elements x 2 insertions x 11 anchors^2 x 4 explicit lists x 3 hidden sets; sampled in "
        "quick, exhaustive in thorough); + a probe of the model's int() / lower() against Python's "
        "on every generated anchor string and a fixed list (tabs, newlines, underscores, signs, hex, "
        "25-digit numbers); + leg (c) stream, 150 cases (2000 thorough, own generator state): MR / CA / "
        "numeric-array dimensions as strand, rows or columns with explicit id lists (first half) and hide / "
        "rename keys (second half) naming references that match nothing: negative ints / numeric strings "
        "in -n..-1 and below -n, numbers >= n, non-numeric strings (distribution keys leg-c:<dimension "
        "kind>:<slot>:<class>); leg (c) itself runs on every case of every stream. non-trivial = some "
        "insertion, explicit order, prune or array dimension present; distinct by content hash; + leg (d) "
        "(shared-transforms:* keys, own random stream): N_SEQ sequences of 2 (75%) or 3 cubes over different array "
        "variables of 2..5 items (layouts and surveys of C09's leg (c); third cube = the first again 30%; view "
        "insertions on 40% of the categorical dimensions), ONE transforms object for the sequence (whole dict 60%, "
        "dimension dicts 20%, 'order' / 'elements' level 20%; rows+columns 45%, rows 35%, columns 20%; one dict "
        "for both axes 15% of rows-only): explicit order 88% (1..4 references, 75% element id / subvariable id of "
        "the first cube's array, else any spelling of any cube incl. alias and category id; ids as int or string; "
        "6% name nothing; 20% a repeat), payload_order 6%, hide 25%, prune 25%, transforms insertions 35% of the "
        "axes that face a categorical dimension; read interleaved 55%, all built first 18%, reversed 9%, as the "
        "cubes of a CubeSet 18%; every sequence is run a second time with a pristine deep copy per cube; "
        "non-trivial = an id reference of the explicit list names an item in two cubes with other aliases, or a "
        "listed order moves an item of an array axis").replace("N_SEQ", str(n_seq))
    rep.cov["coq_eval_seconds"] = round(coq_s, 2)
    rep.cov["model_terms_evaluated"] = n_terms
    rep.assumptions = [
        "for array (MR/CA subvariable) dimensions the shimmed element ids / order ids / hidden set are "
        "taken from the implementation (identifier translation is owned by C19); leg (c) alone is independent "
        "of it: which references match nothing is decided from the raw response, conservatively (anything "
        "that equals an alias / subvariable id / element id in some spelling, bools, floats, null and "
        "non-ASCII strings are left alone)",
        "NUM_ARRAY x CAT slices are outside the model correspondence (a) (skipped:dims-unavailable); they are "
        "checked by leg (c) only",
        "empty-vector indexes are the implementation's own pruning masks (the pruning rule is C09's)",
        "anchors / ids that are floats or bools, and anchor strings with non-ASCII characters (int() reads "
        "non-ASCII digits and blanks, lower() non-ASCII letters) are outside the model (Spec/OrderSpec.v "
        "py_int / lower are the ASCII semantics) and are not generated; a blank other than the space "
        "cannot be written in a generated case (harness.core.g_str) and is only covered by the probe",
    ]
    return rep.finish("proof", ob, trusted_base=core.TRUSTED_BASE_COMMON + [
        "Model/Collator.v is hand-written; tied to dimension.py (_Subtotals, _Subtotal.anchor, hidden_idxs, prune) and "
        "the order helpers of matrix/stripe assembler.py by this correspondence run only; every member of "
        "PayloadOrderCollator / ExplicitOrderCollator (collator.py) is ALSO tied to the source text by the C07_gen_* "
        "obligations (Proofs/GenAgreeCollatorAnchored.v)",
        _collator_trusted_base()])


def _collator_trusted_base():
    try:
        from harness.translate import x_collator
        return x_collator.TRUSTED_BASE
    except Exception:  # the translator module is missing: the obligations gate reports it
        return "collator translator harness/translate/x_collator.py not importable"


def replay(path):
    d = json.load(open(path))
    case = d["violation"]["case"]
    case.setdefault("malformed", False)
    rep = core.Report(PID, "quick", d.get("seed", 0))
    rep.findings = []          # a replay shows everything that still differs
    if case.get("leg") == SEQ_LEG:
        run_seq_cases(rep, [case])
    else:
        run_cases(rep, [case])
    for v in rep.violations:
        print("REPLAY still fails:", json.dumps(core.jsonable(v["detail"]))[:700])
    if not rep.violations:
        print("REPLAY: no longer fails")
    return 1 if rep.violations else 0
