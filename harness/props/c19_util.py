# -*- coding: utf-8 -*-
"""Helpers shared by the C19 (spellings of array items) and C18 (access histories) checks.

* generators of array-type dimensions (MR with derived/inserted items, CA, numeric arrays)
  and datetime dimensions, with the id schemes the resolution cascade can confuse;
* extraction of the model's view of a dimension (`adim`) from the RAW response JSON
  (independent of the library);
* Gallina emitters / token decoders mirroring coq/Base/Ident.v and coq/Model/Shim.v;
* the side conditions of the spelling theorems of coq/Props/C19.v, re-stated in Python
  (used to decide when the relational oracle applies).
"""
import copy
import random  # noqa: F401
from fractions import Fraction

from harness import core, gen

ABSENT = "__absent__"

# ------------------------------------------------------------------------------------
# Gallina emitters
# ------------------------------------------------------------------------------------


def g_ident(x):
    if x is None:
        return "INone"
    if isinstance(x, bool):
        raise ValueError("bool identifiers are outside the model")
    if isinstance(x, int):
        return "(IInt %s)" % core.g_Z(x)
    if isinstance(x, str):
        return "(IStr %s)" % core.g_str(x)
    raise ValueError("identifier outside the model: %r" % (x,))


def g_opt(x, f, absent=ABSENT):
    return "None" if x == absent else "(Some %s)" % f(x)


def g_item(it):
    return "(mk_item %s %s %s %s %s)" % (
        g_ident(it["eid"]),
        g_opt(it["svid"], g_ident),
        g_opt(it["aref"], g_ident),
        core.g_bool(it["ins"]),
        core.g_bool(it["missing"]),
    )


def g_adim(d):
    return "(mk_adim %s %s)" % (core.g_list([g_item(i) for i in d["items"]]), core.g_bool(d["mr_ins"]))


def g_idents(l):
    return core.g_list([g_ident(x) for x in l])


def g_optlist(l):
    return "None" if l is None else "(Some %s)" % g_idents(l)


class Payloads(object):
    """Opaque payloads of element transforms <-> integers."""

    def __init__(self):
        self.items = []

    def idx(self, obj):
        key = core.case_hash(obj)
        for k, (h, _o) in enumerate(self.items):
            if h == key:
                return k
        self.items.append((key, copy.deepcopy(obj)))
        return len(self.items) - 1


def g_eval(key, v, pay):
    if key == "key" and v == "alias":
        return "KeyAlias"
    if key == "key" and v == "subvar_id":
        return "KeySubvar"
    return "(Payload %s)" % core.g_Z(pay.idx(v))


def g_edict(e, pay):
    if e is None:
        return "None"
    return "(Some %s)" % core.g_list(
        ["(%s, %s)" % (g_ident(k), g_eval(k, v, pay)) for k, v in e.items()]
    )


def xf_parts(tdim):
    """(elements, element_ids, top, bottom) of a dimension-transforms dict; None = absent/null."""
    tdim = tdim or {}
    order = tdim.get("order") or {}
    fixed = order.get("fixed") or {}
    return (tdim.get("elements"), order.get("element_ids"), fixed.get("top"), fixed.get("bottom"))


def g_xf(tdim, pay):
    e, ids, top, bot = xf_parts(tdim)
    return "(mk_xf %s %s %s %s)" % (g_edict(e, pay), g_optlist(ids), g_optlist(top), g_optlist(bot))


def in_model_ident(x):
    if x is None:
        return True
    if isinstance(x, bool):
        return False
    if isinstance(x, int):
        return True
    if isinstance(x, str):
        return all(32 <= ord(c) < 127 and c != '"' for c in x)
    return False


# ------------------------------------------------------------------------------------
# decoders (mirror r_ident, r_edict, r_xf, r_shim, r_view of the Coq files)
# ------------------------------------------------------------------------------------


class Dec(core.Dec):
    def string(self):
        n = self.Z()
        return "".join(chr(self.Z()) for _ in range(n))

    def ident(self):
        tag = self.Z()
        if tag == 0:
            return self.Z()
        if tag == 1:
            return self.string()
        return None

    def exn(self):
        return {1: "TypeError", 2: "ValueError"}[self.Z()]

    def res(self, f):
        if self.Z() == 0:
            return ("ok", f())
        return ("exc", self.exn())

    def eval(self):
        tag = self.Z()
        if tag == 0:
            return ("key", "alias")
        if tag == 1:
            return ("key", "subvar_id")
        return ("payload", self.Z())

    def edict(self):
        return self.list(lambda: (self.ident(), self.eval()))

    def idents(self):
        return self.list(self.ident)

    def xf(self):
        return {
            "elements": self.opt(self.edict),
            "element_ids": self.opt(self.idents),
            "top": self.opt(self.idents),
            "bottom": self.opt(self.idents),
        }

    def shim(self):
        t = self.xf()
        exc = self.opt(self.exn)
        return t, exc

    def view(self):
        return {
            "elem": self.list(lambda: self.opt(self.eval)),
            "order": self.list(self.Z),
            "top": self.list(self.Z),
            "bottom": self.list(self.Z),
        }

    def tval(self):
        if self.Z() == 0:
            return ("id", self.ident())
        return ("obj",)


def canon_xf(tdim, pay):
    """The observable part of a dimension-transforms dict in the decoder's format."""
    e, ids, top, bot = xf_parts(tdim)
    out = {"elements": None, "element_ids": None, "top": None, "bottom": None}
    if e is not None:
        d = {}
        for k, v in e.items():
            if k == "key" and v in ("alias", "subvar_id"):
                d[_k(k)] = ("key", v)
            else:
                d[_k(k)] = ("payload", pay.idx(v))
        out["elements"] = d
    for name, l in (("element_ids", ids), ("top", top), ("bottom", bot)):
        if l is not None:
            out[name] = [_unhash(x) for x in l]
    return out


def used_transforms(dim):
    """The translated transforms dict a Dimension object USES: the lazyproperty
    Dimension._dimension_transforms_dict (private - the caller's dict is no longer rewritten, so
    there is no public place left where the translation can be observed as a dict).
    -> ("ok", dict) | ("exc", ExceptionTypeName, message) | ("missing-attr", what): a missing
    attribute must be reported by the caller as no-failing-input-found, never crash."""
    if not hasattr(type(dim), "_dimension_transforms_dict"):
        return ("missing-attr", "%s._dimension_transforms_dict" % type(dim).__name__)
    try:
        return ("ok", dim._dimension_transforms_dict)
    except Exception as e:  # noqa
        return ("exc", type(e).__name__, str(e)[:200])


def partition_dimension(part, akey):
    """The partition's OWN Dimension object for transforms key `akey` (private _dimensions).
    -> ("ok", Dimension) | ("exc", ...) | ("missing-attr", what)"""
    if not hasattr(type(part), "_dimensions"):
        return ("missing-attr", "%s._dimensions" % type(part).__name__)
    try:
        dims = part._dimensions
    except Exception as e:  # noqa
        return ("exc", type(e).__name__, str(e)[:200])
    return ("ok", dims[0] if (akey == "rows_dimension" or len(dims) == 1) else dims[1])


def same_json(a, b):
    """deep, type-aware equality of JSON-like objects (1 / True / "1" / 1.0 apart; dict order
    ignored, key types respected)"""
    if type(a) is not type(b):
        return False
    if isinstance(a, dict):
        if len(a) != len(b):
            return False
        for k, v in a.items():
            hit = [k2 for k2 in b if type(k2) is type(k) and k2 == k]
            if not hit or not same_json(v, b[hit[0]]):
                return False
        return True
    if isinstance(a, (list, tuple)):
        return len(a) == len(b) and all(same_json(x, y) for x, y in zip(a, b))
    if isinstance(a, float) and a != a:
        return b != b
    return a == b


def untranslated_part(tdim):
    """the part of a dimension-transforms dict the translation does not touch"""
    tdim = tdim or {}
    out = {k: v for k, v in tdim.items() if k not in ("elements", "order")}
    order = tdim.get("order")
    if isinstance(order, dict):
        out["order"] = {k: v for k, v in order.items() if k not in ("element_ids", "fixed")}
        if isinstance(order.get("fixed"), dict):
            out["order.fixed"] = {k: v for k, v in order["fixed"].items() if k not in ("top", "bottom")}
    elif "order" in tdim:
        out["order"] = order
    return out


def _k(x):
    """dict keys: keep int and str apart in JSON-able form"""
    return ("i", x) if isinstance(x, int) and not isinstance(x, bool) else ("s", x) if isinstance(x, str) else ("n",) if x is None else ("?", repr(x))


def _unhash(x):
    return x if in_model_ident(x) else ("?", repr(x))


def model_xf_canon(t):
    out = dict(t)
    if t["elements"] is not None:
        out["elements"] = {_k(k): v for k, v in t["elements"]}
    return out


# ------------------------------------------------------------------------------------
# the model's view of a dimension, from the raw JSON
# ------------------------------------------------------------------------------------


def adim_of_dimension_dict(dim_dict, is_mr):
    items = []
    for el in dim_dict["type"]["elements"]:
        val = el.get("value", {})
        refs = val.get("references", {}) if isinstance(val, dict) else {}
        items.append({
            "eid": el["id"],
            "svid": val["id"] if isinstance(val, dict) and "id" in val else ABSENT,
            "aref": refs["alias"] if "alias" in refs else ABSENT,
            "ins": "anchor" in refs,
            "missing": bool(el.get("missing")),
            "derived": bool(val.get("derived", False)) if isinstance(val, dict) else False,
            "name": refs.get("name"),
        })
    refs = dim_dict.get("references") or {}
    view = refs.get("view") or {}
    ins = view.get("transform", {}).get("insertions", [])
    return {"items": items, "mr_ins": bool(is_mr and ins)}


def adim_of_numarr_measure(response):
    """The NUM_ARRAY dimension the library synthesises from the first numeric measure."""
    meas = response["result"]["measures"]
    # the library takes the first *available numeric* measure; the harness always puts one
    for name in ("mean", "sum", "stddev", "median"):
        if name in meas:
            md = meas[name]["metadata"]
            break
    subvars = md["type"]["subvariables"]
    subrefs = md["references"].get("subreferences", [])
    items = []
    for i, sv in enumerate(subvars):
        items.append({"eid": i, "svid": sv,
                      "aref": (subrefs[i].get("alias") if subrefs else None),
                      "ins": False, "missing": False, "derived": False,
                      "name": (subrefs[i].get("name") if subrefs else None)})
    return {"items": items, "mr_ins": False}


def aliases(d):
    return [it["eid"] if it["aref"] == ABSENT else it["aref"] for it in d["items"]]


def py_eq(a, b):
    """Python == restricted to the model's domain (int / str / None)."""
    return type(a) is type(b) and a == b


def py_in(x, l):
    return any(py_eq(x, y) for y in l)


# ------------------------------------------------------------------------------------
# generators
# ------------------------------------------------------------------------------------


def scheme_ids(rng, n, scheme):
    if scheme == "one":
        return list(range(1, n + 1))
    if scheme == "zero":
        return list(range(n))
    if scheme == "sparse":
        return sorted(rng.sample(range(0, 3 * n + 3), n))
    if scheme == "shuffled":
        ids = list(range(n + 1))
        rng.shuffle(ids)
        return ids[:n]
    if scheme == "neg":
        return rng.sample([-2, -1, 0, 1, 2, 3, 10, 11], n)
    raise ValueError(scheme)


def make_array_var(rng, alias, kind, n_items=None, malformed=False):
    """gen.Var of kind mr / ca with the id schemes that stress the cascade."""
    n = rng.randint(1, 5) if n_items is None else n_items
    eids = scheme_ids(rng, n, rng.choice(["one", "one", "zero", "zero", "sparse", "shuffled", "neg"]))
    sv_scheme = rng.choice(["pad4", "pad4", "pad4off", "digits", "digits_shift", "names"])
    svids = []
    for k in range(n):
        if sv_scheme == "pad4":
            svids.append("%04d" % (k + 1))
        elif sv_scheme == "pad4off":
            svids.append("%04d" % (k + 3))
        elif sv_scheme == "digits":
            svids.append(str(eids[k]))
        elif sv_scheme == "digits_shift":
            svids.append(str(eids[(k + 1) % n]))
        else:
            svids.append("%s_sv%d" % (alias, k))
    als = ["%s_i%d" % (alias, k) for k in range(n)]
    coll = rng.random()
    if coll < 0.06 and n >= 2:
        # an alias that is another item's subvar id / element id string / position
        j, k = rng.sample(range(n), 2)
        als[j] = rng.choice([svids[k], str(eids[k]), str(k)])
    items = []
    n_missing = 0
    for k in range(n):
        it = {"id": eids[k], "subvar_id": svids[k], "alias": als[k],
              "name": "%s item %d" % (alias, k), "missing": False}
        if rng.random() < 0.08 and n - n_missing > 1:
            it["missing"] = True
            n_missing += 1
        items.append(it)
    view_ins = None
    if kind == "mr":
        r = rng.random()
        if r < 0.45:
            # derived (inserted) items, anchored; zz9 names them after the insertion
            cand = [k for k in range(n) if not items[k]["missing"]]
            n_ins = rng.randint(1, max(1, min(2, len(cand) - 1))) if len(cand) > 1 else 0
            chosen = rng.sample(cand, n_ins) if n_ins else []
            view_ins = []
            for k in chosen:
                it = items[k]
                it["derived"] = True
                others = [items[j]["alias"] for j in range(n) if j != k]
                anchor = rng.choice(["top", "bottom"] + (
                    [{"position": rng.choice(["after", "before"]), "alias": rng.choice(others)}]
                    if others else []))
                it["anchor"] = anchor
                nm = "%s ins%d" % (alias, k)
                it["name"] = nm
                if rng.random() < 0.8:
                    it["subvar_id"] = nm
                    it["alias"] = nm if rng.random() < 0.7 else it["alias"]
                view_ins.append({"function": "any_selected", "name": nm, "anchor": anchor,
                                 "kwargs": {"variable": alias, "subvariable_ids": others[:2]}})
            if not view_ins and rng.random() < 0.5:
                view_ins = None
            if rng.random() < 0.1:
                # anchors on items but no view insertion recorded / the other way round
                view_ins = None if view_ins else [{"function": "any_selected", "name": "x",
                                                   "anchor": "top", "kwargs": {}}]
        elif r < 0.55:
            view_ins = [{"function": "any_selected", "name": "ghost", "anchor": "top",
                         "kwargs": {"variable": alias, "subvariable_ids": []}}]
    if kind == "mr":
        v = gen.Var(kind="mr", alias=alias, name=alias.upper(), items=items)
    else:
        cat = gen.make_cat(rng, alias, n_valid=rng.randint(1, 3), n_missing=rng.choice([0, 0, 1]))
        v = gen.Var(kind="ca", alias=alias, name=alias.upper(), items=items, cats=cat.cats)
    v.view_insertions = view_ins
    return v


def patch_absent(rng, dim_dict, is_mr, p_alias=0.04, p_svid=0.04):
    """Occasionally remove value.references.alias (falls back to the element id) or, on CA
    dimensions only, value.id (then `_subvar_ids` is ())."""
    for el in dim_dict["type"]["elements"]:
        if rng.random() < p_alias:
            el["value"]["references"].pop("alias", None)
    if not is_mr and rng.random() < p_svid:
        rng.choice(dim_dict["type"]["elements"])["value"].pop("id", None)


def numarr_response(rng, n_sub, by_cat=True, alias="na", with_subrefs=True):
    """NUM_ARRAY x CAT (or NUM_ARRAY alone) response: means + valid counts."""
    cat = gen.make_cat(rng, "g", n_valid=rng.randint(1, 3), n_missing=rng.choice([0, 1]))
    ncat = len(cat.cats) if by_cat else 1
    subvars = ["S%d" % (k + 1) for k in range(n_sub)] if rng.random() < 0.7 else [
        "%04d" % (k + 1) for k in range(n_sub)]
    if rng.random() < 0.25:
        subvars = [str(k) for k in range(1, n_sub + 1)]   # collide with positions
    subrefs = [{"alias": "%s_s%d" % (alias, k), "name": "%s sub %d" % (alias, k)} for k in range(n_sub)]
    refs = {"alias": alias, "name": alias.upper()}
    if with_subrefs:
        refs["subreferences"] = subrefs
    md = {"derived": True, "references": refs,
          "type": {"class": "numeric", "integer": False, "subvariables": subvars}}
    size = ncat * n_sub
    means = [gen.fnum(Fraction(rng.randint(0, 400), 4)) for _ in range(size)]
    valid = [rng.randint(1, 9) for _ in range(size)]
    dims = gen.dimension_dicts(cat) if by_cat else []
    counts = [rng.randint(1, 9) for _ in range(ncat)]
    result = {"counts": counts, "dimensions": dims, "element": "crunch:cube", "n": sum(counts),
              "missing": 0,
              "measures": {"mean": {"data": means, "metadata": copy.deepcopy(md), "n_missing": 0},
                           "valid_count_unweighted": {"data": valid, "metadata": copy.deepcopy(md),
                                                      "n_missing": 0}}}
    return {"query": {}, "result": result}


# ------------------------------------------------------------------------------------
# spellings and the side conditions of the theorems (Props/C19.v), restated in Python
# ------------------------------------------------------------------------------------


def spellings_of_item(d, k):
    """[(rule, spelling)] by which item k of array dimension d may be referenced."""
    it = d["items"][k]
    out = [("alias", aliases(d)[k])]
    if it["svid"] != ABSENT and all(i["svid"] != ABSENT for i in d["items"]):
        out.append(("svid", it["svid"]))
    e = it["eid"]
    out.append(("eid", e))
    if isinstance(e, int):
        out.append(("eidstr", str(e)))
    raw = [i["eid"] for i in d["items"]]
    if not py_in(k, raw):
        out.append(("pos", k))
        out.append(("posstr", str(k)))
    return out


def translate_spec(d, x):
    """Independent reading of the documented cascade (docstring of translate_element_id)
    - used only to cross-check the Coq model on the generated stream, never as the oracle."""
    return None


def spelling_ok(d, k, rule, x):
    """Side conditions under which Props/C19.v proves  translate d x = alias_k.
    Mirrors the hypotheses of C19_translate_* one by one."""
    al = aliases(d)
    raw = [i["eid"] for i in d["items"]]
    all_sv = all(i["svid"] != ABSENT for i in d["items"])
    sv = [i["svid"] for i in d["items"]] if all_sv else []
    nonins_str = [str(i["eid"]) for i in d["items"] if not i["ins"]] if d["mr_ins"] else []
    first = lambda l, v: next((j for j, y in enumerate(l) if py_eq(v, y)), None)  # noqa: E731
    if al[k] is None:
        return False
    if rule == "alias":
        return True
    if py_in(x, al):
        return False
    if rule == "eid":
        return first(raw, x) == k
    if py_in(x, raw):
        return False
    if rule == "svid":
        return not py_in(x, nonins_str) and first(sv, x) == k
    if rule == "eidstr":
        if py_in(x, nonins_str):
            return first(raw, int(x)) == k
        return (not py_in(x, sv) or first(sv, x) == k) and first(raw, int(x)) == k
    if rule in ("pos", "posstr"):
        z = int(x)
        if py_in(x, nonins_str):
            return False
        if py_in(x, sv):
            return first(sv, x) == k
        return (not py_in(z, raw)) and z == k
    return False
