# -*- coding: utf-8 -*-
"""C03 - Proportions are count over base, bounded, and sum to one.

Obligations: coq/Props/C03.v (model: coq/Model/Proportions.v).
Correspondence (local step): the four blocks of the implementation's own weighted counts
and row/column/table weighted bases are fed to the model's `props_of` / `div_blocks`; the
proportion blocks are compared with the public row/column/table proportions.
Property oracles on the implementation alone: range [0,1] and NaN <=> zero base outside
difference vectors, sum to one along categorical dimensions, percentages = 100 x,
margin proportion = margin / table base.
ORDER-INDEPENDENT LEG: the statement must hold whatever was read before.  For every case a second
partition is built from the same arguments (half of them with a population), EVERY public property
of the partition (enumerated by introspection, + row_order / column_order / pairwise methods) is
read in a random order (seeded by the case number), and only then the proportions, percentages,
margin proportions, counts and bases are read: they must be value-exact equal (NaN = NaN) to the
ones of the fresh partition the model and the oracles were run on; when they are not, the property
oracles are run on the late values as well and the single earlier reads that change the value are
named in the report.
NEVER-SELECTED stream (after seeded change C03-11: the strand's `_TableProportions.base_values` got an
"empty stripe" early exit `if not np.any(weighted_counts): return all-NaN` - equivalent for a categorical
strand, whose base is the sum of its counts, wrong for a multiple-response strand whose bases are selected +
not selected): the main stream draws every MR answer as selected with probability 2/5, so a strand / slice whose
selected counts are ALL zero while respondents exist practically never occurred and "count 0 over a positive
base is exactly 0.0, not NaN" was only sampled cell-wise.  `gen_never_selected` draws MR strands and MR x CAT /
CAT x MR / MR x MR / MR x CAT_DATE slices over 1-40 respondents and rewrites the SURVEY (not the payload) so
that, per MR variable, either nobody selected any item or exactly one item was never selected (selected ->
not selected, missingness kept), then tabulates it again; the cases go through the same model comparison,
property oracles (NaN exactly where the base is zero) and late-reads leg as the main stream.  Evidence keys
`never-selected(<mode>):<types>` and `never-selected:all-counts-zero,positive-base`.
"""
import json
import math
import random
from fractions import Fraction

from harness import core, gen, impl
from harness.core import g_bool, g_mat, g_nat, g_subtotals, g_vec
from harness.props import common_cases as cc
from harness.props import c18_util as hu      # public reads by introspection, canonical values

PID = "C03"
IMPORTS = """From Coq Require Import QArith ZArith List Bool.
From CC Require Import Base.XQ Base.Render Base.ListX Model.Subtotals Model.Proportions Model.RenderBlocks.
Import ListNotations."""

N2 = ["counts", "row_weighted_bases", "column_weighted_bases", "table_weighted_bases",
      "row_proportions", "column_proportions", "table_proportions", "row_percentages",
      "column_percentages", "table_percentages", "rows_margin", "columns_margin",
      "rows_margin_proportion", "columns_margin_proportion", "row_order", "column_order",
      "diff_row_idxs", "diff_column_idxs"]
N1 = ["counts", "weighted_bases", "table_proportions", "table_percentages", "row_order",
      "diff_row_idxs"]


# outputs read again with warnings turned into errors: the proportions / percentages themselves, which the
# library computes inside `np.errstate(divide="ignore", invalid="ignore")` blocks ("do not propagate
# divide-by-zero warnings").  NOT the margin proportions: their 2-D fall-back in cubepart.py divides without
# such a block and does warn on an empty table on the unchanged tree (a behaviour outside the property text).
WARN_NAMES = ("row_proportions", "column_proportions", "table_proportions", "row_percentages",
              "column_percentages", "table_percentages")


NS_KINDS_2D = [("mr", "cat"), ("cat", "mr"), ("mr", "mr"), ("mr", "cat_date"), ("cat_date", "mr")]


def gen_never_selected(rng, k):
    """NEVER-SELECTED: an MR strand (half of the cases) or a slice with at least one MR dimension over 1-40
    respondents in which, per MR variable, nobody selected ANY item ("nobody") or exactly one item was never
    selected ("one-item"): every `selected` answer concerned becomes `not selected` in the survey, which is
    then tabulated again - so the selected counts are zero while the bases (selected + not selected) stay
    what they were.  No insertions (an MR dimension takes none; the categorical one is left bare so that the
    stream adds nothing to the known 2-D margin-proportion fall-back finding), counts only."""
    case = cc.gen_slice_case(rng, k, p_strand=0.5, p_insert=0.0, valid_counts_p=0.0, kinds2d=NS_KINDS_2D,
                             kinds1d=["mr"], n_resp=(1, 40))
    sv = case["survey"]
    modes = []
    for v in sv.vars:
        if v.kind != "mr":
            continue
        mode = "nobody" if rng.random() < 0.6 else "one-item"
        items = list(range(len(v.items))) if mode == "nobody" else [rng.randrange(len(v.items))]
        for r in sv.resp:
            a = r["ans"][v.alias]
            for i in items:
                if a[i] == gen.SEL:
                    a[i] = gen.OTH
        modes.append(mode)
    case["response"] = gen.cube_response(sv, [v.alias for v in sv.vars], measures=("count",))
    case["never_selected"] = "+".join(modes)
    return case


def _all_zero_positive_base(io):
    """every base count is zero while some (table) base is positive"""
    if io["ndim"] == 1:
        cb, bb = io["blk"]["counts"][0], io["blk"]["bases"][0]
        return bool(cb) and all(c == 0 for c in cb) and any(b > 0 for b in bb)
    cnt, tb = io["blk"]["counts"][0][0], io["blk"]["table_weighted_bases"][0][0]
    flat = [c for r in cnt for c in r]
    return bool(flat) and all(c == 0 for c in flat) and any(b > 0 for r in tb for b in r)


def g_blocks(b):
    return "(mkB %s %s %s %s)" % (g_mat(b[0][0]), g_mat(b[0][1]), g_mat(b[1][0]), g_mat(b[1][1]))


def impl_run(case):
    p = impl.partition(case["response"], case["transforms"])
    io = {"ndim": p.ndim, "dims": impl.dims_info(p), "subs": impl.subtotal_idxs(p),
          "types": [str(t).split(".")[-1] for t in p.dimension_types]}
    io["v"] = cc.read(p, N1 if p.ndim == 1 else N2)
    return io


def preread_reads(part):
    return list(hu.READS.get(type(part).__name__, []))


def late_run(case):
    """the N1 / N2 reads on a partition all of whose public properties were read before, in a
    random order that depends on the case number only (so that a replay repeats it)"""
    rng = random.Random(1000003 * int(case.get("k", 0)) + 17)
    population = rng.choice([None, 1000, 75])
    p = impl.partition(case["response"], case["transforms"], population=population)
    reads = preread_reads(p)
    rng.shuffle(reads)
    for name, args in reads:
        impl.get(p, name, *args)
    io = {"ndim": p.ndim, "dims": impl.dims_info(p), "subs": impl.subtotal_idxs(p),
          "types": [str(t).split(".")[-1] for t in p.dimension_types],
          "preread": [n for n, _a in reads], "population": population}
    io["v"] = cc.read(p, N1 if p.ndim == 1 else N2)
    return io


def canon_read(r):
    return ["ok", hu.canon(r[1])] if r[0] == "ok" else ["exc", r[1]]


def culprits(case, io2, name, expected, limit=4):
    """the single earlier reads after which `name` already differs from the fresh value"""
    out = []
    for pre in io2["preread"]:
        if pre == name:
            continue
        p = impl.partition(case["response"], case["transforms"], population=io2["population"])
        args = [a for n, a in preread_reads(p) if n == pre][0]
        impl.get(p, pre, *args)
        if canon_read(impl.get(p, name)) != expected:
            out.append(pre)
            if len(out) >= limit:
                break
    return out


def order_independence(case, io, fails):
    """C03's reads after every other public read vs the same reads on a fresh partition"""
    io2 = late_run(case)
    names = N1 if io["ndim"] == 1 else N2
    differing = []
    for n in names:
        a, b = canon_read(io["v"][n]), canon_read(io2["v"][n])
        if a != b:
            differing.append(n)
            if len(differing) == 1:
                fails.append(("%s depends on what was read before" % n,
                              {"fresh": a, "after_other_reads": b, "population": io2["population"],
                               "single_earlier_reads_that_change_it": culprits(case, io2, n, a)},
                              {"measure": n, "oracle": "order_independent"}))
    if differing and not cc.any_exc(io2["v"]):
        # which part of the statement the late values break
        late = []
        if build_term(case, io2) is not None:
            if io2["ndim"] == 1:
                oracle_1d(io2, late)
            else:
                oracle_2d(case, io2, late)
        for what, detail, ctx in late:
            fails.append((what + " (after other reads)", detail, dict(ctx, oracle="order_independent")))
    return io2


def build_term(case, io):
    v = io["v"]
    if cc.any_exc(v):
        return None
    if io["ndim"] == 1:
        n, ns = io["dims"]
        ro = v["row_order"][1]
        cb, cs = impl.blocks1d(v["counts"][1], ro, n, ns)
        bb, bs = impl.blocks1d(v["weighted_bases"][1], ro, n, ns)
        io["blk"] = {"counts": (cb, cs), "bases": (bb, bs)}
        date = io["types"][0] == "CAT_DATE"
        return "r_vec (strand_props_base %s %s) ++ r_vec (strand_props_subtotals_loc %s %s %s %s %s %s)" % (
            g_vec(cb), g_vec(bb), g_vec(cb), g_vec(bb), g_bool(date), g_subtotals(io["subs"][0]),
            g_vec(cs), g_vec(bs))
    nr, nrs, nc, ncs = io["dims"]
    ro, co = v["row_order"][1], v["column_order"][1]
    blk = {}
    for name in ("counts", "row_weighted_bases", "column_weighted_bases", "table_weighted_bases",
                 "row_proportions", "column_proportions", "table_proportions"):
        blk[name] = impl.blocks2d(v[name][1], ro, co, nr, nc, nrs, ncs)
    io["blk"] = blk
    rd, cd = io["types"][0] == "CAT_DATE", io["types"][1] == "CAT_DATE"
    common = "%s %s %s %s" % (g_nat(nr), g_nat(nc), g_subtotals(io["subs"][0]), g_subtotals(io["subs"][1]))
    cnt = g_blocks(blk["counts"])
    parts = []
    for bname in ("row_weighted_bases", "column_weighted_bases"):
        parts.append("r_blocks (props_of %s %s %s %s %s %s %s)" % (
            common, cnt, g_blocks(blk[bname]), g_mat(blk[bname][0][0]), g_mat(blk["counts"][0][0]),
            g_bool(rd), g_bool(cd)))
    parts.append("r_blocks (div_blocks %s %s %s)" % (common, cnt, g_blocks(blk["table_weighted_bases"])))
    return " ++ ".join(parts)


BLOCKNAMES = [["base", "inserted_columns"], ["inserted_rows", "intersections"]]


def _f(x):
    return float(x)


def oracle_2d(case, io, fails):
    """Property-level checks on the implementation's outputs alone."""
    v = io["v"]
    nr, nrs, nc, ncs = io["dims"]
    blk = io["blk"]
    rsub_diff = [len(s[1]) > 0 for s in io["subs"][0]]
    csub_diff = [len(s[1]) > 0 for s in io["subs"][1]]
    for pname, bname in (("row_proportions", "row_weighted_bases"),
                         ("column_proportions", "column_weighted_bases"),
                         ("table_proportions", "table_weighted_bases")):
        P, B = blk[pname], blk[bname]
        for a in range(2):
            for b in range(2):
                for i, row in enumerate(P[a][b]):
                    for j, x in enumerate(row):
                        if (a == 1 and rsub_diff[i]) or (b == 1 and csub_diff[j]):
                            continue  # difference vectors are outside the range claim
                        base = B[a][b][i][j]
                        if math.isnan(x):
                            if not (base == 0 or math.isnan(base)):
                                fails.append((pname + " NaN-but-base-nonzero", {"block": BLOCKNAMES[a][b], "cell": [i, j], "base": base},
                                              {"measure": pname, "oracle": "nan_iff"}))
                        else:
                            if base == 0:
                                fails.append((pname + " not-NaN-on-zero-base", {"block": BLOCKNAMES[a][b], "cell": [i, j], "value": x},
                                              {"measure": pname, "oracle": "nan_iff"}))
                            if not (-1e-12 <= x <= 1 + 1e-12):
                                fails.append((pname + " out-of-[0,1]", {"block": BLOCKNAMES[a][b], "cell": [i, j], "value": x},
                                              {"measure": pname, "oracle": "bounds"}))
    # sum to one along a categorical (non-array) dimension, over ALL base elements
    cat = ("CAT", "CAT_DATE")
    if io["types"][1] in cat:
        P, B = blk["row_proportions"], blk["row_weighted_bases"]
        for a in range(2):
            for i, row in enumerate(P[a][0]):
                if a == 1 and rsub_diff[i]:
                    continue
                if nc and B[a][0][i][0] > 0:
                    if any(not math.isfinite(x) for x in row):
                        fails.append(("row_proportions not-finite-on-positive-base", {"row": i, "inserted": a == 1},
                                      {"measure": "row_proportions", "oracle": "sum_one"}))
                        continue
                    s = sum(Fraction(x) for x in row)
                    if abs(s - 1) > Fraction(1, 10**9):
                        fails.append(("row_proportions do-not-sum-to-1", {"row": i, "inserted": a == 1, "sum": float(s)},
                                      {"measure": "row_proportions", "oracle": "sum_one"}))
    if io["types"][0] in cat:
        P, B = blk["column_proportions"], blk["column_weighted_bases"]
        for b in range(2):
            ncol = nc if b == 0 else ncs
            for j in range(ncol):
                if b == 1 and csub_diff[j]:
                    continue
                col = [P[0][b][i][j] for i in range(nr)]
                if nr and B[0][b][0][j] > 0:
                    if any(not math.isfinite(x) for x in col):
                        fails.append(("column_proportions not-finite-on-positive-base", {"col": j, "inserted": b == 1},
                                      {"measure": "column_proportions", "oracle": "sum_one"}))
                        continue
                    s = sum(Fraction(x) for x in col)
                    if abs(s - 1) > Fraction(1, 10**9):
                        fails.append(("column_proportions do-not-sum-to-1", {"col": j, "inserted": b == 1, "sum": float(s)},
                                      {"measure": "column_proportions", "oracle": "sum_one"}))
    if io["types"][0] in cat and io["types"][1] in cat and nr and nc:
        P, B = blk["table_proportions"], blk["table_weighted_bases"]
        if B[0][0][0][0] > 0:
            s = sum(Fraction(x) for r in P[0][0] for x in r)
            if abs(s - 1) > Fraction(1, 10**9):
                fails.append(("table_proportions do-not-sum-to-1", {"sum": float(s)},
                              {"measure": "table_proportions", "oracle": "sum_one"}))
    # percentages
    for pname, qname in (("row_proportions", "row_percentages"), ("column_proportions", "column_percentages"),
                         ("table_proportions", "table_percentages")):
        P, Q = v[pname][1], v[qname][1]
        ok = P.shape == Q.shape and all(
            (math.isnan(a) and math.isnan(b)) or core.close(b, core.to_exact(a) * 100 if not math.isinf(a) else core.to_exact(a))
            for a, b in zip(P.ravel().tolist(), Q.ravel().tolist()))
        if not ok:
            fails.append((qname + " != 100*proportions", {"props": P, "pct": Q}, {"measure": qname, "oracle": "pct"}))
    # margin proportions = margin / table base (base, non-difference entries)
    ro, co = v["row_order"][1], v["column_order"][1]
    TB = blk["table_weighted_bases"]
    for axis, mname, pname in ((0, "rows_margin", "rows_margin_proportion"),
                               (1, "columns_margin", "columns_margin_proportion")):
        M, MP = v[mname][1], v[pname][1]
        if M is None or MP is None:
            continue
        if M.ndim == 1 and MP.ndim == 1:
            n, ns, order = (nr, nrs, ro) if axis == 0 else (nc, ncs, co)
            mb, _ = impl.blocks1d(M, order, n, ns)
            pb, _ = impl.blocks1d(MP, order, n, ns)
            for i in range(n):
                if (nc if axis == 0 else nr) == 0:
                    continue
                tb = TB[0][0][i][0] if axis == 0 else TB[0][0][0][i]
                exp = _xdiv(mb[i], tb)
                if exp is not None and not core.close(pb[i], exp, inf_sign=False):
                    fails.append((pname + " != margin/table-base", {"idx": i, "margin": mb[i], "table_base": tb, "impl": pb[i]},
                                  {"measure": pname, "oracle": "margin_prop"}))
        elif M.ndim == 2 and MP.ndim == 2:
            mb = impl.blocks2d(M, ro, co, nr, nc, nrs, ncs)[0][0]
            pb = impl.blocks2d(MP, ro, co, nr, nc, nrs, ncs)[0][0]
            for i in range(nr):
                for j in range(nc):
                    exp = _xdiv(mb[i][j], TB[0][0][i][j])
                    if exp is not None and not core.close(pb[i][j], exp, inf_sign=False):
                        # known finding F15: the 2-D fall-back divides ASSEMBLED arrays and inserts the
                        # subtotals a second time; wrong as soon as the dimension has insertions
                        cls = "margin_prop_2d_with_insertions" if (nrs + ncs) > 0 else "margin_prop_2d"
                        fails.append((pname + " != margin/table-base", {"cell": [i, j], "impl": pb[i][j],
                                                                         "expected": exp},
                                      {"measure": pname, "oracle": "margin_prop", "cls": cls}))


def oracle_1d(io, fails):
    """Property-level checks on a strand's outputs alone."""
    v = io["v"]
    n, ns = io["dims"]
    ro = v["row_order"][1]
    ib, isub = impl.blocks1d(v["table_proportions"][1], ro, n, ns)
    (cb, cs), (bb, bs) = io["blk"]["counts"], io["blk"]["bases"]
    for i, x in enumerate(ib):
        if math.isnan(x):
            if not (bb[i] == 0):
                fails.append(("strand NaN-but-base-nonzero", {"row": i}, {"oracle": "nan_iff"}))
        elif not (-1e-12 <= x <= 1 + 1e-12) or bb[i] == 0:
            fails.append(("strand out-of-range", {"row": i, "value": x}, {"oracle": "bounds"}))
    # subtotal rows: NaN exactly where the base is zero (sums AND differences); the range claim is
    # for the sums only.  On a categorical-date strand a difference's proportion is defined by the
    # wave rule (may be NaN on a positive base), so those are left to the model comparison.
    date = io["types"][0] == "CAT_DATE"
    for i, x in enumerate(isub):
        is_diff = len(io["subs"][0][i][1]) > 0
        if date and is_diff:
            continue
        if math.isnan(x):
            if not (bs[i] == 0 or math.isnan(bs[i])):
                fails.append(("strand subtotal NaN-but-base-nonzero", {"subtotal": i, "base": bs[i],
                                                                      "difference": is_diff},
                              {"oracle": "nan_iff"}))
        elif bs[i] == 0:
            fails.append(("strand subtotal not-NaN-on-zero-base", {"subtotal": i, "value": x},
                          {"oracle": "nan_iff"}))
        elif not is_diff and not (-1e-12 <= x <= 1 + 1e-12):
            fails.append(("strand subtotal out-of-range", {"subtotal": i, "value": x}, {"oracle": "bounds"}))
    if io["types"][0] in ("CAT", "CAT_DATE") and n and bb[0] > 0:
        s = sum(Fraction(x) for x in ib)
        if abs(s - 1) > Fraction(1, 10**9):
            fails.append(("strand proportions do-not-sum-to-1", {"sum": float(s)}, {"oracle": "sum_one"}))
    P, Q = v["table_proportions"][1], v["table_percentages"][1]
    if not all((math.isnan(a) and math.isnan(b)) or core.close(b, core.to_exact(a) * 100)
               for a, b in zip(P.tolist(), Q.tolist())):
        fails.append(("strand percentages", {"props": P, "pct": Q}, {"oracle": "pct"}))


def _xdiv(a, b):
    a, b = core.to_exact(a), core.to_exact(b)
    if a == "nan" or b == "nan":
        return "nan"
    if isinstance(a, str) or isinstance(b, str):
        return None
    if b == 0:
        return "nan" if a == 0 else "inf"
    return a / b


def compare(case, io, toks):
    fails = []
    v = io["v"]
    d = core.Dec(toks)
    if io["ndim"] == 1:
        n, ns = io["dims"]
        mb, msub = d.vec(), d.vec()
        ro = v["row_order"][1]
        ib, isub = impl.blocks1d(v["table_proportions"][1], ro, n, ns)
        if not core.close_vec(ib, mb, inf_sign=False):
            fails.append(("strand table_proportions.base", {"impl": ib, "model": mb}, {"measure": "table_proportions", "block": "base"}))
        if not core.close_vec(isub, msub, inf_sign=False):
            fails.append(("strand table_proportions.subtotals", {"impl": isub, "model": msub, "subs": io["subs"], "types": io["types"]},
                          {"measure": "table_proportions", "block": "inserted_rows"}))
        oracle_1d(io, fails)
        return fails
    blk = io["blk"]
    for pname in ("row_proportions", "column_proportions", "table_proportions"):
        for a in range(2):
            for b in range(2):
                mm = d.mat()
                target = blk[pname][a][b]
                if not target or not target[0]:
                    continue
                diff = core.first_diff_mat(target, mm, inf_sign=False)
                if diff is not None:
                    fails.append(("%s.%s impl-vs-model" % (pname, BLOCKNAMES[a][b]),
                                  {"first_diff(i,j,impl,model)": diff, "subs": io["subs"], "types": io["types"]},
                                  {"measure": pname, "block": BLOCKNAMES[a][b]}))
    oracle_2d(case, io, fails)
    return fails


def nontrivial(io):
    if io["ndim"] == 1:
        return io["dims"][0] >= 2
    nr, nrs, nc, ncs = io["dims"]
    return nr >= 1 and nc >= 1 and nr * nc >= 2


def evaluate(cases, rep, tag="cases"):
    ios, terms, kept = [], [], []
    for case in cases:
        io = impl_run(case)
        t = build_term(case, io)
        if t is None:
            rep.count_case(cc.replayable(case), False)
            rep.violation("impl-exception", cc.replayable(case), {"exceptions": cc.any_exc(io["v"])},
                          {"what": "exception"})
            continue
        ios.append(io)
        terms.append(t)
        kept.append(case)
    results, coq_s = core.run_coq_cases(PID, IMPORTS, terms, tag=tag) if terms else ([], 0.0)
    for case, io, toks in zip(kept, ios, results):
        nt = nontrivial(io)
        rep.count_case(cc.replayable(case), nt)
        rep.dist("x".join(io["types"]))
        rep.dist("weighted" if case.get("weighted") else "unweighted")
        if case.get("dominant"):
            rep.dist("dominant-cell(2^20..2^24 respondents in one cell)")
        if case.get("empty_wave"):
            rep.dist("empty-wave(one-minus-one difference over a wave without respondents)")
        if any(len(s[1]) > 0 for d in io["subs"] for s in d):
            rep.dist("has_difference")
        if case.get("never_selected"):
            rep.dist("never-selected(%s):%s" % (case["never_selected"], "x".join(io["types"])))
            if _all_zero_positive_base(io):
                rep.dist("never-selected:all-counts-zero,positive-base:" + ("strand" if io["ndim"] == 1 else "slice"))
        if nt:
            rep.sample({"types": io["types"], "dims": io["dims"], "subs": io["subs"],
                        "transforms": case["transforms"]})
        found = compare(case, io, toks)
        io2 = order_independence(case, io, found)
        rep.cov["evaluations"] += 1
        rep.dist("late-reads:" + ("strand" if io["ndim"] == 1 else "slice"))
        rep.dist("late-reads:population=%s" % ("yes" if io2["population"] is not None else "none"))
        if io["ndim"] == 1 and io2["population"] is not None and \
                any(len(s[1]) > 0 for s in io["subs"][0]):
            rep.dist("late-reads:strand+difference+population")
        for what, detail, ctx in found:
            rep.violation("impl-vs-model" if "impl-vs-model" in what else "impl-vs-property",
                          cc.replayable(case), dict(detail, what=what), dict(ctx, types="x".join(io["types"])))
    return coq_s, len(terms)


def run(tier, seed):
    rep = core.Report(PID, tier, seed)
    ob = core.obligations_gate(rep, PID)
    n_cases = 300 if tier == "quick" else 5000
    rng = random.Random(seed)
    cases = [cc.gen_slice_case(rng, k) for k in range(n_cases)]
    # DOMINANT-CELL stream (after seeded change C03-5: proportions within 1e-5 of 1 snapped to exactly
    # 1.0, invisible below ~1e5 respondents): in one case out of eight one non-zero cell of the payload
    # gets 2^20..2^24 further (weighted and unweighted) respondents, so some proportion is 1 - O(1e-6)
    # and every other proportion of its row / column / table is O(1e-6) - both far outside the 1e-9
    # comparison tolerance yet inside numpy's default `isclose` window.
    cc.dominate_some(cases, seed)
    # EMPTY-WAVE stream (common_cases.empty_wave): about half of the cases with a categorical-date dimension
    # lose all respondents of one wave and get a one-minus-one difference over it (zero base in a wave
    # difference: NaN, quietly)
    cc.empty_wave_some(cases, seed)
    coq_s, nterms = evaluate(cases, rep)
    # NEVER-SELECTED stream (after seeded change C03-11, see the module docstring and gen_never_selected):
    # MR strands and slices in which nobody selected anything / one item was never selected while the
    # bases are positive: every such proportion is exactly 0.0, NaN only where the base itself is zero.
    rng_ns = random.Random(seed * 15485863 + 41)
    n_ns = 40 if tier == "quick" else 600
    ns_cases = [gen_never_selected(rng_ns, 100000 + k) for k in range(n_ns)]
    coq_ns, nterms_ns = evaluate(ns_cases, rep, tag="never_selected")
    coq_s, nterms = coq_s + coq_ns, nterms + nterms_ns
    # ---- CA-AS-0TH STRANDS (after seeded change C03-7: the factory handed _Strand its slice index and the
    # minimum-base threshold in exchanged order, so every strand of a categorical array was item `min_base`):
    # through a CubeSet whose leading cube is a categorical array, the proportions / percentages of strand k
    # are those of the univariate analysis of sub-variable k (relational oracle of C06's ca0 section,
    # restricted to C03's outputs)
    from harness.props import c06
    rng_ca = random.Random(seed + 31)
    n_ca = 14 if tier == "quick" else 200
    for k in range(n_ca):
        case = c06.gen_ca0(rng_ca, k)
        fails = [f for f in c06.check_ca0(case)
                 if "proportion" in str(f.get("attr", "")) or "percentage" in str(f.get("attr", ""))
                 or f.get("what") in ("exception", "n_partition_sets", "partition_type")]
        rcase = {kk: vv for kk, vv in case.items() if not kk.startswith("_")}
        rcase["leg"] = "ca0"
        rep.count_case(rcase, True)
        rep.dist("ca-as-0th-set(min_base=%s)" % case.get("mask_size"))
        for f in fails[:3]:
            rep.violation("impl-vs-property", rcase, dict(f, what="ca0:" + str(f.get("what"))),
                          {"what": "ca0", "oracle": "sub-variable analysis"})
    # ---- WARNINGS AS ERRORS (after seeded change C03-8: an np.errstate block narrowed so that a zero base
    # warns instead of quietly giving NaN): every third case is read again on a fresh partition with
    # `warnings.simplefilter("error")`; the values must be the same (a proportion with a zero base IS NaN,
    # it does not raise).  The unchanged library emits no warning on these reads.
    for case in cases:
        if int(case.get("k", 0)) % 3 and not case.get("empty_wave"):
            continue
        io = impl_run(case)
        impl.WARN_FILTER = "error"
        try:
            io_w = impl_run(case)
        finally:
            impl.WARN_FILTER = "ignore"
        rep.dist("warnings-as-errors")
        for n in [x for x in (N1 if io["ndim"] == 1 else N2) if x in WARN_NAMES]:
            a, b = canon_read(io["v"][n]), canon_read(io_w["v"][n])
            if a != b:
                rep.violation("impl-vs-property", cc.replayable(case),
                              {"what": "%s differs when warnings are errors" % n, "normal": a,
                               "warnings_as_errors": b},
                              {"measure": n, "oracle": "warnings_as_errors"})
                break
    rep.cov["rule"] = (
        "random.Random(seed): surveys (0-40 respondents, dyadic weights incl. 0, missing categories anywhere, "
        "per-item MR missingness) tabulated to CAT|CAT_DATE|MR|CA slices and CAT|CAT_DATE|MR strands with view/"
        "transform insertions incl. differences, stale and overlapping addends, optional valid counts; "
        "+ never-selected stream: MR strands / slices with an MR dimension over 1-40 respondents whose survey is "
        "rewritten so that nobody selected any item or one item was never selected (no insertions); "
        "non-trivial = at least 2 base cells; distinct by content hash")
    rep.cov["coq_eval_seconds"] = round(coq_s, 2)
    rep.cov["model_terms_evaluated"] = nterms
    rep.assumptions = [
        "count and base blocks fed to the model are the implementation's own public values (owned by C01/C02/C04)",
        "0 <= count <= base for non-difference cells (C01/C02) is checked here on the reported values, not proved from the survey",
    ]
    return rep.finish("proof", ob, trusted_base=core.TRUSTED_BASE_COMMON + [
        "Model/Proportions.v is hand-written; tied to matrix/measure.py (_RowProportions, _ColumnProportions, "
        "_TableProportions, WaveDiffSubtotal), stripe/measure.py, cubepart.py by this correspondence run only"])


def replay(path):
    d = json.load(open(path))
    case = d["violation"]["case"]
    if case.get("leg") == "ca0":
        from harness.props import c06
        fails = [f for f in c06.check_ca0(case)
                 if "proportion" in str(f.get("attr", "")) or "percentage" in str(f.get("attr", ""))
                 or f.get("what") in ("exception", "n_partition_sets", "partition_type")]
        for f in fails[:5]:
            print("REPLAY still fails:", json.dumps(core.jsonable(f))[:600])
        if not fails:
            print("REPLAY: no longer fails")
        return 1 if fails else 0
    rep = core.Report(PID, "quick", d.get("seed", 0))
    if d["violation"].get("ctx", {}).get("oracle") == "warnings_as_errors":
        io = impl_run(case)
        impl.WARN_FILTER = "error"
        try:
            io_w = impl_run(case)
        finally:
            impl.WARN_FILTER = "ignore"
        bad = [n for n in (N1 if io["ndim"] == 1 else N2) if n in WARN_NAMES and canon_read(io["v"][n]) != canon_read(io_w["v"][n])]
        print("REPLAY still fails: %s differ when warnings are errors" % bad if bad else "REPLAY: no longer fails")
        return 1 if bad else 0
    evaluate([case], rep, tag="replay")
    for v in rep.violations:
        print("REPLAY still fails:", json.dumps(v["detail"])[:600])
    if not rep.violations and not rep.known:
        print("REPLAY: no longer fails")
    return 1 if (rep.violations or rep.known) else 0
